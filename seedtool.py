#!/usr/bin/env python3
"""Seeded-change bookkeeping (checker validation, not property evidence).

  seedtool.py ingest /tmp/wt/C09/mutants/1 C09-1     verify a sub-agent's change in a scratch copy and store it under seeded/<id>/
  seedtool.py detect [--ids a,b] [--props C01,C02]   apply each stored patch to a scratch copy and run the checks against it
  seedtool.py table                                  print seeded/RESULTS.json as a table

Scratch copies live under /tmp and are removed immediately; /repo is never modified.
"""
import argparse
import json
import os
import shutil
import subprocess
import sys
import tempfile
from concurrent.futures import ThreadPoolExecutor

HERE = os.path.dirname(os.path.abspath(__file__))
SEEDED = os.path.join(HERE, "seeded")
REPO = "/repo"
TEST_TARGET = "/tmp/riti-seed-target"     # shared cargo target for the repository's own test runs


def sh(cmd, cwd=None, env=None, timeout=1800):
    r = subprocess.run(cmd, cwd=cwd, env=env, stdout=subprocess.PIPE, stderr=subprocess.STDOUT, text=True, timeout=timeout)
    return r.returncode, r.stdout


def scratch():
    d = tempfile.mkdtemp(prefix="riti-seed-")
    subprocess.check_call(["rsync", "-a", "--exclude", "target", "--exclude", ".git", "--exclude", "mutants", REPO + "/", d + "/"])
    subprocess.check_call(["git", "init", "-q"], cwd=d)
    return d


def apply(d, patch):
    return sh(["git", "apply", "--whitespace=nowarn", patch], cwd=d)


def cargo_test(d, filt=None):
    env = dict(os.environ, CARGO_NET_OFFLINE="true", CARGO_TARGET_DIR=TEST_TARGET)
    cmd = ["cargo", "test", "--offline", "--workspace", "--no-fail-fast"]
    if filt:
        cmd += [filt]
    rc, out = sh(cmd, cwd=d, env=env)
    passed = failed = 0
    for ln in out.splitlines():
        if ln.startswith("test result:"):
            parts = ln.replace(";", "").split()
            passed += int(parts[parts.index("passed") - 1])
            failed += int(parts[parts.index("failed") - 1])
    return rc, passed, failed, out


def ingest(src, sid):
    patch = os.path.join(src, "patch.diff")
    demo = os.path.join(src, "demo.diff")
    meta = json.load(open(os.path.join(src, "meta.json"), encoding="utf-8"))
    ran = []
    obs = {}
    # (a) patch only: suite passes
    d = scratch()
    try:
        rc, out = apply(d, patch)
        if rc != 0:
            print("patch does not apply:", out[-400:])
            return 1
        rc, p, f, out = cargo_test(d)
        ran.append("git apply patch.diff && cargo test --offline --workspace --no-fail-fast")
        obs["suite_with_patch"] = "%d passed, %d failed (rc %d)" % (p, f, rc)
        ok_a = rc == 0 and f == 0 and p >= 43
    finally:
        shutil.rmtree(d, ignore_errors=True)
    # (b) demo only: passes
    d = scratch()
    try:
        rc, out = apply(d, demo)
        if rc != 0:
            print("demo does not apply:", out[-400:])
            return 1
        rc, p, f, out = cargo_test(d)
        ran.append("git apply demo.diff && cargo test --offline --workspace --no-fail-fast")
        obs["demo_without_patch"] = "%d passed, %d failed (rc %d)" % (p, f, rc)
        ok_b = rc == 0 and f == 0 and p >= 44
    finally:
        shutil.rmtree(d, ignore_errors=True)
    # (c) both: demo fails
    d = scratch()
    try:
        apply(d, patch)
        rc2, out = apply(d, demo)
        if rc2 != 0:
            print("demo does not apply after patch:", out[-400:])
            return 1
        rc, p, f, out = cargo_test(d)
        ran.append("git apply patch.diff demo.diff && cargo test --offline --workspace --no-fail-fast")
        obs["demo_with_patch"] = "%d passed, %d failed (rc %d)" % (p, f, rc)
        aborted = rc != 0 and f == 0 and ("SIGABRT" in out or "signal: 6" in out or "SIGSEGV" in out or "signal: 11" in out or "stack overflow" in out)
        if aborted:
            obs["demo_with_patch"] += " — the test process was killed (abort / stack overflow / segfault), which is the demonstrated failure"
        ok_c = (f >= 1 and p >= 43) or aborted
    finally:
        shutil.rmtree(d, ignore_errors=True)
    print(sid, obs, "OK" if (ok_a and ok_b and ok_c) else "REJECTED")
    if not (ok_a and ok_b and ok_c):
        return 1
    dst = os.path.join(SEEDED, sid)
    os.makedirs(dst, exist_ok=True)
    shutil.copy(patch, os.path.join(dst, "patch.diff"))
    shutil.copy(demo, os.path.join(dst, "demo.diff"))
    m = {
        "id": sid,
        "property": meta.get("property"),
        "title": meta.get("title"),
        "what_breaks": meta.get("what_breaks"),
        "needs_to_manifest": meta.get("needs_to_manifest"),
        "files_changed": meta.get("files_changed"),
        "demo_test_name": meta.get("demo_test_name"),
        "origin": "independent sub-agent given only the property text and a scratch worktree",
        "confirmed_by_me": {"commands": ran, "observed": obs},
    }
    json.dump(m, open(os.path.join(dst, "meta.json"), "w", encoding="utf-8"), indent=1, ensure_ascii=False)
    return 0


def detect_one(sid, props):
    dst = os.path.join(SEEDED, sid)
    meta = json.load(open(os.path.join(dst, "meta.json"), encoding="utf-8"))
    d = scratch()
    res = {}
    try:
        rc, out = apply(d, os.path.join(dst, "patch.diff"))
        if rc != 0:
            return sid, {"error": "patch does not apply to the current tree: " + out[-200:]}
        env = dict(os.environ, VERIF_REPO=d, VERIF_EVID_DIR=os.path.join(d, ".evid"))
        facts = os.path.join(d, ".facts.json")
        rc, out = sh([sys.executable, os.path.join(HERE, "engine", "facts.py"), facts], cwd=HERE, env=env)      # one analysis of the patched tree, shared by all checks
        if rc != 0 or not os.path.exists(facts):
            return sid, {"error": "factgen failed on the patched tree: " + out[-300:]}
        for p in props:
            rc, out = sh([os.path.join(HERE, "check"), p, "--facts", facts], cwd=HERE, env=env)
            fired = [ln.strip() for ln in out.splitlines() if "[VIOLATION]" in ln or "[UNDECIDABLE]" in ln]
            if rc == 1:
                res[p] = [f[:260] for f in fired]
            elif rc != 0:
                res[p] = ["ERROR rc=%d %s" % (rc, out[-200:])]
    finally:
        shutil.rmtree(d, ignore_errors=True)
    return sid, res


def detect(ids, props):
    all_ids = sorted(x for x in os.listdir(SEEDED) if os.path.exists(os.path.join(SEEDED, x, "patch.diff")))
    if ids:
        all_ids = [i for i in all_ids if i in ids]
    manifest = json.load(open(os.path.join(HERE, "MANIFEST.json")))
    claimed = [c["property_id"] for c in manifest["checks"]]
    props = props or claimed
    results_path = os.path.join(SEEDED, "RESULTS.json")
    results = json.load(open(results_path)) if os.path.exists(results_path) else {}
    with ThreadPoolExecutor(max_workers=13) as ex:
        for sid, res in ex.map(lambda s: detect_one(s, props), all_ids):
            meta = json.load(open(os.path.join(SEEDED, sid, "meta.json"), encoding="utf-8"))
            own = meta.get("property")
            prev = results.get(sid, {}).get("fired", {})
            if "error" in res:
                print("%-10s ERROR %s" % (sid, res["error"]))
                continue
            for p in props:
                prev.pop(p, None)
            prev.update(res)
            results[sid] = {"property": own, "title": meta.get("title"), "fired": prev,
                            "caught_by_own_property": bool(prev.get(own)), "caught_by_any": bool(prev)}
            tag = "CAUGHT" if prev.get(own) else ("caught-elsewhere" if prev else "MISSED")
            first = ""
            if prev:
                k = own if prev.get(own) else sorted(prev)[0]
                first = "%s: %s" % (k, prev[k][0][:150])
            print("%-10s %-16s %s" % (sid, tag, first))
    json.dump(results, open(results_path, "w", encoding="utf-8"), indent=1, ensure_ascii=False, sort_keys=True)


NEG = os.path.join(HERE, "refactorings")


def neg_ingest(src, rid):
    """Store a behaviour-preserving refactoring (negative control) after confirming the suite passes with it."""
    patch = os.path.join(src, "patch.diff")
    meta = json.load(open(os.path.join(src, "meta.json"), encoding="utf-8"))
    d = scratch()
    try:
        rc, out = apply(d, patch)
        if rc != 0:
            print(rid, "patch does not apply", out[-300:])
            return 1
        rc, p, f, out = cargo_test(d)
        ok = rc == 0 and f == 0 and p >= 43
        print(rid, "%d passed %d failed" % (p, f), "OK" if ok else "REJECTED")
        if not ok:
            return 1
    finally:
        shutil.rmtree(d, ignore_errors=True)
    dst = os.path.join(NEG, rid)
    os.makedirs(dst, exist_ok=True)
    shutil.copy(patch, os.path.join(dst, "patch.diff"))
    json.dump({"id": rid, "title": meta.get("title"), "kind": meta.get("kind"), "files_changed": meta.get("files_changed"),
               "why_behaviour_preserving": meta.get("why_behaviour_preserving"),
               "origin": "independent sub-agent asked for behaviour-preserving refactorings (negative controls)",
               "confirmed_by_me": "git apply patch.diff && cargo test --offline --workspace --no-fail-fast: %d passed, %d failed" % (p, f)},
              open(os.path.join(dst, "meta.json"), "w", encoding="utf-8"), indent=1, ensure_ascii=False)
    return 0


def neg_detect(ids):
    """Every check must stay silent on every stored refactoring."""
    all_ids = sorted(x for x in os.listdir(NEG) if os.path.exists(os.path.join(NEG, x, "patch.diff")))
    if ids:
        all_ids = [i for i in all_ids if i in ids]
    manifest = json.load(open(os.path.join(HERE, "MANIFEST.json")))
    props = [c["property_id"] for c in manifest["checks"]]
    results_path = os.path.join(NEG, "RESULTS.json")
    results = json.load(open(results_path)) if os.path.exists(results_path) else {}

    def one(rid):
        d = scratch()
        res = {}
        try:
            rc, out = apply(d, os.path.join(NEG, rid, "patch.diff"))
            if rc != 0:
                return rid, {"error": "does not apply"}
            env = dict(os.environ, VERIF_REPO=d, VERIF_EVID_DIR=os.path.join(d, ".evid"))
            facts = os.path.join(d, ".facts.json")
            rc, out = sh([sys.executable, os.path.join(HERE, "engine", "facts.py"), facts], cwd=HERE, env=env)
            if rc != 0 or not os.path.exists(facts):
                return rid, {"error": "factgen failed: " + out[-300:]}
            for p in props:
                rc, out = sh([os.path.join(HERE, "check"), p, "--facts", facts], cwd=HERE, env=env)
                if rc != 0:
                    fired = [ln.strip() for ln in out.splitlines() if "[VIOLATION]" in ln or "[UNDECIDABLE]" in ln or ln.startswith("ERROR")]
                    res[p] = [f[:300] for f in fired] or ["rc=%d %s" % (rc, out[-200:])]
        finally:
            shutil.rmtree(d, ignore_errors=True)
        return rid, res
    n_alarm = 0
    with ThreadPoolExecutor(max_workers=13) as ex:
        for rid, res in ex.map(one, all_ids):
            results[rid] = res
            if res:
                n_alarm += 1
                k = sorted(res)[0]
                print("%-8s FALSE-ALARM %s: %s" % (rid, ",".join(sorted(res)), (res[k][0] if isinstance(res[k], list) else res[k])[:220]))
            else:
                print("%-8s silent" % rid)
    json.dump(results, open(results_path, "w", encoding="utf-8"), indent=1, ensure_ascii=False, sort_keys=True)
    print("%d refactorings, %d raise an alarm" % (len(all_ids), n_alarm))


def recheck(prop, ids):
    """For the thorough tier: re-apply stored patches and run one property's check; prints `<id> caught|missed|stale`."""
    def one(sid):
        d = scratch()
        try:
            rc, out = apply(d, os.path.join(SEEDED, sid, "patch.diff"))
            if rc != 0:
                return sid, "stale", ""
            env = dict(os.environ, VERIF_REPO=d, VERIF_EVID_DIR=os.path.join(d, ".evid"))
            env.pop("VERIF_TIER", None)
            rc, out = sh([os.path.join(HERE, "check"), prop, "--tier", "quick"], cwd=HERE, env=env)
            fired = [ln.strip() for ln in out.splitlines() if "[VIOLATION]" in ln or "[UNDECIDABLE]" in ln]
            return sid, ("caught" if rc == 1 else "missed"), (fired[0][:160] if fired else "")
        finally:
            shutil.rmtree(d, ignore_errors=True)
    with ThreadPoolExecutor(max_workers=8) as ex:
        for sid, st, msg in ex.map(one, ids):
            print("%s %s %s" % (sid, st, msg))


def table():
    results = json.load(open(os.path.join(SEEDED, "RESULTS.json")))
    n = c = a = 0
    for sid in sorted(results):
        r = results[sid]
        n += 1
        c += r["caught_by_own_property"]
        a += r["caught_by_any"]
        print("%-8s %-8s %-7s %s" % (sid, r["property"], "caught" if r["caught_by_own_property"] else ("other" if r["caught_by_any"] else "MISSED"),
                                     (r["title"] or "")[:90]))
    print("%d seeded changes, %d caught by their own property's check, %d by any check" % (n, c, a))


def main():
    ap = argparse.ArgumentParser()
    sub = ap.add_subparsers(dest="cmd")
    a = sub.add_parser("ingest")
    a.add_argument("src")
    a.add_argument("sid")
    b = sub.add_parser("detect")
    b.add_argument("--ids")
    b.add_argument("--props")
    sub.add_parser("table")
    n1 = sub.add_parser("neg-ingest")
    n1.add_argument("src")
    n1.add_argument("rid")
    n2 = sub.add_parser("neg-detect")
    n2.add_argument("--ids")
    c = sub.add_parser("recheck")
    c.add_argument("--prop")
    c.add_argument("--ids")
    args = ap.parse_args()
    if args.cmd == "ingest":
        return ingest(args.src, args.sid)
    if args.cmd == "detect":
        return detect(set(args.ids.split(",")) if args.ids else None, args.props.split(",") if args.props else None)
    if args.cmd == "table":
        return table()
    if args.cmd == "neg-ingest":
        return neg_ingest(args.src, args.rid)
    if args.cmd == "neg-detect":
        return neg_detect(set(args.ids.split(",")) if args.ids else None)
    if args.cmd == "recheck":
        return recheck(args.prop, args.ids.split(","))
    ap.print_help()


if __name__ == "__main__":
    sys.exit(main() or 0)
