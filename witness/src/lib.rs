//! Type-level witnesses for riti (E4).  Nothing here is executed: every item is checked by the
//! compiler only (`cargo +nightly test --doc` compiles the doctests; the compile_fail ones must fail
//! with the named error code, their twins — differing only by the offending line — must compile).

use riti::config::Config;
use riti::context::RitiContext;
use riti::suggestion::Suggestion;

fn assert_send<T: Send>() {}
fn assert_static<T: 'static>() {}

// Positive witnesses: these items only type-check if the bounds hold.
const _: fn() = || {
    assert_static::<Suggestion>();
    assert_send::<Suggestion>();
    assert_static::<RitiContext>();
    assert_static::<Config>();
    assert_send::<Config>();
};

/// C05.R4 — a context has interior mutability without synchronisation, so it cannot be shared
/// between threads (and the library offers no other way for two contexts to share state).
///
/// ```compile_fail,E0277
/// fn assert_sync<T: Sync>() {}
/// assert_sync::<riti::context::RitiContext>(); // RefCell<Box<dyn Method>> is not Sync
/// ```
///
/// Twin that differs only by the bound and compiles:
///
/// ```no_run
/// fn assert_static<T: 'static>() {}
/// assert_static::<riti::context::RitiContext>();
/// ```
pub struct ContextIsNotSync;

/// C19.R4 — a suggestion owns its data: it can outlive (and be moved away from) the context it
/// came from.  This compiles only because `Suggestion` borrows nothing from the context.
///
/// ```no_run
/// fn keep<T: 'static + Send>(_: T) {}
/// fn f(ctx: riti::context::RitiContext) {
///     let s = ctx.backspace_event(false);
///     drop(ctx);
///     keep(s);
/// }
/// ```
///
/// Negative twin: a value that does borrow from a local cannot be kept — shows the bound bites.
///
/// ```compile_fail,E0597
/// fn keep<T: 'static + Send>(_: T) {}
/// fn f() {
///     let owner = String::from("x");
///     let borrowed: &str = &owner;
///     keep(borrowed);
/// }
/// ```
pub struct SuggestionOwnsItsData;
