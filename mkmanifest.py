#!/usr/bin/env python3
"""Generates MANIFEST.json from the per-property table below; a property is claimed
only when its rule module exists under rules/."""
import json
import os

HERE = os.path.dirname(os.path.abspath(__file__))

P = {
 "C01": dict(
  text="Static may-panic analysis over the call graph reachable from every context entry point: each panic site (MIR Assert, "
       "call of a panicking std function, explicit panic, dependency precondition) is an obligation that must be discharged by a "
       "named rule re-verified on the current MIR; plus totality of the key→character table on the key set published in riti.h, "
       "ASCII-ness of typed text, bounded loops/recursion. Decides the absence of riti-made panic sites on every path; does not "
       "decide time blow-up inside regex/edit-distance or panics inside dependencies on in-contract inputs.",
  note="Trusted: rustc front end/MIR construction (nightly), dependency contracts of DESIGN §8 (okkhor total on ASCII, regex, serde_json, "
       "emojicon total), assumption A-mem (no in-memory string/list longer than 2^60). Discharge rules are pattern rules: what they cannot "
       "discharge is reported even if a deeper argument would show it safe.",
  technique="call-graph reachability + panic-site obligations with discharge rules over MIR; decision-table extraction; affine index evaluation",
  ref="§4 C01, §3 A1–A3, A6, Appendix A"),
 "C02": dict(
  text="Provenance/taint rule on every store into the list suggestion's selection field (bounded by the list or constant), "
       "provenance of the auxiliary text (clone of the composition buffer), lower bound ≥1 on the list length at every list constructor, "
       "and the read-out decision table. Decides the structural necessary conditions of self-consistency; the genuine unbounded store on "
       "punctuation keys is a recorded known finding.",
  note="Trusted: rustc MIR; std Vec/String semantics as summarised in the rule (push +1, clear 0, truncate min). ANSI read-out totality depends on the third-party encoder (C16).",
  technique="provenance (taint) dataflow + length lower-bound dataflow over MIR; decision table",
  ref="§4 C02"),
 "C03": dict(
  text="Plumbing of the single-string path (split with colon flag false → phonetic parser on each part → ordered concatenation), presence of the "
       "same transliteration among the candidates on every path, key→ASCII table against a name-derived oracle and the sibling layout table, "
       "punctuation-set contents. Decides the shape; not okkhor's conversion nor the splitter's value-level boundaries.",
  note="Trusted: okkhor's parser equals Avro (third party); rustc MIR. The US-keyboard name→ASCII oracle is transcribed independently in the checker.",
  technique="provenance dataflow over MIR + decision-table agreement with an independent name→ASCII oracle",
  ref="§4 C03"),
 "C04": dict(
  text="The key→layout-entry match is extracted from MIR as a decision table covering all 65 536 key codes (arms + default) and compared three ways "
       "(riti.h constant names, bundled layout entry names, header values); plane selection is shown to depend on the AltGr bit only, the numpad "
       "gate and empty-value filter are summarised as truth tables, and the no-value path is shown to write nothing (frame rule). Nearly the "
       "whole property is table-shaped, so nearly all of it is decided.",
  note="Trusted: serde_json parsing and HashMap lookup; rustc MIR. Rules do not depend on the layout file's contents except the entry-name bijection with the bundled Probhat.json.",
  technique="decision-table extraction from MIR + 3-way table agreement + truth tables + frame rule (who-may-write)",
  ref="§4 C04"),
 "C06": dict(
  text="Per-path abstract interpretation ({Empty, MaybeNonEmpty} per field of the method struct, refined on is_empty/is_some branch edges) "
       "of every acyclic MIR path of commit, finish and back-space in both methods: every terminating exit must leave every composition field "
       "empty; the session flag is extracted as a truth table over the session-defining fields; idle back-space must be inert and every other "
       "back-space must shrink the session state; every non-terminating exit of key / back-space / update keeps the invariant "
       "(session flag true) ∨ (every composition field empty), and hands out a non-empty suggestion only with the flag provably true; a back-space "
       "that keeps the session returns something that cannot be empty (lists: C02.R3; single strings: non-empty text, okkhor's erasing patterns from "
       "its pinned source); every back-space path feasible with ctrl held ends the word. Decides the 'erases every trace' and 'flag tells the truth' "
       "clauses structurally; the differential 'behaves like new' clause only as far as 'all composition fields are empty'.",
  note="Trusted: rustc MIR; std String/Vec/Option method semantics as classified in the rule (clear/take empty, push grows, pop shrinks). "
       "Non-composition state that legitimately survives (memo, learned selections) is C05/C09's subject.",
  technique="path-sensitive field-state dataflow over MIR (Empty / NonEmpty / unknown, session-flag edges) + invariant preservation per exit + truth-table extraction",
  ref="§4 C06, §3 A8"),
 "C16": dict(
  text="Truth table of the English-option getter; dominance with polarity of every emoji / raw-text push by the ANSI or masked-English guard "
       "(through closures); provenance of the ANSI argument at all six Suggestion constructor sites; path-sensitive decision table of the read-out; "
       "table agreement between the pinned encoder's vowel-sign coverage and what riti's bundled layout/data can emit (U+09C4 is a recorded finding).",
  note="Trusted: poriborton's output correctness (third party) — only its domain (uncovered signs) is checked, by reading its pinned source; rustc MIR.",
  technique="dominance/guard analysis with polarity + provenance + decision tables over MIR; dependency table agreement",
  ref="§4 C16"),
 "C17": dict(
  text="Structure of the quoter on MIR: its only bypass decision is an empty word, it writes only the two wrapping parts (who-may-write on the "
       "split value), and its two per-character switch tables map ' and \" to the opening/closing curly quotes and nothing else; in both "
       "list builders the quoter call is guarded by exactly the smart-quote option, the option test is on every path, the result is stored "
       "back, and every consumer of the split value (candidate wrapping, emoji closures, selection look-up) is dominated by the option test; "
       "raw typed-text candidates have no provenance through it. Decides the 'exactly one way' structure; not the list equality for all inputs.",
  note="Trusted: rustc MIR; the splitter's value-level behaviour (which characters end up in the wrapping parts) is not decided here.",
  technique="decision-structure extraction + who-may-write frame rule + dominance ordering of guard/consumers over MIR",
  ref="§4 C17"),
 "C07": dict(
  text="The hand-written comparator is extracted from MIR as a 4×4 decision table (constant orderings or u8 comparisons with recorded operand "
       "order) and checked against the stated class order, ascending numbers and antisymmetry; the extracted table is evaluated exhaustively "
       "over the finite reachable rank set for being a total pre-order. Provenance identifies the source of every pushed candidate "
       "(auto-correct with user-before-bundled, dictionary, transliteration, emoticon literal, English, emoji) and the rank constructor it "
       "uses; dominance orders the sort against pushes, selection look-up and the returned copy; duplicate suppression is checked on the "
       "stated sources. Decides the ordering *scheme*; not the edit distances themselves.",
  note="Trusted: edit_distance crate; rustc MIR; assumption that distance×10 < 256 (longest dictionary word 23 code points). The pre-order "
       "check is an evaluation of the extracted table, not of the program.",
  technique="decision-table extraction + finite order-theory check of the extracted table + provenance/constructor rule + dominance ordering",
  ref="§4 C07"),
 "C18": dict(
  text="Provenance of the look-up arguments (whole typed text for emoticons, word part for names), dominance order of the two look-ups, "
       "unconditional push in the emoticon arm and the kept literal in phonetic mode, structural summary of the name arm's iterator chain "
       "and mapping closure with captured variables substituted (all entries, in order, ranks from 1, wrapped with the parts of the same "
       "split value as the word), emoji only through the Emoji rank, stable sort wherever the extracted comparator leaves emoji equal, "
       "table agreement of the fixed-mode cap with the longest Bengali list (recorded finding), accessor plumbing, no shrinking in the "
       "phonetic builder. Decides the per-table-shape clauses for every table entry at once; not the per-emoticon splitter outcome.",
  note="Trusted: emojicon's tables (read from the pinned source for the cap rule); rustc MIR; the splitter's value-level behaviour.",
  technique="provenance + dominance/guard analysis + iterator-chain shape rule + comparator-table × sort-callee rule + dependency table agreement",
  ref="§4 C18"),
 "C09": dict(
  text="Dominance with polarity of the learned map's insert and of the file write by `preselected ≠ committed index ∧ suggestions on`, "
       "who-may-write on the map during commit, must-assign of the comparison field next to every list constructor (so the comparison never uses a "
       "stale index), agreement of path getter and (de)serialised type between the constructor's reader and the commit's writer, a truncating "
       "write, the constants and sources of the two split calls (key: buffer/false, value: committed list entry/true) and of the look-up, the "
       "look-up order, and set inclusion between the characters the wrapping stage can add (quoter constants from MIR, okkhor's punctuation images "
       "from its pinned source) and the splitter's punctuation set; a loop-carried-string analysis shows that the text looked up for a suffixed "
       "word is the join of one base with one suffix, and a reachability rule that no wrapping punctuation reaches a value the look-up memoises in "
       "the learned map. Decides the structural necessary conditions of the round trip.",
  note="Trusted: serde_json round-trips a string map; std::fs::write truncates; rustc MIR. The `,,` joiner image is a recorded known finding. "
       "Atomicity of the save across crash points is not decided (C10 decides load tolerance).",
  technique="dominance/guard analysis + who-may-write + writer/reader agreement + constant/provenance rule + alphabet set inclusion",
  ref="§4 C09"),
 "C10": dict(
  text="May-reach taint on MIR over the code reachable from the phonetic constructor, reload, commit and the key/back-space events: results of "
       "file I/O and JSON (de)serialisation must not reach the unwrap/expect family or a panicking match arm; bytes read from a user file must "
       "not be indexed/sliced without a dominating length test; strings that come out of the learned store, the user auto-correct map or the "
       "memo must not be assumed non-empty or byte-sliced, and reach okkhor's ASCII-only parser only behind an is_ascii filter; the save's "
       "result guards no state change and the in-memory insert precedes it. This decides tolerance to *every* file content, crash-point prefix "
       "and directory state at once, because it is a statement about what may flow into a panic at all.",
  note="Trusted: serde_json and std::fs return Err instead of panicking on malformed input; okkhor is total on ASCII (DESIGN §8); bundled data files "
       "(Data::new) are out of this property's scope. Unknown callees propagate taint and do not sanitise.",
  technique="I/O-taint → panic-sink dataflow over MIR (interprocedural through closures), guard dominance, provenance of user-map strings",
  ref="§4 C10"),
 "C11": dict(
  text="Must-pass-through and guard polarity on RitiContext::update_engine (layout changed ⇒ the method object is replaced by the very constructor "
       "creation uses; otherwise the method is refreshed; the new configuration is stored on every path); the layout comparison is shown to be "
       "on the complete stored layout value; call-graph reachability shows that no object built at creation and kept across update-engine reads an "
       "option getter, and no option value is stored in a method struct; the fields read while a memo entry is computed are discovered from the "
       "code and every later reassignment of one must be accompanied by a full HashMap::clear of the memo on the same path; every event passes "
       "the context's own config; the stored modification time (the reload gate) advances only on paths that also replace the auto-correct map. "
       "Decides the structural preconditions of 'equals re-creating'; not full behavioural equivalence.",
  note="Trusted: rustc MIR and trait resolution. Learned selections are not re-read on update and a deleted (rather than edited) auto-correct file is "
       "not noticed — outside the decided clauses.",
  technique="must-pass-through/dominance + call-graph reachability to option getters + derived-data invalidation rule (discovered dependency)",
  ref="§4 C11"),
 "C05": dict(
  text="The structural facts a short written lemma needs: who-may-write on the memo over the event-reachable code (only the fill's insert; no "
       "clear/remove/eviction), provenance of every memo key (the word of the current split or a slice of it; probe key = insert key = the value the "
       "entry is computed from), the set of fields read inside the fill region (parsers, user auto-correct, letter table, scratch written before "
       "read), the scratch list cleared before any push, the composition buffer written only by push/pop/clear with the suggestion builder "
       "post-dominating every push, absence of statics / thread-locals / Rc / Arc / raw pointers outside the C shim, and no hash-order-dependent "
       "call on the event path. With the lemma (every prefix of the surviving text was the composition once) these give history independence; "
       "the check decides the facts, not the behaviour.",
  note="Trusted: rustc MIR; okkhor's convert*_into clears its output first (DESIGN §8); the lemma itself is a paper argument. The learned-selection map "
       "is also mutated as a cache by the look-up — transparent only by a value-level argument, not decided.",
  technique="who-may-write / mod-ref analysis + provenance of keys + must-pass-through + type walk for shared state + call scan",
  ref="§4 C05"),
 "C08": dict(
  text="The join between a base candidate and a suffix form is located by role in both sibling functions, every MIR path through it is summarised as "
       "(conditions, effects) and turned into a 12-row decision table over (last character ∈ {ৎ, ং, other}, is-vowel, first-is-sign), which is "
       "compared with an independent transcription of the three stated joining rules and with the sibling's table; slice bounds of suffix key and "
       "base key are evaluated as affine forms over word length and loop variable to show that split points partition the word, each tried once, for "
       "every word longer than two characters; a loop-shape rule shows every base entry reaches the push (only empty strings are skipped) and loops "
       "end only by exhaustion; the 26-row letter map names only tables present in dictionary.json; the vowel / vowel-sign classes are read as sets "
       "from their predicates' MIR and compared with Unicode. Decides joining and completeness structure; not regex justification.",
  note="Trusted: okkhor's regex patterns and the regex crate (which dictionary words match) are third-party value-level behaviour; memo contents are C05's lemma.",
  technique="sibling cross-check of extracted decision tables + affine index evaluation + loop-shape rule + data/table agreement",
  ref="§4 C08"),
 "C13": dict(
  text="Panic-site census of the three reph functions (every MIR Assert and every call of a panicking std function is an obligation) with "
       "specialised discharge rules re-verified on the MIR: loop counter from 0 incremented by 1 inside a loop over an in-memory iterator; "
       "`len − step` with len = chars().count() of the unmodified buffer and step incremented at most once per iteration of a loop over the same "
       "buffer; the suffix-bytes idiom of the internal back-space (truncate(len() − Σ len_utf8 over chars().rev().take(n))). Value-identity "
       "dataflow shows the tail saved (skip(len − step)) and the tail removed (back-space(step)) use the same step on the same text with no write "
       "in between, followed by exactly push(র), push(্), push_str(tail); the not-moveable branch appends exactly র্; the routine is gated by "
       "exactly value == \"র্\" ∧ option and the processor returns right after; every character class the mobility test accepts is a subset of "
       "the characters the scan classifies (sets evaluated from the predicates' MIR) — a necessary condition of the placement clause. Decides "
       "'loses nothing' and 'never crashes'; of 'where the reph lands' only that necessary condition.",
  note="Trusted: rustc MIR; std String/Chars semantics as summarised. The placement clause (right-to-left scan with four flags) is value-level and is "
       "declined; the two misplacements the property text mentions are outside static reach.",
  technique="panic-site obligations with pattern discharge rules + value-identity dataflow + ordered who-may-write + guard dominance",
  ref="§4 C13, §3 A2/A3"),
 "C12": dict(
  text="Every acyclic MIR path of the key-value processor is summarised symbolically as (predicates over the entry state from a closed, recognised "
       "vocabulary; ordered effects on the composed text). Infeasible paths (contradictory pure predicates) are discarded; on every remaining path "
       "that does not take the old vowel-sign order option, an independent transcription of the documented rule list is evaluated in three-valued "
       "logic over the path's predicates and its expected effect sequence is compared with the extracted one — so the priority chain, each rule's "
       "effect, both ten-row vowel tables (against Unicode's sign↔vowel pairing) and all rule interactions are decided for every path at once, "
       "with nothing executed. Plus: the character classes read as sets from their predicates' MIR against Unicode-derived bounds, joiner constants, "
       "plain back-space = one pop on text and raw keys, and the pending-sign machinery untouched when the option is off.",
  note="Trusted: rustc MIR; std String push/pop semantics. Unrecognised predicates fail closed (undecidable). Key values of several code points "
       "that start with a vowel sign are treated by their first character, as the rules are stated for a typed vowel sign.",
  technique="symbolic path summaries (predicate vocabulary + effect sequences) checked against a three-valued evaluation of an independent rule list; finite evaluation of class predicates",
  ref="§4 C12 (deepened: rule-table equivalence instead of dominance order only)"),
 "C14": dict(
  text="On the same symbolic path summaries as C12, restricted to feasible paths that take the old vowel-sign order option: every assignment of a "
       "pending sign is under the option; the capture maps (from the key, from the popped character) and the restore maps (as sign, as independent "
       "vowel) are extracted from the paths' (condition, effect) pairs and must be ি↔I, ে↔E, ৈ↔OI consistently; the three fusion leaves (ে+া→ো, "
       "ে+ৌ/ৗ→ৌ); a frame rule: on option-on paths where none of the feature's situations applies (capture, fusion, pending sign present, hasanta/fola "
       "after a left-standing sign) the effects must equal the option-off rule list; the pending sign is read only by processor / session flag / "
       "back-space / resets (never rendered), is tested by the session flag, and every back-space path with a pending sign discards it without "
       "popping the text; and (R7) every one of the ~400 feasible option-on paths is compared, effect list by effect list, with a three-valued "
       "evaluation of an independent transcription of the whole old-order rule list (capture, fusion, re-attach before/after a conjunct, hasanta / "
       "fola slipping under a placed sign, fall-through to the ordinary rules), unknown conditions failing closed. Decides the state machine's "
       "per-key structure; not the multi-key equivalence with Unicode-order typing.",
  note="Trusted: rustc MIR. The for-all-words equivalence of the composed text is a statement about sequences of keys and is declined.",
  technique="symbolic path summaries checked against a three-valued evaluation of an independent rule list (option-on fragment); map extraction; who-reads analysis; field-state paths of back-space",
  ref="§4 C14"),
 "C15": dict(
  text="In the fixed list builder: the composed word (word() of the split composition buffer) is pushed first-ranked unconditionally right after the "
       "clear and before every other push, and is the distance base handed to the search; a [lo,hi] length dataflow with callee summaries bounds "
       "the list by nine at the constructor on every path; the English tail is last-ranked, guarded by exactly option ∧ text ≠ raw keys, after sort "
       "and truncation; the first-letter decision table extracted from MIR agrees with dictionary.json in both directions (57 letters / 47 tables); "
       "the search pattern is reassembled from the compiled format template (^ cleaned word, one Bengali character class, {0,n} with constant n, $), "
       "and the cleaning closure is evaluated as a set that must cover every regex meta-character and U+200C while keeping Bengali letters; the "
       "builder post-dominates the key-value processor in the key event; the distance step is ≤ 10. Decides the prefix-completion structure.",
  note="Trusted: regex crate semantics, edit_distance; rustc MIR. Which words match, consecutive-only dedup versus 'none repeats' and tie order are value-level and declined.",
  technique="provenance/dominance + length-bound dataflow + two-way data/table agreement + format-template reassembly + finite evaluation of the cleaning predicate",
  ref="§4 C15"),
 "C19": dict(
  text="Signature agreement between the 33 #[no_mangle] extern C items and riti.h's prototypes (name, arity, every type under the cbindgen mapping) "
       "and all published constants; an ownership/escape rule on the wrappers' MIR: functions returning a handle return Box::into_raw of a fresh "
       "box, exactly the three free functions hand their parameter to the one helper that calls Box::from_raw under a null check, no other export "
       "can reach from_raw / drop_in_place / ptr::read, a raw handle parameter is only null-tested or re-borrowed after the null assert; a pairing "
       "table keyed by the public C symbols: each wrapper's resolved local callees must be exactly its paired Rust method, applied to its own handle "
       "with its own parameters in order and under no extra condition; string accessors return CString::from_vec_unchecked(owned copy of that "
       "value).into_raw(); riti_string_free reclaims under exactly the null test; every Config setter writes the field its getter reads; Suggestion's "
       "fields are owned types; unsafe operations are in ffi.rs and within the enumerated set; no NUL in riti's own alphabet. Decides the ownership "
       "*discipline*; not the absence of leaks over all call sequences.",
  note="Trusted: rustc MIR; std Box/CString ownership semantics; cbindgen's type mapping as transcribed. A memory-error detector over call sequences is a "
       "different technique family and is deliberately not used; aliasing of the `&mut *ptr` in update-engine is not decided.",
  technique="signature/table agreement + ownership/escape rule + frozen pairing table over resolved callees + unsafe census",
  ref="§4 C19"),
}

# rules added after the first catalogue (each is a structural necessary condition; see DESIGN.md Part II for the change that prompted it)
EXTRA = {
 "C05": " Every suggestion a key or back-space event returns comes from a Suggestion constructor run on that event's path (never replayed from a field), and its list is the one built on that path.",
 "C16": " A switch kept as a private two-variant enum is accepted when getter ∘ setter is the identity on {false, true}.",
 "C01": " An unwrap of Regex::new on the pattern built for the typed word is never discharged (valid syntax, unbounded compiled size). A borrow-guard liveness rule on the context's RefCell: while a Ref/RefMut is alive no call may reach a second borrow of the cell (directly or through another context method). The same holds for the fixed method's search pattern (well-formed is not bounded).",
 "C03": " The single characters the splitter tests (besides its punctuation set) contain no letter, digit or Bengali sign. In the list builder the wrapping parts are the phonetic parser's conversion of the split's own parts on every path of the mapping closure.",
 "C04": " With every composition helper off, every path of the key-value processor appends the whole value; the number-pad option is a plain stored value "
        "(getter = field, one pass-through setter, C setter passes the value); the key map stored in the layout object is the deserialised file, never mutably borrowed "
        "between load and store; the layout look-up is on every path of the key event (or skipped only by a key-code predicate that holds for every mapped key) and every value it yields is handed to the key-value processor (post-dominance). A keypad look-up that takes no switch is accepted when the table function itself reaches it only with the keypad option on and answers nothing with it off, for every keypad key.",
 "C06": " Every context entry point performs exactly one virtual call of its trait method on every path, passes its parameters through and returns the call's own result.",
 "C07": " The auto-correct, dictionary and suffix tables stored by Data's constructor are the deserialised bundled files, unmodified, and every Data accessor that reads a table is a pure look-up of its own argument; where the user's entry is absent or rejected the bundled table is consulted; the raw English candidate is pushed unchecked (recorded known finding). The auto-correct candidate is the parser's conversion of the table's entry on every path, and the user table and the bundled table are each asked once for the typed word itself; the emoticon's literal text, like the English candidate, is pushed unchecked (known findings). A comparator written over key functions combined with then_with is read with those spliced in and then_with written out.",
 "C09": " Only commit writes the learned map on the event path; the candidate compared by the look-up is built from the parts the commit will see. The save stands under the same two conditions as the insert and nothing else.",
 "C10": " After the in-memory insert the save is attempted under no condition other than the serialisation's outcome, and the write's outcome is not kept in the method's state; "
        "a user auto-correct value reaches the parser only if ASCII and NUL-free.",
 "C11": " The reload gate compares the stored modification time for inequality and a removed file empties the user map. When the file cannot be opened the map is kept only on paths that tested the remembered state's own discriminant with the outcome 'nothing loaded' (no sentinel time value). A changed file (it opens, its time differs) replaces the map on every path, also when it does not parse; the remembered file state may be a private enum whose field-less variants mean 'nothing loaded'. A replace-and-compare store on its equal side is not an advance of the remembered state; the method factory may select by the variant of a two-variant layout-kind enum.",
 "C12": " Vowel signs are a subset of vowels (class rule); a sign→vowel table written as a function (constant array searched, match returning Some) is read as a finite map; "
        "every option the processor consults is a plain stored value. Class oracles are the complete Unicode sets (Sanskrit vowels and signs included); a row of the sign→vowel tables is demanded for every sign the vowel-sign predicate accepts; the punctuation set contains the apostrophe and the Dari marks and only punctuation. The punctuation set holds every ASCII punctuation character and the two Dari marks.",
 "C13": " Frame rule: nothing else writes the text in the reph routine except a character popped and pushed back under the same condition on every path; the `split_off` form of taking the tail is recognised. The mobility test's classes cover every consonant, independent vowel and vowel sign; the old-reph option is a plain stored value. The mobility test is read as a decision table over the classes of the last three characters (consonant, independent vowel, vowel sign, chandrabindu, other, none) and agrees with the statement on every well-formed ending.",
 "C14": " The option itself (and every option consulted with it on) is a plain stored value; the context's session query, key and back-space entry points (and the exported "
        "session query) delegate to the method object and return its answer; every value the layout look-up yields reaches the key-value processor; a zo-fola under a left-standing sign tests the consonant under the sign for the joiner.",
 "C15": " Nothing of the Bengali block is in the splitter's special characters (the searched word is the typed word minus punctuation); the search never takes a mutable "
        "reference to a ranked candidate (what is shown is what was measured); the same cleaning written as a filter loop is recognised and evaluated as a set. The cleaning filter removes punctuation and the non-joiner only (letters, signs, digits and U+200D stay).",
 "C17": " One split value per builder: no stage of a list builder builds candidates from a second split of the text (counted per call, so independent of how the builder is cut into functions). Raw typed-text candidates are added by a plain push, never through the duplicate-dropping helper; the smart-quote option is a plain stored value. No string-level edit (replace / trim / case / insert / remove) besides the two per-character maps; characters the quoter adds through string-level calls count as its outputs. The two character maps may be made by one private helper called once per part (a loop of pushes or chars().map().collect(), no iterator adaptor in between), handed over directly or through the split value's rebuilding method, whose own body is checked to store the callback's pair as the two wrapping parts and nothing else. A helper that pushes f(ch) for a character function handed in is read through that function.",
 "C18": " The joiners of traditional joining are stripped from the name handed to the emoji look-up; one split value per builder (emoji are wrapped with the parts of the converted / curled split value). The split value whose parts wrap the emoji is the one handed to the stage that builds the word candidates; every emoji name of the bundled tables is its own word part under the splitter's punctuation set (five names are not: known findings). Nothing but the ANSI guard and the failed emoticon look-up decides whether a word is looked up as an emoji name.",
 "C19": " User auto-correct values containing NUL never reach a candidate (no interior NUL in returned C strings).",
}

NA_REASON = "rule module missing"


def main():
    props = [json.loads(l) for l in open(os.path.join(HERE, "properties.jsonl"), encoding="utf-8")]
    checks = []
    na = []
    for p in props:
        pid = p["id"]
        if pid in P and os.path.exists(os.path.join(HERE, "rules", pid.lower() + ".py")):
            d = P[pid]
            checks.append({
                "property_id": pid,
                "quick_cmd": "./check %s --tier quick" % pid,
                "thorough_cmd": "./check %s --tier thorough" % pid,
                "evidence_file": "/verif/evidence/%s.json" % pid,
                "replay_cmd_template": "./check %s --replay {path}" % pid,
                "engine": "factgen+rules",
                "level_claimed": {"category": "other", "text": d["text"] + EXTRA.get(pid, ""), "design_ref": d["ref"]},
                "level_note": d["note"],
                "technique": d["technique"],
            })
        else:
            na.append({"property_id": pid, "reason": P.get(pid, {}).get("na", NA_REASON)})
    man = {
        "version": 1,
        "setup_cmd": "cd /verif && ./setup.sh",
        "hooks": {
            "guard": "openbangla_riti_verif",
            "enable": "none needed: the rustc_private driver sees private items; no instrumentation is compiled into riti",
            "baseline_off_cmd": "cd /repo && cargo test --workspace --no-fail-fast --offline",
            "source_commits": [],
            "add_only": True,
        },
        "engines": [
            {"name": "factgen", "path": "/verif/factgen", "serves_properties": [c["property_id"] for c in checks],
             "kind_free_text": "rustc_private driver (nightly) injected as RUSTC_WORKSPACE_WRAPPER into `cargo +nightly check` of /repo; dumps type-checked MIR (opt-level 0), evaluated constants, ADTs, impls, unsafe blocks as JSON. Nothing of riti is executed."},
            {"name": "rules", "path": "/verif/engine + /verif/rules", "serves_properties": [c["property_id"] for c in checks],
             "kind_free_text": "Python static-analysis engine over the MIR facts: CFG/dominators with split switch edges, path-sensitive expression resolution, provenance, guards with polarity, decision/truth-table extraction, who-may-write, per-property rule catalogue with floors and fail-closed anchors."},
            {"name": "selftest", "path": "/verif/selftest.py + /verif/variants.json + /verif/seeded", "serves_properties": [c["property_id"] for c in checks],
             "kind_free_text": "checker validation: seeded variants applied to a scratch copy must make the named rule fire; negative controls must stay silent"},
        ],
        "checks": checks,
        "not_applicable": na,
        "notes": "When (and only when) the plain analysis of a property reports something, the rules are run a second time on the staged view of the program (small loop-free private functions with one call site spliced into that call site — behaviour-preserving by construction); that verdict is adopted only if every rule holds there, and the evidence records it. Technique family: static analysis only. Every check re-analyses /repo's current working tree (cargo +nightly check through the factgen wrapper; fresh nonce per run). "
                 "Level 'other' = static rule discharge; each evidence file lists rules, instances, floors, assumptions and the clauses NOT decided. "
                 "Known findings: /verif/known_findings.json.",
    }
    with open(os.path.join(HERE, "MANIFEST.json"), "w", encoding="utf-8") as f:
        json.dump(man, f, indent=1, ensure_ascii=False)
    print("claimed:", [c["property_id"] for c in checks], "not_applicable:", len(na))


if __name__ == "__main__":
    main()
