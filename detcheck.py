#!/usr/bin/env python3
"""Checker hygiene: every check must give the same instances and verdicts under different Python hash seeds
(set / dict iteration order must not matter).  usage: detcheck.py [--facts f] [--repo dir] [--seeds 0,1,2,3] [props...]"""
import argparse, json, os, subprocess, sys, tempfile, shutil
HERE = os.path.dirname(os.path.abspath(__file__))

def run(prop, seed, facts, repo):
    d = tempfile.mkdtemp(prefix="detchk-")
    try:
        env = dict(os.environ, PYTHONHASHSEED=str(seed), VERIF_EVID_DIR=d, VERIF_NO_REEXEC="1")
        if repo:
            env["VERIF_REPO"] = repo
        cmd = [os.path.join(HERE, "check"), prop] + (["--facts", facts] if facts else [])
        r = subprocess.run(cmd, env=env, stdout=subprocess.PIPE, stderr=subprocess.STDOUT, text=True)
        ev = json.load(open(os.path.join(d, prop + ".json"), encoding="utf-8"))
        sig = []
        for rule in ev["coverage"]["rules"]:
            sig.append((rule["rule"], rule["instances"], rule["holds"], rule["violations"], rule["undecidable"], tuple(sorted(rule.get("instance_keys") or []))))
        return r.returncode, sig
    finally:
        shutil.rmtree(d, ignore_errors=True)

def main():
    ap = argparse.ArgumentParser()
    ap.add_argument("props", nargs="*")
    ap.add_argument("--facts")
    ap.add_argument("--repo")
    ap.add_argument("--seeds", default="0,1,2,3,4,5")
    a = ap.parse_args()
    props = a.props or ["C%02d" % i for i in range(1, 20)]
    bad = 0
    for p in props:
        base = None
        for s in a.seeds.split(","):
            got = run(p, s, a.facts, a.repo)
            if base is None:
                base = got
            elif got != base:
                bad += 1
                print("%s: seed %s differs from seed %s" % (p, s, a.seeds.split(",")[0]))
                for x, y in zip(base[1], got[1]):
                    if x != y:
                        print("   ", x[:5], "vs", y[:5], sorted(set(x[5]) ^ set(y[5]))[:6])
                break
        else:
            print("%s deterministic over seeds %s (rc=%d)" % (p, a.seeds, base[0]))
    return 1 if bad else 0

if __name__ == "__main__":
    sys.exit(main())
