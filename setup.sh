#!/bin/sh
# Builds the fact extractor and warms the dependency cache (offline).
set -e
cd "$(dirname "$0")"
export CARGO_NET_OFFLINE=true
(cd factgen && cargo build --offline 2>&1 | tail -3)
python3 engine/facts.py >/dev/null
echo "setup ok"
