#!/usr/bin/env python3
"""Validates MANIFEST.json and all evidence files against the given schemas (uses the tooling venv's jsonschema)."""
import json, sys, os
import jsonschema
m = json.load(open('/verif/MANIFEST.json'))
jsonschema.validate(m, json.load(open('/root/.vp/MANIFEST.schema.json')))
es = json.load(open('/root/.vp/EVIDENCE.schema.json'))
bad = 0
for c in m['checks']:
    p = c['evidence_file']
    if not os.path.exists(p):
        print(c['property_id'], 'MISSING evidence'); bad += 1; continue
    e = json.load(open(p))
    try:
        jsonschema.validate(e, es)
        print(c['property_id'], 'ok', 'tier=%s obligations=%s discharged=%s violations=%s' % (e['tier'], e['coverage'].get('obligations'), e['coverage'].get('discharged'), e.get('violations')))
    except jsonschema.ValidationError as ex:
        print(c['property_id'], 'INVALID', ex.message[:200]); bad += 1
ids = {c['property_id'] for c in m['checks']} | {n['property_id'] for n in m.get('not_applicable', [])}
props = [json.loads(l)['id'] for l in open('/verif/properties.jsonl')]
missing = [p for p in props if p not in ids]
if missing:
    print('properties neither claimed nor not_applicable:', missing); bad += 1
sys.exit(1 if bad else 0)
