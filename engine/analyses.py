"""Shared analyses (DESIGN §3): decision tables (A7), format-string parts (A5),
path enumeration for small acyclic bodies, guards with polarity (A4),
who-may-write / mod-sets (A9)."""
import itertools
from collections import defaultdict

from .mir import E, Body, apath, strip_refs, callee_name, callee_path, is_const, const_val, self_path


# ---------------------------------------------------------------------------
# format!

def decode_template(bs):
    """rustc's compact format template: n<0x80 => literal of n bytes follows;
    0xC0 => next argument (default spec); 0 => end.  Returns list of ('lit', s)|('arg', i) or None."""
    parts = []
    i = 0
    argi = 0
    bs = bytes(bs)
    while i < len(bs):
        b = bs[i]
        if b == 0:
            return parts
        if b == 0xC0:
            parts.append(("arg", argi))
            argi += 1
            i += 1
        elif b == 0x80:
            n = bs[i + 1] | (bs[i + 2] << 8)          # long literal: u16 little-endian length
            lit = bs[i + 3:i + 3 + n]
            try:
                parts.append(("lit", lit.decode("utf-8")))
            except UnicodeDecodeError:
                return None
            i += 3 + n
        elif b < 0x80:
            lit = bs[i + 1:i + 1 + b]
            try:
                parts.append(("lit", lit.decode("utf-8")))
            except UnicodeDecodeError:
                return None
            i += 1 + b
        else:
            return None      # non-default format spec: not an idiom used in riti
    return parts


CURRENT_PROG = []       # the program under analysis (set by Program), for helpers that are looked through
_FMT_BUSY = set()


def format_parts(body, e):
    """e: E for a String produced by format!().  Returns [('lit', s)|('val', E)] or None."""
    e = strip_refs(e)
    # must_use(format(Arguments::new(template, &[Argument::new_display(&v)...])))
    while e.k == "call" and len(e.a[1]) >= 1 and (e.a[0].endswith("hint::must_use") or e.a[0].endswith("fmt::format") or
                                                   (len(e.a[1]) == 1 and any(e.a[0].endswith(s_) for s_ in ("::deref", "::as_str", "::clone", "::as_ref", "::borrow")))):
        e = strip_refs(e.a[1][0])
    if e.k != "call":
        return None
    name = e.a[0]
    # a private formatter (`fn wrap(split: &Split, item: impl AsRef<str>) -> String { format!("{}{}{}", split.a(), item.as_ref(), split.b()) }`):
    # the parts of its own return value with its parameters replaced by the arguments of this call
    prog = CURRENT_PROG[0] if CURRENT_PROG else None
    if prog is not None and name in prog.fns and prog.fns[name].get("kind") != "Closure" and name not in _FMT_BUSY \
            and prog.fns[name].get("output") == "std::string::String" and len(prog.fns[name]["mir"]["blocks"]) <= 40:
        _FMT_BUSY.add(name)
        try:
            gb = prog.body(name)
            inner = format_parts(gb, gb.expr_local(0)) if not gb.loops() else None
        except Exception:
            inner = None
        finally:
            _FMT_BUSY.discard(name)
        if inner is None:
            return None
        args = e.a[1]

        def sub(x):
            if x.k == "arg" and 1 <= x.a[0] <= len(args):
                return args[x.a[0] - 1]
            return None
        return [(k_, (v_.rebuild(sub) if k_ == "val" else v_)) for (k_, v_) in inner]
    # the same concatenation spelled `[a, b, c].concat()`
    if name.endswith("::concat") and len(e.a[1]) == 1:
        arr = strip_refs(e.a[1][0])
        while arr.k == "cast":
            arr = strip_refs(arr.a[1])
        if arr.k == "agg" and arr.a[0] == "array":
            out = []
            for x in arr.a[1]:
                xs = strip_refs(x)
                if is_const(xs, "str"):
                    out.append(("lit", const_val(xs)))
                else:
                    out.append(("val", strip_refs_keep(x)))
            return out
        return None
    if name.endswith("Arguments::<'a>::from_str") or name.endswith("Arguments::<'_>::from_str"):
        s = strip_refs(e.a[1][0])
        if is_const(s, "str"):
            return [("lit", const_val(s))]
        return None
    if "fmt::Arguments" not in name or not name.endswith("::new"):
        return None
    tmpl = strip_refs(e.a[1][0])
    if not is_const(tmpl, "bytes"):
        return None
    parts = decode_template(const_val(tmpl))
    if parts is None:
        return None
    arr = strip_refs(e.a[1][1])
    if arr.k == "local":
        return None
    if arr.k != "agg":
        return None
    vals = []
    for a in arr.a[1]:
        a = strip_refs(a)
        if a.k == "call" and "Argument" in a.a[0] and "new_display" in a.a[0]:
            vals.append(strip_refs_keep(a.a[1][0]))
        else:
            return None
    out = []
    for kind, v in parts:
        if kind == "lit":
            out.append(("lit", v))
        else:
            if v >= len(vals):
                return None
            out.append(("val", vals[v]))
    return merge_literal_parts(out)


def merge_literal_parts(parts):
    """A constant string interpolated into a template is part of the literal text: fold it and merge neighbouring literals."""
    out = []
    for kind, v in parts:
        if kind == "val":
            c = strip_refs(v)
            while c.k == "call" and len(c.a[1]) == 1 and any(c.a[0].endswith(s_) for s_ in ("::deref", "::as_str", "::as_ref", "::borrow")):
                c = strip_refs(c.a[1][0])
            if is_const(c, "str"):
                kind, v = "lit", const_val(c)
        if kind == "lit" and out and out[-1][0] == "lit":
            out[-1] = ("lit", out[-1][1] + v)
        else:
            out.append((kind, v))
    return out


def built_string_parts(body, op):
    """A String assembled in place: `let mut s = first; s.push_str(x); s.push(c); …; s` — for the operand / local that is finally used,
    returns [('val', E)|('lit', s)] = the initial value followed by everything appended, when the appends are totally ordered by dominance
    (straight-line assembly) and the string is not otherwise borrowed mutably.  None if the value is not such a local."""
    if isinstance(op, dict):
        if op.get("k") == "const" or op["place"]["p"]:
            return None
        l = op["place"]["l"]
    else:
        l = op
    # follow whole-local moves back to the String that is built
    for _ in range(6):
        wd = body.whole_defs(l)
        if len(wd) == 1 and wd[0][2] == "assign" and wd[0][3]["rv"]["k"] == "use" and wd[0][3]["rv"]["op"]["k"] in ("move", "copy") \
                and not wd[0][3]["rv"]["op"]["place"]["p"]:
            l = wd[0][3]["rv"]["op"]["place"]["l"]
            continue
        break
    if body.locals[l]["ty"] != "std::string::String":
        return None
    wd = body.whole_defs(l)
    if len(wd) != 1:
        return None
    mutref = {}
    for (i, j, st) in body.stmts():
        if st["k"] == "assign" and not st["place"]["p"] and st["rv"]["k"] == "ref" and st["rv"].get("mut") and not st["rv"]["place"]["p"] and st["rv"]["place"]["l"] == l:
            mutref[st["place"]["l"]] = i
    apps = []
    for (bb, t) in body.calls():
        if not t["args"] or t["args"][0]["k"] == "const" or t["args"][0]["place"]["p"] or t["args"][0]["place"]["l"] not in mutref:
            continue
        n = callee_name(t)
        if n.endswith("String::push_str") or n.endswith("String::push"):
            apps.append((bb, t))
        else:
            return None                 # some other mutation: not a plain assembly
    if not apps:
        return None
    apps.sort(key=lambda x: sum(1 for y in body.rblocks if body.dominates(y, x[0])))
    for (a, _), (c, _) in zip(apps, apps[1:]):
        if not body.dominates(a, c):
            return None
    d = wd[0]
    for h, tl in (body.loops() or {}).items():
        lb_ = body.loop_body(h, tl)
        inside = [bb for (bb, _) in apps if bb in lb_]
        # appends inside a loop are an assembly only if the string is created afresh in the same iteration (its definition is in that loop too
        # and dominates every append) — otherwise the string is carried around the back edge and grows with every iteration
        if inside and not (d[0] in lb_ and all(body.dominates(d[0], bb) for bb in inside) and len(inside) == len(apps)):
            return None
    if d[2] == "call":
        first = E("call", callee_name(d[3]), tuple(body.expr_operand(a) for a in d[3]["args"]), d[0], t=d[3])
    elif d[2] == "assign":
        first = body.expr_rvalue(d[3]["rv"])
    else:
        return None
    parts = []
    f0 = strip_refs(first)
    if not (f0.k == "call" and (f0.a[0].endswith("String::new") or f0.a[0].endswith("String::with_capacity"))):
        parts.append(("val", first))
    for (bb, t) in apps:
        v = body.expr_operand(t["args"][1])
        vs = strip_refs(v)
        if is_const(vs, "str") or is_const(vs, "char"):
            parts.append(("lit", const_val(vs)))
        else:
            parts.append(("val", strip_refs_keep(v)))
    return parts


def inplace_wraps(body):
    """`x.insert_str(0, PRE); x.push_str(POST)` on one String local x with nothing else done to x in between:
    [(local, PRE E, POST E, insert block, push block)] — the in-place spelling of `x = PRE ++ x ++ POST`."""
    refs = {}
    for (i, j, st) in body.stmts():
        if st["k"] == "assign" and not st["place"]["p"] and st["rv"]["k"] == "ref" and st["rv"].get("mut") and not st["rv"]["place"]["p"] \
                and body.locals[st["rv"]["place"]["l"]]["ty"] == "std::string::String":
            refs[st["place"]["l"]] = st["rv"]["place"]["l"]
    ins, app, other = {}, {}, {}
    for (bb, t) in body.calls():
        if not t["args"] or t["args"][0]["k"] == "const" or t["args"][0]["place"]["p"] or t["args"][0]["place"]["l"] not in refs:
            continue
        l = refs[t["args"][0]["place"]["l"]]
        n = callee_name(t)
        if n.endswith("String::insert_str") and is_const(strip_refs(body.expr_operand(t["args"][1])), "int") and const_val(strip_refs(body.expr_operand(t["args"][1]))) == 0:
            ins.setdefault(l, []).append((bb, t))
        elif n.endswith("String::push_str"):
            app.setdefault(l, []).append((bb, t))
        else:
            other.setdefault(l, []).append(bb)
    out = []
    for l, xs in ins.items():
        for (ibb, it) in xs:
            for (abb, at) in app.get(l, []):
                if not body.dominates(ibb, abb):
                    continue
                between = [bb for bb in other.get(l, []) + [b_ for (b_, _) in app.get(l, []) if b_ != abb] + [b_ for (b_, _) in xs if b_ != ibb]
                           if body.dominates(ibb, bb) and abb in body.reachable_from(bb) and bb != abb]
                if between:
                    continue
                out.append((l, body.expr_operand(it["args"][2]), body.expr_operand(at["args"][1]), ibb, abb))
    return out


def bracketed_appends(body):
    """`x.push_str(FIRST); …anything appended to x…; x.push_str(LAST)` on one String local x that starts empty: the first append dominates every
    other mutation of x and nothing is done to x after the last one.  [(local, FIRST E, LAST E, first block, last block)] — another in-place
    spelling of `x = FIRST ++ middle ++ LAST`."""
    refs = {}
    for (i, j, st) in body.stmts():
        if st["k"] == "assign" and not st["place"]["p"] and st["rv"]["k"] == "ref" and st["rv"].get("mut") and not st["rv"]["place"]["p"] \
                and body.locals[st["rv"]["place"]["l"]]["ty"] == "std::string::String":
            refs[st["place"]["l"]] = st["rv"]["place"]["l"]
    muts = {}
    for (bb, t) in body.calls():
        if not t["args"] or t["args"][0]["k"] == "const" or t["args"][0]["place"]["p"] or t["args"][0]["place"]["l"] not in refs:
            continue
        muts.setdefault(refs[t["args"][0]["place"]["l"]], []).append((bb, t))
    out = []
    for l, ms in muts.items():
        wd = body.whole_defs(l)
        if not (len(wd) == 1 and wd[0][2] == "call" and (callee_name(wd[0][3]).endswith("String::new") or callee_name(wd[0][3]).endswith("String::with_capacity"))):
            continue
        apps = [(bb, t) for (bb, t) in ms if callee_name(t).endswith("String::push_str")]
        if len(apps) < 2:
            continue
        firsts = [(bb, t) for (bb, t) in apps if all(bb == b2 or body.dominates(bb, b2) for (b2, _) in ms)]
        lasts = [(bb, t) for (bb, t) in apps if not any(b2 != bb and b2 in body.reachable_from(bb) for (b2, _) in ms)]
        if len(firsts) == 1 and len(lasts) == 1 and firsts[0][0] != lasts[0][0]:
            out.append((l, body.expr_operand(firsts[0][1]["args"][1]), body.expr_operand(lasts[0][1]["args"][1]), firsts[0][0], lasts[0][0]))
    return out


def filtered_chars_loop(body, l):
    """A String filled by a per-character filter loop —
           let mut out = String::new();  for c in SRC.chars() { if keep(c) { out.push(c) } }
    For the String local `l` (whole-local moves are followed back) returns (SRC E, c E, [(guard E, polarity)]) when: the string
    starts empty, its only mutation is one `push` of the loop's own character inside one loop driven by `Chars::next`, the loop is
    left only when the iterator is exhausted (no break: it is a filter, not a prefix), and every condition between the loop head and
    the push is a bool test.  None otherwise.  The guards are the keep-predicate; the caller evaluates them per character."""
    for _ in range(6):
        wd = body.whole_defs(l)
        if len(wd) == 1 and wd[0][2] == "assign" and wd[0][3]["rv"]["k"] == "use" and wd[0][3]["rv"]["op"].get("k") in ("move", "copy") \
                and not wd[0][3]["rv"]["op"]["place"]["p"]:
            l = wd[0][3]["rv"]["op"]["place"]["l"]
            continue
        break
    if body.locals[l]["ty"] != "std::string::String":
        return None
    wd = body.whole_defs(l)
    if not (len(wd) == 1 and wd[0][2] == "call" and (callee_name(wd[0][3]).endswith("String::new") or callee_name(wd[0][3]).endswith("String::with_capacity"))):
        return None
    mutref = set()
    for (i, j, st) in body.stmts():
        if st["k"] == "assign" and st["rv"]["k"] == "ref" and st["rv"]["place"]["l"] == l:
            if st["rv"]["place"]["p"] or st["place"]["p"]:
                return None
            if st["rv"].get("mut"):
                mutref.add(st["place"]["l"])
    pushes = []
    for (bb, t) in body.calls():
        for ai, a in enumerate(t["args"]):
            if a["k"] != "const" and not a["place"]["p"] and a["place"]["l"] in mutref:
                if ai == 0 and callee_name(t).endswith("String::push"):
                    pushes.append((bb, t))
                else:
                    return None
    if len(pushes) != 1:
        return None
    pb, pt = pushes[0]
    heads = body.loops()
    inl = [h for h, tails in heads.items() if pb in body.loop_body(h, tails)]
    if len(inl) != 1:
        return None
    h = inl[0]
    lb = body.loop_body(h, heads[h])
    ht = body.blocks[h]["term"]
    if not (ht["k"] == "call" and callee_name(ht).endswith("Iterator>::next") and "Chars" in ht["args"][0]["place"]["ty"] and ht.get("target") is not None):
        return None
    nxt = ht["dest"]["l"]
    sw = ht["target"]
    st_ = body.blocks[sw]["term"]
    if st_["k"] != "switch":
        return None
    # the loop is left only from the test of `next()`'s result
    for x in lb:
        for y in body.bsucc[x]:
            if y not in lb and x != sw:
                t_ = body.blocks[x]["term"]
                if t_["k"] in ("call", "assert", "drop") and t_.get("target") in lb:
                    continue            # only the unwind edge leaves
                return None
    c = strip_refs(body.expr_operand(pt["args"][1]))
    if not (c.k == "field" and strip_refs(c.a[0]).k == "downcast"):
        return None
    src_call = strip_refs(strip_refs(c.a[0]).a[0])
    if not (src_call.k == "call" and src_call.a[0].endswith("Iterator>::next") and src_call.a[2] == h):
        return None
    it = src_call.a[1][0]
    chars = contains_call(it, lambda n: n.endswith("str>::chars"))
    if chars is None:
        return None
    src = chars.a[1][0]
    guards = []
    for (d, pol, sbb) in guards_of(body, pb):
        if sbb not in lb or sbb == sw:
            continue
        if body.blocks[sbb]["term"]["discr_ty"] != "bool" or pol is None:
            return None
        guards.append((d, pol))
    return src, c, guards


def mapped_vec_loop(body, l):
    """A Vec filled by a one-to-one loop —  let mut out = Vec::new();  for x in SRC { out.push(f(x)) }
    For the Vec local `l` returns the iterated source E when: the vector starts empty, its only mutation is one `push` inside one
    loop driven by an in-memory iterator's `next`, the push is executed on every iteration (it dominates every back edge and no
    branch inside the loop other than the end-of-iteration test exists) and the loop is left only when the iterator is exhausted.
    The result then has exactly as many elements as the source yields.  None otherwise."""
    for _ in range(6):
        wd = body.whole_defs(l)
        if len(wd) == 1 and wd[0][2] == "assign" and wd[0][3]["rv"]["k"] == "use" and wd[0][3]["rv"]["op"].get("k") in ("move", "copy") \
                and not wd[0][3]["rv"]["op"]["place"]["p"]:
            l = wd[0][3]["rv"]["op"]["place"]["l"]
            continue
        break
    if not body.locals[l]["ty"].startswith("std::vec::Vec<"):
        return None
    wd = body.whole_defs(l)
    if not (len(wd) == 1 and wd[0][2] == "call" and (callee_name(wd[0][3]).endswith("Vec::<T>::new") or callee_name(wd[0][3]).endswith("Vec::<T>::with_capacity"))):
        return None
    mutref = set()
    for (i, j, st) in body.stmts():
        if st["k"] == "assign" and st["rv"]["k"] == "ref" and st["rv"]["place"]["l"] == l:
            if st["rv"]["place"]["p"] or st["place"]["p"]:
                return None
            if st["rv"].get("mut"):
                mutref.add(st["place"]["l"])
    pushes = []
    for (bb, t) in body.calls():
        for ai, a in enumerate(t["args"]):
            if a["k"] != "const" and not a["place"]["p"] and a["place"]["l"] in mutref:
                if ai == 0 and callee_name(t).endswith("::push") and "Vec" in callee_name(t):
                    pushes.append((bb, t))
                else:
                    return None
    if len(pushes) != 1:
        return None
    pb, pt = pushes[0]
    heads = body.loops()
    inl = [h for h, tails in heads.items() if pb in body.loop_body(h, tails)]
    if len(inl) != 1:
        return None
    h = inl[0]
    lb = body.loop_body(h, heads[h])
    ht = body.blocks[h]["term"]
    if not (ht["k"] == "call" and callee_name(ht).endswith("Iterator>::next") and ht.get("target") is not None
            and any(x in ht["args"][0]["place"]["ty"] for x in ("slice::Iter<", "vec::IntoIter<", "Chars"))):
        return None
    sw = ht["target"]
    if body.blocks[sw]["term"]["k"] != "switch":
        return None
    for x in lb:
        t_ = body.blocks[x]["term"]
        if t_["k"] == "switch" and x != sw:
            return None                          # a conditional inside the loop: not one push per element
        for y in body.bsucc[x]:
            if y not in lb and x != sw:
                if t_["k"] in ("call", "assert", "drop") and t_.get("target") in lb:
                    continue
                return None
    if not all(body.dominates(pb, tl) for tl in heads[h]):
        return None
    it = body.expr_operand(ht["args"][0])
    x = strip_refs(it)
    for _ in range(6):
        if x.k == "call" and x.a[1] and (x.a[0].endswith("::into_iter") or x.a[0].endswith("::iter") or x.a[0].endswith("::chars")
                                         or x.a[0].endswith("::cloned") or x.a[0].endswith("::copied")):
            x = strip_refs(x.a[1][0])
            continue
        break
    return x


def eval_char_guard(pe, d, c_term, cp):
    """Truth of the bool E `d` for the character `cp` standing for `c_term`; None when not understood."""
    d = strip_refs(d)
    if d.k == "un" and d.a[0] == "Not":
        v = eval_char_guard(pe, d.a[1], c_term, cp)
        return None if v is None else (not v)
    if d.k == "const" and d.a[0][0] == "bool":
        return bool(d.a[0][1])
    if d.k == "call":
        args = [strip_refs(peel_conv(a)) for a in d.a[1]]
        if d.a[0].endswith("str>::contains") and len(args) == 2 and is_const(args[0], "str") and strip_refs(d.a[1][1]) == c_term:
            return chr(cp) in const_val(args[0])
        if len(d.a[1]) == 1 and strip_refs(d.a[1][0]) == c_term and d.a[0] in pe.prog.fns:
            r = pe.call(d.a[0], [cp])
            return r if isinstance(r, bool) else None
    if d.k == "bin" and d.a[0] in ("Eq", "Ne"):
        l, r = strip_refs(d.a[1]), strip_refs(d.a[2])
        for x, y in ((l, r), (r, l)):
            if x == c_term and (is_const(y, "char") or is_const(y, "int")):
                v = const_val(y)
                v = ord(v) if isinstance(v, str) else v
                return (cp == v) if d.a[0] == "Eq" else (cp != v)
    return None


def strip_refs_keep(e):
    while e.k in ("ref", "deref"):
        e = e.a[0]
    return e


# ---------------------------------------------------------------------------
# chains / leaves

def chain(body, start, stop=None):
    """Blocks from `start` following single normal successors until a return,
    a branch, or `stop`.  Returns list of block ids."""
    out = []
    b = start
    seen = set()
    while b is not None and b not in seen and b != stop:
        seen.add(b)
        out.append(b)
        t = body.blocks[b]["term"]
        if t["k"] in ("goto", "call", "drop", "assert"):
            b = t.get("target")
        else:
            break
    return out


def leaf_assign(body, start, local=0):
    """E held by `local` at the end of the chain from `start` (path-sensitive), with the chain."""
    ch = chain(body, start)
    env = body.eval_path(ch)
    return env.get(local), ch


def chain_calls(body, ch):
    out = []
    for b in ch:
        t = body.blocks[b]["term"]
        if t["k"] == "call":
            out.append((b, t))
    return out


def switches_on(body, pred):
    """[(bb, term)] switches whose discriminant expression satisfies pred(E)."""
    out = []
    for i in body.rblocks:
        t = body.blocks[i]["term"]
        if t["k"] == "switch":
            e = body.expr_operand(t["discr"])
            if pred(e):
                out.append((i, t))
    return out


# ---------------------------------------------------------------------------
# path enumeration of small acyclic bodies -> boolean/decision functions

class PathLimit(Exception):
    pass


def enumerate_paths(body, start=0, limit=4096):
    """All acyclic normal paths start..return as lists of (bb, edge_values|None).
    Raises PathLimit when the body has a loop or too many paths."""
    paths = []

    def rec(b, acc, onpath):
        if len(paths) > limit:
            raise PathLimit("too many paths")
        if b in onpath:
            raise PathLimit("loop")
        t = body.blocks[b]["term"]
        k = t["k"]
        if k == "return":
            paths.append(acc + [(b, None)])
            return
        if k == "switch":
            for (node, vals, tgt) in body.switch_edges(b):
                rec(tgt, acc + [(b, vals)], onpath | {b})
            return
        if k in ("goto", "call", "drop", "assert"):
            if t.get("target") is None:
                return      # diverges
            rec(t["target"], acc + [(b, None)], onpath | {b})
            return
        # unreachable / resume / other: path ends without returning
        return

    rec(start, [], frozenset())
    return paths


def path_return(body, path, local=0):
    """E held by `local` at the end of the path (path-sensitive evaluation)."""
    env = body.eval_path([b for (b, _) in path])
    return env.get(local)


def path_conditions(body, path):
    """[(E discr, values|'otherwise', all_values_of_switch, ty)] along the path (path-sensitive)."""
    out = []
    blocks = [b for (b, _) in path]
    env = {}
    for i, (b, vals) in enumerate(path):
        env = body.eval_path([b], env)
        t = body.blocks[b]["term"]
        if t["k"] == "switch":
            allv = [v for v, _ in t["targets"]]
            out.append((body.expr_operand(t["discr"], 0, env), vals, tuple(allv), t["discr_ty"]))
    return out


def eval_bool(e, env):
    """Evaluate a boolean E under env {atom E: bool}. Returns bool or None."""
    e = strip_refs(e)
    if e in env:
        return env[e]
    if e.k == "const" and e.a[0][0] == "bool":
        return bool(e.a[0][1])
    if e.k == "un" and e.a[0] == "Not":
        v = eval_bool(e.a[1], env)
        return None if v is None else (not v)
    if e.k == "call" and e.a[0].endswith("for bool>::clone"):
        return eval_bool(e.a[1][0], env)
    if e.k == "phi":
        vs = {eval_bool(x, env) for x in e.a[0]}
        if len(vs) == 1:
            return vs.pop()
    return None


def bool_function(body, atom_filter=None):
    """Summarise a small acyclic bool-returning body as a list of
    (conditions [(atomE, polarity)], result E).  Conditions only over bool switches."""
    out = []
    for p in enumerate_paths(body):
        conds = []
        ok = True
        for (d, vals, allv, ty) in path_conditions(body, p):
            if ty != "bool":
                # `matches!(x, Enum::V)`: a switch on a discriminant against one variant is the bool atom `discr(x) == v`
                ds = strip_refs(d)
                if ds.k == "discr" and len(allv) == 1 and (vals == "otherwise" or vals == tuple(allv)):
                    conds.append((E("bin", "Eq", ds, E("const", ("int", allv[0]))), vals != "otherwise"))
                    continue
                ok = False
                break
            pol = (vals == "otherwise") if allv == (0,) else (vals != (0,) if vals != "otherwise" else True)
            if vals == (0,):
                pol = False
            elif vals == (1,):
                pol = True
            elif vals == "otherwise":
                pol = (allv == (0,))
            conds.append((strip_refs(d), pol))
        if not ok:
            return None
        out.append((conds, path_return(body, p)))
    return out


def truth_table(body, atoms, rewrite=None):
    """atoms: list of (name, predicate(E)->bool) identifying the atoms. Returns
    {assignment tuple: bool} by evaluating every path; None when not decidable.
    `rewrite` maps a condition E to an equivalent E over the atoms (e.g. `discr == other variant` → ¬atom)."""
    bf = bool_function(body)
    if bf is None:
        return None
    if rewrite is not None:
        bf = [([(rewrite(d), pol) for (d, pol) in conds], (rewrite(strip_refs(ret)) if ret is not None else None)) for conds, ret in bf]

    def atom_index(e):
        e = strip_refs(e)
        for i, (_, pred) in enumerate(atoms):
            if pred(e):
                return i
        return None

    table = {}
    for assign in itertools.product([False, True], repeat=len(atoms)):
        result = None
        matched = 0
        for conds, ret in bf:
            feasible = True
            for (d, pol) in conds:
                v = _eval_atoms(d, assign, atom_index)
                if v is None:
                    return None
                if v != pol:
                    feasible = False
                    break
            if feasible:
                matched += 1
                if ret is None:
                    return None
                r = _eval_atoms(ret, assign, atom_index)
                if r is None:
                    return None
                if result is not None and result != r:
                    return None
                result = r
        if matched == 0 or result is None:
            return None
        table[assign] = result
    return table


def _eval_atoms(e, assign, atom_index):
    e = strip_refs(e)
    i = atom_index(e)
    if i is not None:
        return assign[i]
    if e.k == "const" and e.a[0][0] == "bool":
        return bool(e.a[0][1])
    if e.k == "un" and e.a[0] == "Not":
        v = _eval_atoms(e.a[1], assign, atom_index)
        return None if v is None else (not v)
    if e.k == "call" and "Clone" in e.a[0] and len(e.a[1]) == 1:
        return _eval_atoms(e.a[1][0], assign, atom_index)
    if e.k == "bin" and e.a[0] in ("BitAnd", "BitOr", "Eq", "Ne", "BitXor"):
        l = _eval_atoms(e.a[1], assign, atom_index)
        r = _eval_atoms(e.a[2], assign, atom_index)
        if l is None or r is None:
            return None
        return {"BitAnd": l and r, "BitOr": l or r, "Eq": l == r, "Ne": l != r, "BitXor": l != r}[e.a[0]]
    if e.k == "phi":
        vs = {_eval_atoms(x, assign, atom_index) for x in e.a[0]}
        if len(vs) == 1:
            return vs.pop()
    return None


# ---------------------------------------------------------------------------
# guards (A4)

def bool_switch_polarity(body, bb):
    """For a switch on a bool: {edge_node: True/False}."""
    out = {}
    t = body.blocks[bb]["term"]
    if t["k"] != "switch":
        return out
    allv = tuple(v for v, _ in t["targets"])
    for (node, vals, tgt) in body.switch_edges(bb):
        if vals == "otherwise":
            if allv == (0,):
                out[node] = True
            elif allv == (1,):
                out[node] = False
        elif vals == (0,):
            out[node] = False
        elif vals == (1,):
            out[node] = True
    return out


def _flag_sources(body, l, depth=0):
    """[(block, bool)] — the constant assignments a bool local's value can come from (through whole-local copies); None if any source is not a constant."""
    if depth > 5:
        return None
    out = []
    defs = body.defs.get(l, [])
    if not defs:
        return None
    for d_ in defs:
        if d_[2] == "assign" and not d_[3]["place"]["p"] and d_[3]["rv"]["k"] in ("binop", "unop") and depth > 0:
            out.append((d_[0], ("expr", d_)))
            continue
        if d_[2] != "assign" or d_[3]["place"]["p"] or d_[3]["rv"]["k"] != "use":
            return None
        op = d_[3]["rv"]["op"]
        if op["k"] == "const" and "bool" in op:
            out.append((d_[0], bool(op["bool"])))
        elif op["k"] in ("copy", "move") and not op["place"]["p"]:
            sub = _flag_sources(body, op["place"]["l"], depth + 1)
            if sub is None:
                out.append((d_[0], ("expr", d_)))      # an opaque bool (a call's result, a comparison): may be either value
            else:
                out.extend(sub)
        else:
            return None
    return out


def _known_variant(e):
    """discr(literal field-less variant) / an integer constant: the variant index; else None."""
    e = strip_refs(e)
    if e.k == "const" and e.a[0][0] == "int":
        return int(e.a[0][1])
    if e.k == "discr":
        x = strip_refs(e.a[0])
        if x.k == "agg" and isinstance(x.t, dict) and "vidx" in x.t and not x.a[1]:
            return x.t["vidx"]
    return None


def guards_of(body, bb, _depth=0):
    """All (discr E, polarity/values, switch_bb) whose edge dominates block bb.
    For bool switches polarity is True/False (looking through Not); for others the value tuple.
    A branch on a *flag* — a bool local whose every definition is a constant — taken with the value that exactly one definition assigns
    is also guarded by whatever guards that definition (`let p = matches!(c, …); … if p { X }`: X runs only when the match arm ran)."""
    out = []
    resolved = set()
    if _depth < 3:
        for s in body.rblocks:
            t = body.blocks[s]["term"]
            if t["k"] != "switch" or t["discr_ty"] != "bool" or t["discr"]["k"] == "const" or t["discr"]["place"]["p"]:
                continue
            srcs = _flag_sources(body, t["discr"]["place"]["l"])
            if srcs is None or len(srcs) < 2:
                continue
            pols = bool_switch_polarity(body, s)
            for (node, vals, tgt) in body.switch_edges(s):
                pol = pols.get(node)
                if pol is None or not body.dominates(node, bb):
                    continue
                setters = [d_ for d_ in srcs if d_[1] == pol or isinstance(d_[1], tuple)]
                if len(setters) == 1 and setters[0][0] != s and any(not isinstance(d_[1], tuple) for d_ in srcs):
                    for g in guards_of(body, setters[0][0], _depth + 1):
                        if g not in out:
                            out.append(g)
                    resolved.add(node)
                    if isinstance(setters[0][1], tuple):
                        # `let f = a && b; if f { X }`: X runs only where the flag got its value from the expression, and the expression was `pol`
                        dd = setters[0][1][1]
                        e_ = strip_refs(body.expr_rvalue(dd[3]["rv"]))
                        p_ = pol
                        while e_.k == "un" and e_.a[0] == "Not":
                            e_ = strip_refs(e_.a[1])
                            p_ = not p_
                        g = (e_, p_, setters[0][0])
                        if g not in out:
                            out.append(g)
    # the same for a flag kept as a field-less variant of a private enum (`let mode = if on { Mode::A } else { Mode::B }; … if mode == Mode::A { X }`
    # or `match mode { Mode::A => X, … }`): an edge that exactly one of the variant's literal assignments can take is guarded by what guards
    # that assignment
    if _depth < 3:
        for s in body.rblocks:
            t = body.blocks[s]["term"]
            if t["k"] != "switch" or t["discr"]["k"] == "const":
                continue
            edges = [(node, vals, tgt) for (node, vals, tgt) in body.switch_edges(s) if body.dominates(node, bb) and node not in resolved]
            if not edges:
                continue
            try:
                d = strip_refs(body.expr_operand(t["discr"]))
            except Exception:
                continue
            neg = False
            while d.k == "un" and d.a[0] == "Not":
                d = strip_refs(d.a[1])
                neg = not neg
            X, cmp_k, cmp_eq = None, None, None
            if d.k == "discr":
                X = strip_refs(d.a[0])
            elif d.k == "bin" and d.a[0] in ("Eq", "Ne"):
                l_, r_ = strip_refs(d.a[1]), strip_refs(d.a[2])
                for a_, b_ in ((l_, r_), (r_, l_)):
                    kb_ = _known_variant(b_)
                    if a_.k == "discr" and kb_ is not None and _known_variant(a_) is None:
                        X, cmp_k, cmp_eq = strip_refs(a_.a[0]), kb_, d.a[0] == "Eq"
            if X is None or X.k != "phi":
                continue
            alts = [strip_refs(a_) for a_ in X.a[0]]
            # literal variants (with or without a payload) of one crate enum, and at most values of unknown variant (a call's answer)
            lit_ = [a_ for a_ in alts if a_.k == "agg" and isinstance(a_.t, dict) and "vidx" in a_.t and str(a_.a[0]).startswith("adt:")
                    and not str(a_.t.get("adt", "")).startswith(("std::", "core::"))]
            opaque_ = [a_ for a_ in alts if a_ not in lit_]
            if len(alts) < 2 or not lit_ or any(a_.t.get("adt") != lit_[0].t.get("adt") for a_ in lit_) \
                    or any(not (a_.k == "call" and isinstance(a_.a[2], int)) for a_ in opaque_):
                continue
            allv = tuple(v for v, _ in t["targets"])
            pols = bool_switch_polarity(body, s) if t["discr_ty"] == "bool" else {}
            for (node, vals, tgt) in edges:
                if cmp_k is None:
                    sat = [a_ for a_ in lit_ if (a_.t["vidx"] in vals if vals != "otherwise" else a_.t["vidx"] not in allv)]
                else:
                    pol = pols.get(node)
                    if pol is None:
                        continue
                    # bool_switch_polarity already looks through the negations of the operand
                    sat = [a_ for a_ in lit_ if (a_.t["vidx"] == cmp_k) == (pol == cmp_eq)]
                sat = sat + opaque_          # a value of unknown variant may take any edge
                if len(sat) != 1:
                    continue
                if sat[0] in opaque_:
                    where = [sat[0].a[2]] if sat[0].a[2] in body.rblocks else []
                else:
                    where = [i_ for i_ in body.rblocks for st_ in body.blocks[i_]["stmts"] if st_["k"] == "assign" and st_["rv"] is sat[0].t]
                if len(where) != 1 or where[0] == s:
                    continue
                for g in guards_of(body, where[0], _depth + 1):
                    if g not in out:
                        out.append(g)
                resolved.add(node)
    for s in body.rblocks:
        t = body.blocks[s]["term"]
        if t["k"] != "switch":
            continue
        for (node, vals, tgt) in body.switch_edges(s):
            if body.dominates(node, bb) and node not in resolved:
                d = strip_refs(body.expr_operand(t["discr"]))
                if t["discr_ty"] == "bool":
                    pol = bool_switch_polarity(body, s).get(node)
                    while d.k == "un" and d.a[0] == "Not":
                        d = strip_refs(d.a[1])
                        pol = None if pol is None else (not pol)
                    out.append((d, pol, s))
                else:
                    out.append((d, vals, s))
    return out


def guarded_by_call(body, bb, callee_pred, polarity=None):
    """True if block bb is dominated by an edge of a bool switch whose discriminant is the
    result of a call matching callee_pred, with the given polarity (None = either)."""
    for (d, pol, s) in guards_of(body, bb):
        for x in _bool_leaves(d):
            if x.k == "call" and callee_pred(x.a[0]):
                if polarity is None or pol == polarity:
                    return True
    return False


def _bool_leaves(d):
    d = strip_refs(d)
    if d.k == "phi":
        for x in d.a[0]:
            yield from _bool_leaves(x)
    else:
        yield d


# ---------------------------------------------------------------------------
# who-may-write (A9)

MUTATING_OK_READONLY = (
    "::is_empty", "::len", "::get", "::contains", "::contains_key", "::iter", "::chars", "::as_str",
    "::deref", "::clone", "::capacity", "::borrow",
)


def direct_writes(body):
    """Writes performed by this body through its parameters or locals:
    yields dicts {root: E, fields: tuple, op: str, bb, idx, line, term/stmt}.
    op = 'assign' or the callee name that received a &mut to the place."""
    out = []
    for (i, j, s) in body.stmts():
        if s["k"] == "assign":
            p = s["place"]
            if not p["p"]:
                continue        # whole-local assignment: a definition, not a heap write
            lhs = body.expr_place(p)
            root, fields = apath(lhs)
            out.append({"root": root, "fields": fields, "op": "assign", "bb": i, "idx": j,
                        "line": s["loc"]["line"], "stmt": s, "rv": s["rv"]})
        elif s["k"] == "setdiscr":
            lhs = body.expr_place(s["place"])
            root, fields = apath(lhs)
            out.append({"root": root, "fields": fields, "op": "setdiscr", "bb": i, "idx": j,
                        "line": s["loc"]["line"], "stmt": s})
    for (bb, t) in body.calls():
        for ai, a in enumerate(t["args"]):
            if a["k"] == "const":
                continue
            ty = a["place"]["ty"]
            if not (ty.startswith("&mut ") or ty.startswith("*mut ")):
                continue
            e = body.expr_operand(a)
            root, fields = apath(e)
            out.append({"root": root, "fields": fields, "op": callee_name(t), "bb": bb,
                        "idx": len(body.blocks[bb]["stmts"]), "line": t["loc"]["line"], "term": t, "argi": ai})
    return out


class ModSets:
    """Bottom-up may-write sets: fn key -> set of (param index, field path prefix)."""

    def __init__(self, prog):
        self.prog = prog
        self.mod = defaultdict(set)
        self._compute()

    def _compute(self):
        prog = self.prog
        changed = True
        direct = {}
        for k in prog.fns:
            direct[k] = direct_writes(prog.body(k))
        rounds = 0
        while changed and rounds < 20:
            changed = False
            rounds += 1
            for k in prog.fns:
                cur = self.mod[k]
                before = len(cur)
                for w in direct[k]:
                    root = w["root"]
                    if root.k != "arg":
                        continue
                    if w["op"] in ("assign", "setdiscr"):
                        cur.add((root.a[0], w["fields"]))
                        continue
                    t = w["term"]
                    tgt = self._local_target(t)
                    if tgt:
                        for m in tgt:
                            pi = w["argi"] + 1
                            for (cp, cf) in self.mod[m]:
                                if cp == pi:
                                    cur.add((root.a[0], w["fields"] + cf))
                    else:
                        if not any(w["op"].endswith(s) for s in MUTATING_OK_READONLY):
                            cur.add((root.a[0], w["fields"]))
                if len(cur) != before:
                    changed = True

    def _local_target(self, t):
        c = t.get("callee")
        if not c:
            return None
        if c.get("rkind") == "virtual":
            ms = self.prog.trait_impl_methods(c.get("trait"), c.get("name"))
            return ms or None
        r = c.get("resolved") if c.get("rkind") == "item" else None
        if r in self.prog.fns:
            return [r]
        if c["path"] in self.prog.fns:
            return [c["path"]]
        return None

    def writes_of_call(self, body, bb, t):
        """Field paths (rooted at caller exprs) a call may write: [(root E, fields, via)]."""
        out = []
        tgt = self._local_target(t)
        for ai, a in enumerate(t["args"]):
            if a["k"] == "const":
                continue
            ty = a["place"]["ty"]
            if not (ty.startswith("&mut ") or ty.startswith("*mut ")):
                continue
            e = body.expr_operand(a)
            root, fields = apath(e)
            if tgt:
                for m in tgt:
                    for (cp, cf) in self.mod[m]:
                        if cp == ai + 1:
                            out.append((root, fields + cf, m))
            else:
                name = callee_name(t)
                if not any(name.endswith(s) for s in MUTATING_OK_READONLY):
                    out.append((root, fields, name))
        return out


# ---------------------------------------------------------------------------
# value-preserving conversions (must-come-from rules, DESIGN §1.3)

VALUE_PRESERVING = (
    "::clone", "::to_owned", "::to_string", "::into", "::as_str", "::as_ref", "::deref", "::deref_mut",
    "::borrow", "String::from", "::from", "hint::must_use", "::as_bytes", "::into_bytes", "::into_boxed_str",
    "::to_vec", "::as_mut_str", "::into_string",
)


def peel_conv(e, extra=()):
    """Look through refs and value-preserving std conversions (single-argument)."""
    while True:
        e2 = strip_refs(e)
        if e2.k == "call" and len(e2.a[1]) == 1 and not _is_local_name(e2.a[0]) and \
                any(e2.a[0].endswith(s) for s in VALUE_PRESERVING + tuple(extra)):
            e = e2.a[1][0]
            continue
        if e2.k == "call" and len(e2.a[1]) == 1:
            fp = format_parts(None, e2)
            if fp is not None and len(fp) == 1 and fp[0][0] == "val":
                e = fp[0][1]
                continue
        return e2


def _is_local_name(name):
    # local items have crate-relative paths (no leading std::/core::/alloc:: or '<')
    return not (name.startswith("std::") or name.startswith("core::") or name.startswith("alloc::") or name.startswith("<"))


def path_table(body, limit=4096):
    """[(conds, ret E, path)] for an acyclic body; conds = [(discr E, vals, all_vals, ty)]."""
    out = []
    for p in enumerate_paths(body, 0, limit):
        out.append((path_conditions(body, p), path_return(body, p), p))
    return out


def variant_of(cond, adt):
    """For a discriminant condition on an enum: variant name(s) selected."""
    d, vals, allv, ty = cond
    names = [v["name"] for v in adt["variants"]]
    if vals == "otherwise":
        return [n for i, n in enumerate(names) if i not in allv]
    return [names[v] for v in vals if v < len(names)]


def bool_of(cond):
    d, vals, allv, ty = cond
    if ty != "bool":
        return None
    if vals == (0,):
        return False
    if vals == (1,):
        return True
    if vals == "otherwise":
        if allv == (0,):
            return True
        if allv == (1,):
            return False
    return None


def closure_creation(prog, ckey):
    """(parent body, bb, idx, stmt, E of captured upvars) where the closure is built."""
    f = prog.fns[ckey]
    parent = f.get("parent")
    if parent not in prog.fns:
        return None
    try:
        plumb = prog.plumbing_fns()
    except Exception:
        plumb = ()
    if parent in plumb:
        # the closure is written in a method of a private helper type that the default view splices into its callers: it is created where
        # that copy stands (there the helper's parameters are the caller's own values)
        hosts = []
        for k2, f2 in prog.fns.items():
            if k2 in plumb or f2.get("kind") == "Closure" or k2 == parent:
                continue
            if not any(prog._calls_any(k2, {parent})):
                continue
            b2 = prog.body(k2)
            for (i2, j2, s2) in b2.stmts():
                if s2["k"] == "assign" and s2["rv"]["k"] == "aggregate" and s2["rv"].get("closure") == ckey:
                    hosts.append((b2, i2, j2, s2))
        if len(hosts) == 1:
            b2, i2, j2, s2 = hosts[0]
            return b2, i2, j2, s2, [b2.expr_operand(o) for o in s2["rv"]["ops"]]
    b = prog.body(parent)
    for (i, j, s) in b.stmts():
        if s["k"] == "assign" and s["rv"]["k"] == "aggregate" and s["rv"].get("closure") == ckey:
            ups = [b.expr_operand(o) for o in s["rv"]["ops"]]
            return b, i, j, s, ups
    return None


def closure_consumer(prog, ckey):
    """The call in the parent that receives the closure: (parent body, bb, term, arg index)."""
    cc = closure_creation(prog, ckey)
    if not cc:
        return None
    b, i, j, s, ups = cc
    dest = s["place"]["l"]
    for (bb, t) in b.calls():
        for ai, a in enumerate(t["args"]):
            if a["k"] in ("move", "copy") and a["place"]["l"] == dest and not a["place"]["p"]:
                return b, bb, t, ai
            if a["k"] in ("move", "copy"):
                e = b.expr_operand(a)
                if e.k == "agg" and e.a[0] == "closure:" + ckey:
                    return b, bb, t, ai
                if e.k == "ref" and e.a[0].k == "agg" and e.a[0].a[0] == "closure:" + ckey:
                    return b, bb, t, ai
    return None


def contains_call(e, pred):
    """Any sub-term that is a call whose callee name satisfies pred."""
    for x in e.walk():
        if x.k == "call" and pred(x.a[0]):
            return x
    return None


# ---------------------------------------------------------------------------
# length lower-bound dataflow for a Vec reached through a parameter (C02.R3, C15.R2 upper bound)

def const_fold(e, depth=0):
    """Integer value of an expression built from integer constants with + − × (also the `.0` of a checked operation); None otherwise."""
    e = strip_refs(e)
    if depth > 8:
        return None
    if is_const(e, "int"):
        return const_val(e)
    if e.k == "field" and str(e.a[1]) == "0" and strip_refs(e.a[0]).k == "bin":
        return const_fold(e.a[0], depth + 1)
    if e.k == "cast":
        return const_fold(e.a[1], depth + 1)
    if e.k == "bin":
        op = e.a[0].replace("WithOverflow", "")
        l, r = const_fold(e.a[1], depth + 1), const_fold(e.a[2], depth + 1)
        if l is None or r is None:
            return None
        if op == "Add":
            return l + r
        if op == "Sub":
            return l - r
        if op == "Mul":
            return l * r
    return None


class VecBounds:
    """Forward dataflow over one body tracking [lo, hi] bounds (lo in 0..2, hi in 0..CAP or INF) of the
    length of one container identified by (param index, field path).  Calls into local functions that
    receive (a prefix of) the path by &mut use a recursively computed summary."""
    INF = 10 ** 6
    CAP = 64          # widening threshold for the upper bound

    def __init__(self, prog, mods):
        self.prog = prog
        self.mods = mods
        self._summ = {}

    def _same(self, e, param, fields):
        root, f = apath(e)
        return root.k == "arg" and root.a[0] == param and f == fields

    def _prefix(self, e, param, fields):
        root, f = apath(e)
        return root.k == "arg" and root.a[0] == param and fields[:len(f)] == f

    def transfer_call(self, b, bb, t, st, param, fields, depth):
        lo, hi = st
        name = callee_name(t)
        args = [b.expr_operand(a) for a in t["args"]]
        touched = None
        for ai, a in enumerate(t["args"]):
            if a["k"] == "const":
                continue
            ty = a["place"]["ty"]
            if not ty.startswith("&mut "):
                continue
            if self._same(args[ai], param, fields):
                touched = ("exact", ai)
            elif self._prefix(args[ai], param, fields) and touched is None:
                touched = ("prefix", ai)
        if touched is None:
            return st
        kind, ai = touched
        local = name in self.prog.fns
        if local:
            root, f = apath(args[ai])
            rest = fields[len(f):]
            s = self.summary(name, ai + 1, rest, st, depth + 1)
            return s
        if kind == "prefix":
            return (0, self.INF)        # unknown callee got a &mut to an enclosing object
        n = name
        if n.endswith("::clear"):
            return (0, 0)
        if n.endswith("Vec::<T, A>::push"):
            return (min(lo + 1, 2), hi + 1 if hi < self.CAP else self.INF)
        if n.endswith("::extend") or n.endswith("::append") or n.endswith("::extend_from_slice"):
            return (lo, self.INF)
        if n.endswith("::truncate"):
            cv = const_fold(args[1])
            if cv is not None:
                return (min(lo, cv), min(hi, cv))
            return (0, hi)
        if n.endswith("::dedup") or n.endswith("::dedup_by") or n.endswith("::dedup_by_key"):
            return (min(lo, 1), hi)
        if any(n.endswith(s) for s in ("::sort", "::sort_unstable", "::sort_by", "::sort_by_key", "::sort_unstable_by",
                                       "::iter_mut", "::deref_mut", "::reverse", "::as_mut_slice", "::iter", "::len",
                                       "::is_empty", "::deref", "::shrink_to_fit", "::reserve", "::first_mut", "::last_mut",
                                       "::get_mut", "::swap", "::sort_unstable_by_key")):
            return (lo, hi)
        if n.endswith("::pop") or n.endswith("::remove") or n.endswith("::swap_remove"):
            return (max(lo - 1, 0), hi)
        if n.endswith("::insert"):
            return (min(lo + 1, 2), hi + 1 if hi < self.CAP else self.INF)
        return (0, self.INF if not (n.endswith("::retain") or n.endswith("::drain") or n.endswith("::retain_mut")) else hi)

    def run(self, key, param, fields, entry, depth=0):
        """Returns {bb: state at block entry}, and a function to get the state right before a position."""
        b = self.prog.body(key)
        IN = {0: entry}
        work = [0]
        it = 0
        while work and it < 20000:
            it += 1
            x = work.pop()
            st = IN[x]
            st = self._block_out(b, x, st, param, fields, depth)
            outs = []
            t = b.blocks[x]["term"]
            if t["k"] == "switch" and t["discr_ty"] == "bool":
                d = strip_refs(b.expr_operand(t["discr"]))
                neg = False
                while d.k == "un" and d.a[0] == "Not":
                    d = strip_refs(d.a[1])
                    neg = not neg
                fact = None      # (polarity under which len >= 1)
                if d.k == "call" and d.a[1]:
                    recv = d.a[1][0]
                    while True:
                        recv = strip_refs(recv)
                        if recv.k == "call" and recv.a[0].endswith("::deref") and len(recv.a[1]) == 1:
                            recv = recv.a[1][0]
                            continue
                        break
                    if self._same(recv, param, fields):
                        if d.a[0].endswith("::contains"):
                            fact = True
                        elif d.a[0].endswith("::is_empty"):
                            fact = False
                pols = bool_switch_polarity(b, x)
                for (node, vals, tgt) in b.switch_edges(x):
                    pol = pols.get(node)
                    if pol is not None and neg:
                        pol = not pol
                    st2 = st
                    if fact is not None and pol is not None:
                        if pol == fact:
                            st2 = (max(st[0], 1), st[1])
                        elif fact is False and pol is True:
                            st2 = (0, 0)
                    outs.append((tgt, st2))
            else:
                outs = [(s_, st) for s_ in b.bsucc[x]]
            for s_, st2 in outs:
                old = IN.get(s_)
                new = st2 if old is None else (min(old[0], st2[0]), max(old[1], st2[1]))
                if new != old:
                    IN[s_] = new
                    work.append(s_)
        return b, IN

    def _block_out(self, b, x, st, param, fields, depth):
        blk = b.blocks[x]
        for s in blk["stmts"]:
            if s["k"] == "assign" and s["place"]["p"]:
                lhs = b.expr_place(s["place"])
                if self._same(lhs, param, fields) or (self._prefix(lhs, param, fields)):
                    st = (0, self.INF)
        t = blk["term"]
        if t["k"] == "call":
            st = self.transfer_call(b, x, t, st, param, fields, depth)
        return st

    def state_before_term(self, key, param, fields, bb, entry=(0, 10 ** 6)):
        b, IN = self.run(key, param, fields, entry)
        st = IN.get(bb)
        if st is None:
            return None
        blk = b.blocks[bb]
        for s in blk["stmts"]:
            if s["k"] == "assign" and s["place"]["p"]:
                lhs = b.expr_place(s["place"])
                if self._same(lhs, param, fields) or self._prefix(lhs, param, fields):
                    st = (0, self.INF)
        return st

    def summary(self, key, param, fields, entry, depth=0):
        k = (key, param, fields, entry)
        if k in self._summ:
            return self._summ[k]
        if depth > 6:
            return (0, self.INF)
        self._summ[k] = (0, self.INF)      # recursion guard (conservative)
        b, IN = self.run(key, param, fields, entry, depth)
        res = None
        for rb in b.return_blocks:
            st = IN.get(rb)
            if st is None:
                continue
            st = self._block_out(b, rb, st, param, fields, depth)
            res = st if res is None else (min(res[0], st[0]), max(res[1], st[1]))
        if res is None:
            res = (0, self.INF)
        self._summ[k] = res
        return res


def subst_upvars(prog, ckey, e, depth=0):
    """Rewrite references to a closure's captured variables (fields of its environment parameter)
    by the expressions captured at the creation site, transitively for nested closures."""
    cc = closure_creation(prog, ckey)
    if not cc or depth > 4:
        return e
    pb, i, j, s, ups = cc

    def fn(x):
        if x.k == "field" and isinstance(x.a[1], int):
            base = x.a[0]
            while base.k in ("deref", "ref"):
                base = base.a[0]
            if base.k == "arg" and base.a[0] == 1 and x.a[1] < len(ups):
                return ups[x.a[1]]
        return None
    out = simplify_projections(e.rebuild(fn))
    if prog.fns[pb.key].get("kind") == "Closure":
        out = subst_upvars(prog, pb.key, out, depth + 1)
    return out


def simplify_projections(e):
    """field-of-aggregate → the operand (after a substitution put a known aggregate under a projection)."""
    def fn(x):
        if x.k == "field":
            base = x.a[0]
            while base.k in ("deref", "ref"):
                base = base.a[0]
            if base.k == "agg" and (base.a[0] == "tuple" or str(base.a[0]).startswith("adt:") or str(base.a[0]).startswith("closure:")):
                idx = x.a[1]
                if not isinstance(idx, int):
                    names = (base.t or {}).get("fields") if base.t else None
                    if names and str(idx) in [str(n) for n in names]:
                        idx = [str(n) for n in names].index(str(idx))
                    elif str(idx).isdigit():
                        idx = int(idx)
                    else:
                        return None
                if 0 <= idx < len(base.a[1]):
                    return simplify_projections(base.a[1][idx])
        return None
    return e.rebuild(fn)


# ---------------------------------------------------------------------------
# finite evaluation of extracted scalar predicates (decision tables over a finite character domain)

class PredEval:
    """Evaluates a small pure `fn(char | &char [, …]) -> bool|char|Option<..>` from its MIR over concrete
    scalar arguments.  Only copies, refs of scalars, comparisons, bool ops, constant switches,
    `literal.contains(char)` and calls of other such local functions are understood; anything else
    yields None (undecidable).  This is a table evaluation of an extracted predicate, used to read the
    character classes as *sets* whatever their spelling (string literal, matches!, ranges, == chains)."""

    def __init__(self, prog):
        self.prog = prog
        self.memo = {}
        self._sw = {}
        self._seq_index = {}
        self._seq_keep = []
        self._eq_shapes = {}

    def _eq_closure_shape(self, ck):
        """If closure `ck` is exactly `|row| row.<fields…> == <captured value i>` (one block, an equality of a projection of its argument with a
        captured scalar, through copies and dereferences only): (field index tuple, capture index); else None.  Read from the closure's MIR."""
        if ck in self._eq_shapes:
            return self._eq_shapes[ck]
        res = None
        f = self.prog.fns.get(ck)
        try:
            m = f["mir"]
            live = [b for b in m["blocks"] if not b.get("cleanup")]
            if f is not None and m["arg_count"] == 2 and len(live) == 1 and live[0]["term"]["k"] == "return":
                val = {1: ("up", ()), 2: ("row", ())}

                def place(p):
                    v = val.get(p["l"])
                    if v is None:
                        return None
                    kind, proj = v
                    for el in p["p"]:
                        if el == "*":
                            continue
                        if isinstance(el, dict) and "f" in el:
                            proj = proj + (el["f"],)
                        else:
                            return None
                    return (kind, proj)
                okc = True
                for st in live[0]["stmts"]:
                    if st["k"] != "assign" or st["place"]["p"]:
                        okc = False
                        break
                    rv = st["rv"]
                    if rv["k"] == "use" and rv["op"].get("k") in ("copy", "move"):
                        val[st["place"]["l"]] = place(rv["op"]["place"])
                    elif rv["k"] == "ref":
                        val[st["place"]["l"]] = place(rv["place"])
                    elif rv["k"] == "binop" and rv["op"] == "Eq" and rv["l"].get("k") in ("copy", "move") and rv["r"].get("k") in ("copy", "move"):
                        a_, b_ = place(rv["l"]["place"]), place(rv["r"]["place"])
                        val[st["place"]["l"]] = ("eq", a_, b_)
                    else:
                        okc = False
                        break
                r0 = val.get(0)
                if okc and r0 and r0[0] == "eq" and r0[1] and r0[2]:
                    sides = {r0[1][0]: r0[1][1], r0[2][0]: r0[2][1]}
                    if set(sides) == {"row", "up"} and len(sides["up"]) == 1:
                        res = (tuple(sides["row"]), sides["up"][0])
        except Exception:
            res = None
        self._eq_shapes[ck] = res
        return res

    def call(self, key, args, depth=0):
        mk = (key, tuple(args))
        if mk in self.memo:
            return self.memo[mk]
        if depth > 8 or key not in self.prog.fns:
            return None
        b = self.prog.body(key)
        env = {}
        for i, a in enumerate(args):
            env[i + 1] = a
        res = self._run(b, env, depth)
        self.memo[mk] = res
        return res

    def _run(self, b, env, depth):
        bb = 0
        steps = 0
        res = None
        while steps < 4000:
            steps += 1
            blk = b.blocks[bb]
            ok = True
            for s in blk["stmts"]:
                if s["k"] != "assign":
                    continue
                v = self._rv(b, s["rv"], env, depth)
                if v is None:
                    ok = False
                    break
                if s["place"]["p"]:
                    ok = False
                    break
                env[s["place"]["l"]] = v
            if not ok:
                res = None
                break
            t = blk["term"]
            k = t["k"]
            if k == "return":
                res = env.get(0)
                break
            if k == "goto":
                bb = t["target"]
                continue
            if k == "switch":
                d = self._op(b, t["discr"], env, depth)
                if d is None or isinstance(d, tuple):
                    res = None
                    break
                d = int(d)
                tid = id(t)
                if tid not in self._sw:
                    self._sw[tid] = {v: tb for v, tb in t["targets"]}
                bb = self._sw[tid].get(d, t["otherwise"])
                continue
            if k == "call":
                name = callee_name(t)
                av = [self._op(b, a, env, depth) for a in t["args"]]
                r = None
                if t.get("target") is None and ("panic" in name or "unwrap_failed" in name or "expect_failed" in name):
                    res = ("diverges", name)
                    break
                r = self._std_call(name, av, depth)
                if r is not None:
                    pass
                elif name.endswith("str>::contains") and len(av) == 2 and isinstance(av[0], tuple) and av[0][0] == "str" and isinstance(av[1], int):
                    r = chr(av[1]) in av[0][1]
                elif name.endswith("[T]>::contains") and len(av) == 2 and isinstance(av[0], tuple) and av[0][0] == "arr" and isinstance(av[1], int):
                    r = av[1] in av[0][1]
                elif name in self.prog.fns and self.prog.fns[name].get("kind") == "Closure" and len(av) == 2 \
                        and isinstance(av[1], tuple) and av[1] and av[1][0] == "tuple":
                    # a call of a local closure (resolved to its body): environment = its captures, parameters = the argument tuple spread out
                    # (a closure reached through a capture of an unknown environment can still be run when it captures nothing itself)
                    if isinstance(av[0], tuple) and av[0] and av[0][0] == "closure":
                        r = self.call(name, [("tuple", av[0][2])] + list(av[1][1]), depth + 1)
                    else:
                        r = self.call(name, [("tuple", ())] + list(av[1][1]), depth + 1)
                elif name in self.prog.fns and all(a is not None for a in av):
                    r = self.call(name, av, depth + 1)
                elif (name.endswith("::eq") or name.endswith("::ne")) and len(av) == 2 and all(isinstance(a, (int, bool)) for a in av):
                    r = (av[0] == av[1]) if name.endswith("::eq") else (av[0] != av[1])
                if r is None or t.get("target") is None or t["dest"]["p"]:
                    res = None
                    break
                env[t["dest"]["l"]] = r
                bb = t["target"]
                continue
            if k == "drop" and t.get("target") is not None:
                bb = t["target"]
                continue
            if k == "assert":
                c = self._op(b, t["cond"], env, depth)
                if not isinstance(c, (bool, int)) or isinstance(c, tuple):
                    res = None
                    break
                if bool(c) == bool(t["expected"]):
                    bb = t["target"]
                    continue
                res = ("diverges", "assert:" + str(t.get("kind")))
                break
            res = None
            break
        return res

    def _std_call(self, name, av, depth):
        """Option combinators over evaluated values; closures are ('closure', key, upvars)."""
        def is_opt(v):
            return isinstance(v, tuple) and v and v[0] in ("some", "none")

        def call_clo(c, args):
            if not (isinstance(c, tuple) and c and c[0] == "closure"):
                if isinstance(c, tuple) and c and c[0] == "fn":
                    return self.call(c[1], list(args), depth + 1)
                return None
            return self.call(c[1], [("tuple", c[2])] + list(args), depth + 1)
        if not av or any(a is None for a in av):
            return None
        # a local closure called directly: `let has = |mask| (m & mask) == mask; has(SHIFT)` is Fn::call(&has, (SHIFT,))
        if name.rsplit("::", 1)[-1] in ("call", "call_mut", "call_once") and "Fn" in name and len(av) == 2 \
                and isinstance(av[0], tuple) and av[0] and av[0][0] == "closure" and isinstance(av[1], tuple) and av[1] and av[1][0] == "tuple":
            return call_clo(av[0], list(av[1][1]))

        def is_seq(v):
            return isinstance(v, tuple) and v and v[0] in ("arr", "iter")
        # constant tables: `TABLE.iter().find(|row| …)` and friends, evaluated row by row
        if (name.endswith("[T]>::iter") or name.endswith("IntoIterator>::into_iter") or name.endswith("IntoIterator::into_iter")
                or name.endswith("Iterator>::copied") or name.endswith("Iterator::copied") or name.endswith("Iterator>::cloned")
                or name.endswith("Iterator::cloned")) and len(av) == 1 and is_seq(av[0]):
            return ("iter", av[0][1])
        short = name.rsplit("::", 1)[-1]
        if ("Iterator" in name) and short in ("find", "any", "position") and len(av) == 2 and is_seq(av[0]) \
                and isinstance(av[1], tuple) and av[1] and av[1][0] == "closure":
            # fast path: the closure is `|row| row.<proj> == <captured scalar>` — answered from an index of the constant table
            shape = self._eq_closure_shape(av[1][1])
            if shape is not None:
                proj, up = shape
                if up < len(av[1][2]) and isinstance(av[1][2][up], int):
                    ik = (id(av[0][1]), proj)
                    idx = self._seq_index.get(ik)
                    if idx is None:
                        idx = {}
                        okidx = True
                        for i, row in enumerate(av[0][1]):
                            v = row
                            for f_ in proj:
                                if isinstance(v, tuple) and v and v[0] == "tuple" and f_ < len(v[1]):
                                    v = v[1][f_]
                                else:
                                    okidx = False
                                    break
                            if not okidx or not isinstance(v, int):
                                okidx = False
                                break
                            idx.setdefault(v, i)
                        idx = idx if okidx else False
                        self._seq_index[ik] = idx
                        self._seq_keep.append(av[0][1])          # keep the table alive so that its id stays unique
                    if idx is not False:
                        hit = idx.get(int(av[1][2][up]))
                        if short == "any":
                            return hit is not None
                        if hit is None:
                            return ("none",)
                        return ("some", av[0][1][hit]) if short == "find" else ("some", hit)
        if ("Iterator" in name) and short in ("find", "any", "all", "position", "find_map") and len(av) == 2 and is_seq(av[0]):
            for i, x in enumerate(av[0][1]):
                r = call_clo(av[1], [x])
                if r is None:
                    return None
                if short == "find" and r is True:
                    return ("some", x)
                if short == "position" and r is True:
                    return ("some", i)
                if short == "any" and r is True:
                    return True
                if short == "all" and r is False:
                    return False
                if short == "find_map":
                    if not is_opt(r):
                        return None
                    if r[0] == "some":
                        return r
            return {"find": ("none",), "position": ("none",), "find_map": ("none",), "any": False, "all": True}[short]
        if name.endswith("Option::<T>::or_else") and is_opt(av[0]):
            return av[0] if av[0][0] == "some" else call_clo(av[1], [])
        if name.endswith("Option::<T>::or") and is_opt(av[0]) and is_opt(av[1]):
            return av[0] if av[0][0] == "some" else av[1]
        if name.endswith("Option::<T>::map") and is_opt(av[0]):
            if av[0][0] == "none":
                return ("none",)
            r = call_clo(av[1], [av[0][1]])
            return None if r is None else ("some", r)
        if name.endswith("Option::<T>::and_then") and is_opt(av[0]):
            return ("none",) if av[0][0] == "none" else call_clo(av[1], [av[0][1]])
        if name.endswith("Option::<T>::filter") and is_opt(av[0]):
            if av[0][0] == "none":
                return ("none",)
            r = call_clo(av[1], [av[0][1]])
            return None if r is None else (av[0] if r else ("none",))
        if name.endswith("Option::<T>::is_some") and is_opt(av[0]):
            return av[0][0] == "some"
        if name.endswith("Option::<T>::is_none") and is_opt(av[0]):
            return av[0][0] == "none"
        if (name.endswith("Option::<T>::unwrap_or") or name.endswith("Option::<T>::unwrap_or_default")) and is_opt(av[0]):
            if av[0][0] == "some":
                return av[0][1]
            return av[1] if len(av) > 1 else 0
        if name.endswith("Option::<&T>::copied") or name.endswith("Option::<&T>::cloned"):
            return av[0] if is_opt(av[0]) else None
        if name.endswith("::clone") and len(av) == 1:
            return av[0]
        if name.endswith("char::methods::<impl char>::is_ascii") and isinstance(av[0], int):
            return av[0] < 0x80
        if (name in ("<char as std::convert::From<u8>>::from", "<u32 as std::convert::From<char>>::from", "<u32 as std::convert::From<u8>>::from",
                     "<u32 as std::convert::From<u16>>::from", "<u16 as std::convert::From<u8>>::from")
                or name.endswith("<impl std::convert::From<u8> for char>::from") or name.endswith("<impl std::convert::From<char> for u32>::from")) \
                and len(av) == 1 and isinstance(av[0], int) and not isinstance(av[0], bool):
            return av[0]
        if name.endswith("char::methods::<impl char>::from_u32") and len(av) == 1 and isinstance(av[0], int) and not isinstance(av[0], bool):
            return ("some", av[0]) if (0 <= av[0] < 0xD800 or 0xE000 <= av[0] < 0x110000) else ("none",)
        return None

    def _conv(self, j):
        """factgen's structured constant (arrays / tuples of scalars) as an evaluated value."""
        if isinstance(j, (bool, int)):
            return j
        if isinstance(j, dict):
            if "cp" in j:
                return j["cp"]
            if "tuple" in j:
                xs = [self._conv(x) for x in j["tuple"]]
                return None if any(x is None for x in xs) else ("tuple", tuple(xs))
            if "array" in j:
                xs = [self._conv(x) for x in j["array"]]
                return None if any(x is None for x in xs) else ("arr", tuple(xs))
        return None

    def _op(self, b, op, env, depth=0):
        if op["k"] == "const":
            if "fn" in op:
                p_ = op["fn"].get("resolved") or op["fn"]["path"]
                return ("fn", p_) if p_ in self.prog.fns else None
            if "cp" in op:
                return op["cp"]
            if "bool" in op:
                return bool(op["bool"])
            if "int" in op:
                return op["int"]
            if "str" in op:
                return ("str", op["str"])
            if "array" in op:
                return ("arr", tuple((x.get("cp") if isinstance(x, dict) else x) for x in op["array"]))
            if "value" in op:
                return self._conv(op["value"])
            if "promoted" in op:
                pb = b.promoted_body(op["promoted"])
                if pb is not None:
                    e = pb.expr_local(0)
                    while e.k in ("ref", "deref"):
                        e = e.a[0]
                    if e.k == "const":
                        if e.a[0][0] == "str":
                            return ("str", e.a[0][1])
                        if e.a[0][0] == "array":
                            return ("arr", e.a[0][1])
                        if e.a[0][0] in ("char", "int", "bool"):
                            v = e.a[0][1]
                            return ord(v) if isinstance(v, str) else v
                    if e.k == "agg" and e.a[0] in ("array",):
                        vals = []
                        for x in e.a[1]:
                            while x.k in ("ref", "deref"):
                                x = x.a[0]
                            if x.k != "const" or x.a[0][0] not in ("char", "int"):
                                vals = None
                                break
                            vals.append(ord(x.a[0][1]) if isinstance(x.a[0][1], str) else x.a[0][1])
                        if vals is not None:
                            return ("arr", tuple(vals))
                    if depth <= 8:
                        return self._run(pb, {}, depth + 1)      # a promoted constant expression: evaluate its own body
            return None
        return self._place(op["place"], env)

    def _place(self, p, env):
        v = env.get(p["l"])
        for el in p["p"]:
            if el == "*":
                continue            # refs of scalars are modelled by value
            if isinstance(el, dict) and "f" in el and isinstance(v, tuple) and v and v[0] == "tuple" and el["f"] < len(v[1]):
                v = v[1][el["f"]]
                continue
            if isinstance(el, dict) and "dc" in el and isinstance(v, tuple) and v and v[0] in ("some", "none"):
                if (el.get("n") == "Some") != (v[0] == "some"):
                    return None
                v = ("tuple", (v[1],)) if v[0] == "some" else ("tuple", ())
                continue
            if isinstance(el, dict) and "f" in el and isinstance(v, tuple) and v and v[0] in ("env", "unknown"):
                v = ("unknown",)        # a capture of an environment the caller did not supply: usable only where its value does not matter
                continue
            return None
        return v

    def _rv(self, b, rv, env, depth=0):
        k = rv["k"]
        if k == "use":
            return self._op(b, rv["op"], env, depth)
        if k == "ref":
            return self._place(rv["place"], env)
        if k == "binop":
            l, r = self._op(b, rv["l"], env), self._op(b, rv["r"], env)
            if l is None or r is None or isinstance(l, tuple) or isinstance(r, tuple):
                return None
            op = rv["op"]
            if op == "Eq":
                return l == r
            if op == "Ne":
                return l != r
            if op == "Lt":
                return l < r
            if op == "Le":
                return l <= r
            if op == "Gt":
                return l > r
            if op == "Ge":
                return l >= r
            if op == "BitAnd":
                return (l and r) if isinstance(l, bool) else (l & r)
            if op == "BitOr":
                return (l or r) if isinstance(l, bool) else (l | r)
            base = op[:-len("WithOverflow")] if op.endswith("WithOverflow") else op
            if base in ("Add", "Sub", "Mul") and not isinstance(l, bool) and not isinstance(r, bool):
                # fixed-width unsigned arithmetic (the operand type is in the facts); anything else is not evaluated
                ty = (rv["l"].get("place") or {}).get("ty") or rv["l"].get("ty") or (rv["r"].get("place") or {}).get("ty") or rv["r"].get("ty")
                bits = _UINT_BITS.get(ty)
                if bits is None:
                    return None
                exact = l + r if base == "Add" else (l - r if base == "Sub" else l * r)
                wrapped = exact % (1 << bits)
                if op.endswith("WithOverflow"):
                    return ("tuple", (wrapped, wrapped != exact))
                return wrapped if wrapped == exact else None       # a plain op that overflows panics in debug builds
            return None
        if k == "unop" and rv["op"] == "Not":
            x = self._op(b, rv["x"], env)
            return None if x is None else (not x)
        if k == "cast":
            v = self._op(b, rv["op"], env)
            if rv.get("kind") == "IntToInt" and isinstance(v, int) and not isinstance(v, bool):
                bits = _UINT_BITS.get(rv.get("ty"))
                if bits is not None:
                    return v % (1 << bits)
                if rv.get("ty") != "char" and v < 0:
                    return None
            return v
        if k == "discr":
            v = self._place(rv["place"], env)
            if isinstance(v, tuple) and v and v[0] in ("some", "none"):
                return 1 if v[0] == "some" else 0
            if isinstance(v, tuple) and v and v[0] == "variant":
                return v[1]
            return None
        if k == "aggregate":
            ops = [self._op(b, o, env) for o in rv["ops"]]
            if any(o is None for o in ops):
                return None
            if rv["agg"] == "tuple":
                return ("tuple", tuple(ops))
            if rv["agg"] == "array":
                return ("arr", tuple(ops))
            if rv["agg"] == "adt" and rv["adt"].endswith("option::Option"):
                return ("some", ops[0]) if rv["variant"] == "Some" else ("none",)
            if rv["agg"] == "closure":
                return ("closure", rv["closure"], tuple(ops))
            if rv["agg"] == "adt" and not rv["ops"] and "vidx" in rv and not str(rv.get("adt", "")).startswith(("std::", "core::")):
                return ("variant", rv["vidx"])          # a field-less variant of a crate enum (a class named by an enum): its index
            return None
        return None

    def char_set(self, key, domain):
        """{chars c in domain with key(c) == True}; None if any evaluation is undecidable."""
        out = set()
        for c in domain:
            r = self.call(key, [ord(c)])
            if r is None:
                return None
            if r is True:
                out.add(c)
        return out


_UINT_BITS = {"u8": 8, "u16": 16, "u32": 32, "u64": 64, "usize": 64}


BENGALI_DOMAIN = [chr(c) for c in range(0x0980, 0x0A00)] + ["‌", "‍", "a", "Z", "0", " ", ".", "।", "॥"]


# ---------------------------------------------------------------------------
# path enumeration with on-the-fly evaluation and pruning of decided branches

ORDERING_SWITCHES = [False]     # set by a reader that compares known values with `_kv_in` (sym_paths does)


def _kv_in(kv, vals):
    """A known value among switch values; a negative value (Ordering::Less = −1) is met in whatever width its bit pattern was written."""
    if kv in vals:
        return True
    return kv < 0 and any(v in (kv & 0xFF, kv & 0xFFFF, kv & 0xFFFFFFFF, kv & (2 ** 64 - 1), kv & (2 ** 128 - 1)) for v in vals)


def known_switch_value(e):
    """If the switch discriminant E has a statically known value: that integer, else None."""
    e = strip_refs(e)
    if e.k == "discr":
        o_ = strip_refs(e.a[0])
        if o_.k == "agg" and isinstance(o_.t, dict) and o_.t.get("adt") == "std::cmp::Ordering" and o_.t.get("variant") in ("Less", "Equal", "Greater") \
                and ORDERING_SWITCHES[0]:
            return {"Less": -1, "Equal": 0, "Greater": 1}[o_.t["variant"]]
    if e.k == "const" and e.a[0][0] in ("int", "bool"):
        return int(e.a[0][1])
    if e.k == "const" and e.a[0][0] == "char":
        return ord(e.a[0][1])
    if e.k == "discr":
        x = strip_refs(e.a[0])
        if x.k == "agg" and x.t is not None and "vidx" in x.t and x.t.get("adt") != "std::cmp::Ordering":    # (Ordering's discriminants are −1, 0, 1)
            return x.t["vidx"]
    if e.k == "un" and e.a[0] == "Not":
        v = known_switch_value(e.a[1])
        return None if v is None else int(not v)
    if e.k == "bin" and e.a[0] in ("Eq", "Ne"):
        # `discriminant(<a literal Ordering>) == 0`: Equal is 0 (the other two are ∓1 in a width-dependent encoding, never compared here)
        for x_, y_ in ((e.a[1], e.a[2]), (e.a[2], e.a[1])):
            x_, y_ = strip_refs(x_), strip_refs(y_)
            if x_.k == "discr" and y_.k == "const" and y_.a[0][0] == "int" and int(y_.a[0][1]) == 0:
                o_ = strip_refs(x_.a[0])
                if o_.k == "agg" and isinstance(o_.t, dict) and o_.t.get("adt") == "std::cmp::Ordering" and "variant" in o_.t:
                    return int((o_.t["variant"] == "Equal") == (e.a[0] == "Eq"))
    if e.k == "bin" and e.a[0] in ("Eq", "Ne", "Lt", "Le", "Gt", "Ge"):
        l, r = known_switch_value(e.a[1]), known_switch_value(e.a[2])
        if l is not None and r is not None:
            return int({"Eq": l == r, "Ne": l != r, "Lt": l < r, "Le": l <= r, "Gt": l > r, "Ge": l >= r}[e.a[0]])
    if e.k == "bin" and e.a[0] in ("BitAnd", "BitOr"):
        l, r = known_switch_value(e.a[1]), known_switch_value(e.a[2])
        if l is not None and r is not None and l in (0, 1) and r in (0, 1):
            return (l & r) if e.a[0] == "BitAnd" else (l | r)
    if e.k == "cast":
        return known_switch_value(e.a[1])
    return None


def sym_paths(body, start=0, limit=20000, env=None, stops=()):
    """Acyclic normal paths start..return with the environment evaluated along the way; branches whose
    discriminant is statically known on the path are not split.  Yields (path [(bb, vals|None)], env, conds)
    with conds = [(discr E, vals, all_values, ty, bb)].  Raises PathLimit on loops / too many paths."""
    out = []

    def rec(b, path, env, conds, onpath):
        if len(out) > limit:
            raise PathLimit("too many paths")
        if b in stops and path:
            out.append((path + [(b, None)], env, conds))
            return
        if b in onpath:
            raise PathLimit("loop")
        env = body.eval_path([b], env)
        t = body.blocks[b]["term"]
        k = t["k"]
        if k == "return":
            out.append((path + [(b, None)], env, conds))
            return
        if k == "switch":
            d = body.expr_operand(t["discr"], 0, env)
            ORDERING_SWITCHES[0] = True
            try:
                kv = known_switch_value(d)
            finally:
                ORDERING_SWITCHES[0] = False
            allv = tuple(v for v, _ in t["targets"])
            for (node, vals, tgt) in body.switch_edges(b):
                if kv is not None:
                    take = _kv_in(kv, vals) if vals != "otherwise" else (not _kv_in(kv, allv))
                    if not take:
                        continue
                    rec(tgt, path + [(b, vals)], env, conds, onpath | {b})
                else:
                    rec(tgt, path + [(b, vals)], env, conds + [(d, vals, allv, t["discr_ty"], b)], onpath | {b})
            return
        if k in ("goto", "call", "drop", "assert"):
            if t.get("target") is None:
                return
            rec(t["target"], path + [(b, None)], env, conds, onpath | {b})
            return
        return
    import sys
    sys.setrecursionlimit(max(10000, sys.getrecursionlimit()))
    rec(start, [], dict(env or {}), [], frozenset())
    return out
