"""Thorough tier: on top of the quick rules
  T1  the same fact extraction with `--features bench` (the only other cargo feature): product functions must have identical MIR;
  T2  type-level witnesses (compile_fail doctests with compiling twins) for the properties that have them;
  T3  checker validation: every seeded variant of this property in variants.json must make its rule fire, negative controls stay silent;
  T4  every stored seeded change (sub-agent written, /verif/seeded) that this property's check is recorded to catch is re-applied to a scratch
      copy and must still be caught.
Nothing of riti is executed in any of these."""
import hashlib
import json
import os
import shutil
import subprocess
import sys

from . import facts

VERIF = os.path.dirname(os.path.dirname(os.path.abspath(__file__)))
WITNESS_PROPS = {"C05": "ContextIsNotSync", "C19": "SuggestionOwnsItsData"}


def _hash_fn(f):
    m = dict(f["mir"])
    return hashlib.sha1(json.dumps(_strip_loc(m), sort_keys=True, ensure_ascii=False).encode()).hexdigest()


def _strip_loc(x):
    if isinstance(x, dict):
        return {k: _strip_loc(v) for k, v in x.items() if k not in ("loc", "snip")}
    if isinstance(x, list):
        return [_strip_loc(v) for v in x]
    return x


def run(ctx, pid):
    chk = ctx.check
    prog = ctx.prog
    # ---- T1
    t1 = chk.rule(pid + ".T1", "product functions are identical under the only other cargo feature (bench)",
                  "the verdicts hold for every build configuration of the library")
    if os.environ.get("VERIF_REPO"):
        t1.ok("skipped", "scratch copy: feature pass skipped")
    else:
        try:
            # `bench` only builds together with cfg(test) (the benchmarks use the test helpers), so the comparison build is
            # `cargo check --lib --profile test --features bench`; test and bench items are extra, product functions must not change.
            docs, info = facts.generate(features=("bench",), test_cfg=True)
            other = docs["riti"]["fns"]
            base = prog.fns
            diff = []
            for k, f in base.items():
                if k not in other:
                    diff.append(k + " (missing)")
                elif _hash_fn(f) != _hash_fn(other[k]):
                    diff.append(k)
            extra = [k for k in other if k not in base and "::benches::" not in k and "::tests::" not in k and "::test::" not in k
                     and "::triage" not in k and not k.endswith("_defaults") and "Default>::default" not in k and k != "main"
                     and "::seeded_demo" not in k]
            if diff or extra:
                t1.violation("bench", "functions differ under --features bench: %s %s" % (diff[:3], extra[:3]), None)
            else:
                t1.ok("bench", "%d functions with identical MIR; %d additional functions are benchmarks only" % (len(base), len(other) - len(base)))
        except facts.FactgenError as e:
            t1.undecidable("bench", "cannot analyse with --features bench: %s" % str(e)[:300])
    t1.floor(1, "bench pass")
    # ---- T2
    if pid in WITNESS_PROPS and not os.environ.get("VERIF_REPO"):
        t2 = chk.rule(pid + ".T2", "type-level witnesses: compile_fail doctests (with compiling twins)",
                      "the ownership / sharing bound is enforced by the type checker")
        wdir = os.path.join(VERIF, "witness")
        shutil.copy(os.path.join(facts.REPO, "Cargo.lock"), os.path.join(wdir, "Cargo.lock"))
        env = dict(os.environ, CARGO_NET_OFFLINE="true", CARGO_TARGET_DIR=os.path.join(VERIF, ".cache", "witness-target"))
        r = subprocess.run(["cargo", "+nightly", "test", "--doc", "--offline"], cwd=wdir, env=env, stdout=subprocess.PIPE, stderr=subprocess.STDOUT, text=True)
        lines = [ln for ln in r.stdout.splitlines() if ln.startswith("test src/lib.rs")]
        mine = [ln for ln in lines if WITNESS_PROPS[pid] in ln]
        if r.returncode != 0 or not mine:
            t2.violation("doctests", "witness doctests failed: %s" % r.stdout[-600:], None)
        else:
            for ln in mine:
                name = ln.split(" - ", 1)[1]
                if ln.rstrip().endswith("ok"):
                    t2.ok(name.rsplit(" ...", 1)[0], "compiled / failed to compile as required")
                else:
                    t2.violation(name, ln, None)
        t2.floor(2, "one compile_fail + its twin")
    # ---- T3
    vpath = os.path.join(VERIF, "variants.json")
    if os.path.exists(vpath) and not os.environ.get("VERIF_REPO"):
        vs = [v for v in json.load(open(vpath, encoding="utf-8")) if v["property"] == pid]
        if vs:
            t3 = chk.rule(pid + ".T3", "checker validation: seeded variants fire their rule, negative controls stay silent",
                          "(validates the checker, not the property)")
            env = dict(os.environ)
            env.pop("VERIF_TIER", None)
            r = subprocess.run([sys.executable, os.path.join(VERIF, "selftest.py"), "--only", pid, "--jobs", "8"], env=env, stdout=subprocess.PIPE,
                               stderr=subprocess.STDOUT, text=True)
            for ln in r.stdout.splitlines():
                parts = ln.split(None, 2)
                if len(parts) >= 2 and parts[0] in [v["id"] for v in vs]:
                    if parts[1] == "ok":
                        t3.ok(parts[0], parts[2][:160] if len(parts) > 2 else "")
                    elif parts[1] == "skipped":
                        t3.note("variant %s skipped: %s" % (parts[0], parts[2][:120] if len(parts) > 2 else ""))
                    else:
                        t3.violation(parts[0], "self-test: %s" % (parts[2][:300] if len(parts) > 2 else parts[1]), None)
            t3.floor(1, "at least one variant")
    # ---- T4
    rpath = os.path.join(VERIF, "seeded", "RESULTS.json")
    if os.path.exists(rpath) and not os.environ.get("VERIF_REPO"):
        res = json.load(open(rpath, encoding="utf-8"))
        # only the changes written against this property: a report another property's check happened to give for a change is
        # incidental (it often came from an idiom the reader did not know yet) and may rightly disappear when a reader improves
        mine = sorted(sid for sid, r in res.items() if r.get("property") == pid and pid in r.get("fired", {}) and r["fired"][pid])
        if mine:
            t4 = chk.rule(pid + ".T4", "stored seeded changes recorded as caught by this check are still caught",
                          "(validates the checker, not the property)")
            r = subprocess.run([sys.executable, os.path.join(VERIF, "seedtool.py"), "recheck", "--prop", pid, "--ids", ",".join(mine)],
                               stdout=subprocess.PIPE, stderr=subprocess.STDOUT, text=True)
            for ln in r.stdout.splitlines():
                parts = ln.split(None, 2)
                if len(parts) >= 2 and parts[0] in mine:
                    if parts[1] == "caught":
                        t4.ok(parts[0], parts[2][:160] if len(parts) > 2 else "")
                    elif parts[1] == "stale":
                        t4.note("%s no longer applies to the current tree" % parts[0])
                    else:
                        t4.violation(parts[0], "a seeded change this check used to catch is now missed", None)
            t4.floor(1, "at least one seeded change")
