"""MIR-level inlining of local helper functions (on the factgen JSON).

Many rules are statements about one function's control flow.  A maintainer who extracts a block into
a private helper (or splits a long function) does not change behaviour, so the rules look at the
function *with its non-role local callees spliced in*: callee blocks are appended with renamed locals,
arguments are bound by assignments, `return` becomes an assignment to the call's destination plus a
goto to the call's continuation.  Recursion and callees in the caller-supplied `stop` set stay calls.
Unwind edges are dropped (the rules ignore cleanup paths).  Nothing is executed."""
import copy

from .mir import Body, callee_name


def _is_place(o):
    return isinstance(o, dict) and "l" in o and "p" in o and isinstance(o.get("p"), list)


def _rename(o, off_l, off_b, off_p):
    """Deep-copy `o` shifting local ids, block ids and promoted indices."""
    if isinstance(o, list):
        return [_rename(x, off_l, off_b, off_p) for x in o]
    if not isinstance(o, dict):
        return o
    if _is_place(o):
        n = dict(o)
        n["l"] = o["l"] + off_l
        n["p"] = [({**e, "idx": e["idx"] + off_l} if isinstance(e, dict) and "idx" in e else e) for e in o["p"]]
        return n
    n = {}
    for k, v in o.items():
        if k in ("target", "otherwise") and isinstance(v, int):
            n[k] = v + off_b
        elif k == "unwind":
            n[k] = None
        elif k == "targets" and isinstance(v, list):
            n[k] = [[x[0], x[1] + off_b] for x in v]
        elif k == "promoted" and isinstance(v, int):
            n[k] = v + off_p
        elif k in ("callee", "loc"):
            n[k] = v
        else:
            n[k] = _rename(v, off_l, off_b, off_p)
    return n


def _split_top(inner):
    args, depth, cur = [], 0, ""
    for j, ch in enumerate(inner):
        if ch in "<({[":
            depth += 1
        elif ch in ")}]":
            depth -= 1
        elif ch == ">" and not (j > 0 and inner[j - 1] == "-"):
            depth -= 1
        if ch == "," and depth == 0:
            args.append(cur.strip())
            cur = ""
        else:
            cur += ch
    if cur.strip():
        args.append(cur.strip())
    return args


def _enum_args(ty):
    """('opt', [T]) / ('res', [T, E]) for Option<T> / Result<T, E> type strings."""
    for pre, kind in (("std::option::Option<", "opt"), ("std::result::Result<", "res")):
        if ty.startswith(pre) and ty.endswith(">"):
            return kind, _split_top(ty[len(pre):-1])
    return None, None


# std's documented definitions of the combinators, as (arm for variant 0, arm for variant 1);
# Option: variant 0 = None, 1 = Some(v);  Result: variant 0 = Ok(v), 1 = Err(e).
# arm := ("none",) | ("keep",) | ("val", X) | ("some", X) | ("ok", X) | ("err", X);  X := "payload" | ("call", arg index of the callable, takes payload?)
# | ("arg", index of a plain value argument)
COMBINATORS = {
    "std::option::Option::<T>::map": (("none",), ("some", ("call", 1, True))),
    "std::option::Option::<T>::and_then": (("none",), ("val", ("call", 1, True))),
    "std::option::Option::<T>::unwrap_or_else": (("val", ("call", 1, False)), ("val", "payload")),
    "std::option::Option::<T>::or_else": (("val", ("call", 1, False)), ("keep",)),
    "std::option::Option::<T>::map_or": (("val", ("arg", 1)), ("val", ("call", 2, True))),
    "std::option::Option::<T>::map_or_else": (("val", ("call", 1, False)), ("val", ("call", 2, True))),
    "std::option::Option::<T>::ok_or_else": (("err", ("call", 1, False)), ("ok", "payload")),
    "std::result::Result::<T, E>::map": (("ok", ("call", 1, True)), ("keep",)),
    "std::result::Result::<T, E>::map_err": (("keep",), ("err", ("call", 1, True))),
    "std::result::Result::<T, E>::and_then": (("val", ("call", 1, True)), ("keep",)),
    "std::result::Result::<T, E>::unwrap_or_else": (("val", "payload"), ("val", ("call", 1, True))),
    "std::result::Result::<T, E>::or_else": (("keep",), ("val", ("call", 1, True))),
    "std::result::Result::<T, E>::map_or": (("val", ("call", 2, True)), ("val", ("arg", 1))),
    "std::result::Result::<T, E>::map_or_else": (("val", ("call", 2, True)), ("val", ("call", 1, True))),
    "std::result::Result::<T, E>::ok": (("some", "payload"), ("none",)),
    "std::option::Option::<T>::filter": (("none",), ("filter", ("call", 1, "ref"))),
}
VARIANTS = {"opt": (("None", None), ("Some", "0")), "res": (("Ok", "0"), ("Err", "0"))}
ADT = {"opt": "std::option::Option", "res": "std::result::Result"}


def _closure_defs(m):
    """{local: closure key} for locals defined exactly once by a closure aggregate."""
    seen, out = {}, {}
    for b in m["blocks"]:
        for s in b["stmts"]:
            if s["k"] == "assign" and not s["place"]["p"]:
                l = s["place"]["l"]
                seen[l] = seen.get(l, 0) + 1
                if s["rv"]["k"] == "aggregate" and s["rv"].get("agg") == "closure":
                    out[l] = s["rv"]["closure"]
        t = b["term"]
        if t["k"] == "call" and not t["dest"]["p"]:
            seen[t["dest"]["l"]] = seen.get(t["dest"]["l"], 0) + 1
    return {l: k for l, k in out.items() if seen.get(l) == 1}


def desugar_combinators(m, prog=None):
    """Option / Result combinators whose callable is a function item or a closure created in this function are rewritten to the
    `match` they abbreviate (std's documented definitions, table COMBINATORS), the callable becoming an ordinary call that the
    inliner can splice in.  A helper passed by name, or a block moved into a closure handed to `map` / `and_then` / `unwrap_or_else`,
    is then seen like code written in place."""
    cdefs = _closure_defs(m)
    n0 = len(m["blocks"])
    for bi in range(n0):
        b = m["blocks"][bi]
        t = b["term"]
        if b.get("cleanup") or t["k"] != "call" or "callee" not in t or t.get("target") is None or t["dest"]["p"]:
            continue
        spec = COMBINATORS.get(t["callee"].get("path", ""))
        if spec is None or not t["args"] or t["args"][0]["k"] == "const" or t["args"][0]["place"]["p"]:
            continue
        sty = t["args"][0]["place"]["ty"]
        kind, targs = _enum_args(sty)
        if kind is None or (t["callee"]["path"].startswith("std::option") != (kind == "opt")):
            continue
        dty = t["dest"]["ty"]
        dkind, dargs = _enum_args(dty)
        loc = t.get("loc", {"file": "", "line": None})

        # every callable used must be resolvable
        def callable_of(ai):
            if ai >= len(t["args"]):
                return None
            op = t["args"][ai]
            if op["k"] == "const":
                return ("fn", op["fn"]) if "fn" in op else None
            if op["place"]["p"]:
                return None
            ck = cdefs.get(op["place"]["l"])
            if ck is None or prog is None or ck not in prog.fns:
                return None
            return ("closure", ck, op)
        ok = True
        for arm in spec:
            x = arm[1] if len(arm) > 1 else None
            if isinstance(x, tuple) and x[0] == "call" and callable_of(x[1]) is None:
                ok = False
            if isinstance(x, tuple) and x[0] == "arg" and x[1] >= len(t["args"]):
                ok = False
            if arm[0] in ("some", "ok", "err", "none", "filter") and dkind is None:
                ok = False
            if arm[0] == "keep" and dty != sty and not (dkind == kind):
                ok = False
        if not ok:
            continue
        L = len(m["locals"])
        l_s, l_d = L, L + 1
        m["locals"].extend([{"ty": sty, "mut": True}, {"ty": "isize", "mut": True}])
        b["stmts"].append({"k": "assign", "place": {"l": l_s, "p": [], "ty": sty}, "rv": {"k": "use", "op": t["args"][0]}, "loc": loc})
        b["stmts"].append({"k": "assign", "place": {"l": l_d, "p": [], "ty": "isize"}, "rv": {"k": "discr", "place": {"l": l_s, "p": [], "ty": sty}}, "loc": loc})
        arm_blocks = []
        for vi, arm in enumerate(spec):
            vname, vfield = VARIANTS[kind][vi]
            pty = targs[0] if (kind == "opt" or vi == 0) else (targs[1] if len(targs) > 1 else "?")
            stmts = []
            blocks_extra = []

            def payload_op():
                return {"k": "move", "place": {"l": l_s, "p": [{"dc": vi, "n": vname}, {"f": 0, "n": "0"}], "ty": pty}}

            def agg(adt_kind, variant, vidx, ops):
                return {"k": "aggregate", "agg": "adt", "adt": ADT[adt_kind], "variant": variant, "vidx": vidx, "fields": ["0"] if ops else [], "ops": ops}
            head = {"stmts": stmts, "term": None}
            x = arm[1] if len(arm) > 1 else None
            value_op = None
            call_term = None
            if x == "payload":
                value_op = payload_op()
            elif isinstance(x, tuple) and x[0] == "arg":
                value_op = t["args"][x[1]]
            elif isinstance(x, tuple) and x[0] == "call":
                cal = callable_of(x[1])
                # result type of the call
                if arm[0] == "val":
                    rty = dty
                elif arm[0] == "filter":
                    rty = "bool"
                elif arm[0] == "some":
                    rty = dargs[0]
                elif arm[0] == "ok":
                    rty = dargs[0]
                else:
                    rty = dargs[1] if len(dargs) > 1 else "?"
                l_r = len(m["locals"])
                m["locals"].append({"ty": rty, "mut": True})
                cargs = []
                if cal[0] == "closure":
                    ck, cop = cal[1], cal[2]
                    envty = prog.fns[ck]["mir"]["locals"][1]["ty"]
                    if envty.startswith("&"):
                        l_e = len(m["locals"])
                        m["locals"].append({"ty": envty, "mut": True})
                        stmts.append({"k": "assign", "place": {"l": l_e, "p": [], "ty": envty},
                                      "rv": {"k": "ref", "mut": envty.startswith("&mut "), "place": {"l": cop["place"]["l"], "p": [], "ty": cop["place"]["ty"]}}, "loc": loc})
                        cargs.append({"k": "move", "place": {"l": l_e, "p": [], "ty": envty}})
                    else:
                        cargs.append({"k": "move", "place": {"l": cop["place"]["l"], "p": [], "ty": cop["place"]["ty"]}})
                    callee = {"path": ck, "full": ck, "local": True, "name": "{closure}", "substs": [], "rkind": "item", "resolved": ck, "rlocal": True, "synth": True}
                    want_args = prog.fns[ck]["mir"]["arg_count"]
                else:
                    callee = dict(cal[1])
                    want_args = None
                if x[2] == "ref":
                    l_v = len(m["locals"])
                    m["locals"].append({"ty": "&" + pty, "mut": True})
                    stmts.append({"k": "assign", "place": {"l": l_v, "p": [], "ty": "&" + pty},
                                  "rv": {"k": "ref", "mut": False, "place": payload_op()["place"]}, "loc": loc})
                    cargs.append({"k": "move", "place": {"l": l_v, "p": [], "ty": "&" + pty}})
                elif x[2]:
                    l_v = len(m["locals"])
                    m["locals"].append({"ty": pty, "mut": True})
                    stmts.append({"k": "assign", "place": {"l": l_v, "p": [], "ty": pty}, "rv": {"k": "use", "op": payload_op()}, "loc": loc})
                    cargs.append({"k": "move", "place": {"l": l_v, "p": [], "ty": pty}})
                if want_args is not None and want_args != len(cargs):
                    ok = False
                    break
                call_term = {"k": "call", "callee": callee, "args": cargs, "dest": {"l": l_r, "p": [], "ty": rty}, "unwind": None, "loc": loc}
                value_op = {"k": "move", "place": {"l": l_r, "p": [], "ty": rty}}
            # final assignment to the destination
            if arm[0] == "none":
                fin = agg("opt", "None", 0, [])
            elif arm[0] == "keep":
                fin = {"k": "use", "op": {"k": "move", "place": {"l": l_s, "p": [], "ty": sty}}} if dty == sty else \
                    agg(kind, vname, vi, [payload_op()] if vfield is not None else [])
            elif arm[0] == "val":
                fin = {"k": "use", "op": value_op}
            elif arm[0] == "filter":
                fin = ("filter", value_op)
            elif arm[0] == "some":
                fin = agg("opt", "Some", 1, [value_op])
            elif arm[0] == "ok":
                fin = agg("res", "Ok", 0, [value_op])
            else:
                fin = agg("res", "Err", 1, [value_op])
            fin_stmt = {"k": "assign", "place": t["dest"], "rv": fin, "loc": loc}
            if isinstance(fin, tuple) and fin[0] == "filter":
                # keep the value when the predicate holds, None otherwise: two final blocks behind a bool switch
                fin_stmt = ("filter", fin[1],
                            {"k": "assign", "place": t["dest"], "rv": {"k": "use", "op": {"k": "move", "place": {"l": l_s, "p": [], "ty": sty}}}, "loc": loc},
                            {"k": "assign", "place": t["dest"], "rv": agg("opt", "None", 0, []), "loc": loc})
            arm_blocks.append((stmts, call_term, fin_stmt))
        if not ok or len(arm_blocks) != 2:
            # give up on this site: undo the two statements added (the locals stay unused)
            b["stmts"] = b["stmts"][:-2]
            continue
        ids = []
        for (stmts, call_term, fin_stmt) in arm_blocks:
            bid = len(m["blocks"])
            ids.append(bid)
            if call_term is None:
                m["blocks"].append({"stmts": stmts + [fin_stmt], "term": {"k": "goto", "target": t["target"]}})
            elif isinstance(fin_stmt, tuple):
                call_term["target"] = bid + 1
                m["blocks"].append({"stmts": stmts, "term": call_term})
                m["blocks"].append({"stmts": [], "term": {"k": "switch", "discr": fin_stmt[1], "discr_ty": "bool", "targets": [[0, bid + 3]], "otherwise": bid + 2, "loc": loc}})
                m["blocks"].append({"stmts": [fin_stmt[2]], "term": {"k": "goto", "target": t["target"]}})
                m["blocks"].append({"stmts": [fin_stmt[3]], "term": {"k": "goto", "target": t["target"]}})
            else:
                call_term["target"] = bid + 1
                m["blocks"].append({"stmts": stmts, "term": call_term})
                m["blocks"].append({"stmts": [fin_stmt], "term": {"k": "goto", "target": t["target"]}})
        b["term"] = {"k": "switch", "discr": {"k": "move", "place": {"l": l_d, "p": [], "ty": "isize"}}, "discr_ty": "isize",
                     "targets": [[0, ids[0]]], "otherwise": ids[1], "loc": loc}
    return m


def desugar_ordering_then(m, prog=None):
    """`a.then_with(|| b)` / `a.then(b)` on `Ordering` are `if a == Equal { b } else { a }` (std's definition): written out, the closure becoming an
    ordinary call the inliner can splice in.  The test is emitted as `discriminant(a) == 0` (Equal is 0 whatever the width)."""
    cdefs = _closure_defs(m)
    n0 = len(m["blocks"])
    done = 0
    for bi in range(n0):
        b = m["blocks"][bi]
        t = b["term"]
        if b.get("cleanup") or t["k"] != "call" or "callee" not in t or t.get("target") is None or t["dest"]["p"]:
            continue
        path = t["callee"].get("path", "")
        if path not in ("std::cmp::Ordering::then_with", "std::cmp::Ordering::then") or len(t["args"]) != 2:
            continue
        a0, a1 = t["args"]
        if a0["k"] == "const" or a0["place"]["p"]:
            continue
        loc = t.get("loc", {"file": "", "line": None})
        oty = "std::cmp::Ordering"
        call_term = None
        pre = []
        if path.endswith("then_with"):
            if a1["k"] == "const" or a1["place"]["p"]:
                continue
            ck = cdefs.get(a1["place"]["l"])
            if ck is None or prog is None or ck not in prog.fns or prog.fns[ck]["mir"]["arg_count"] != 1:
                continue
            envty = prog.fns[ck]["mir"]["locals"][1]["ty"]
            if envty.startswith("&"):
                l_e = len(m["locals"])
                m["locals"].append({"ty": envty, "mut": True})
                pre.append({"k": "assign", "place": {"l": l_e, "p": [], "ty": envty},
                            "rv": {"k": "ref", "mut": envty.startswith("&mut "), "place": {"l": a1["place"]["l"], "p": [], "ty": a1["place"]["ty"]}}, "loc": loc})
                carg = {"k": "move", "place": {"l": l_e, "p": [], "ty": envty}}
            else:
                carg = {"k": "move", "place": {"l": a1["place"]["l"], "p": [], "ty": a1["place"]["ty"]}}
            callee = {"path": ck, "full": ck, "local": True, "name": "{closure}", "substs": [], "rkind": "item", "resolved": ck, "rlocal": True, "synth": True}
            call_term = {"k": "call", "callee": callee, "args": [carg], "dest": t["dest"], "unwind": None, "loc": loc, "target": t["target"]}
        L = len(m["locals"])
        l_s, l_d, l_c = L, L + 1, L + 2
        m["locals"].extend([{"ty": oty, "mut": True}, {"ty": "isize", "mut": True}, {"ty": "bool", "mut": True}])
        b["stmts"].append({"k": "assign", "place": {"l": l_s, "p": [], "ty": oty}, "rv": {"k": "use", "op": a0}, "loc": loc})
        b["stmts"].append({"k": "assign", "place": {"l": l_d, "p": [], "ty": "isize"}, "rv": {"k": "discr", "place": {"l": l_s, "p": [], "ty": oty}}, "loc": loc})
        b["stmts"].append({"k": "assign", "place": {"l": l_c, "p": [], "ty": "bool"},
                           "rv": {"k": "binop", "op": "Eq", "l": {"k": "move", "place": {"l": l_d, "p": [], "ty": "isize"}}, "r": {"k": "const", "ty": "isize", "int": 0}},
                           "loc": loc})
        keep = len(m["blocks"])
        m["blocks"].append({"stmts": [{"k": "assign", "place": t["dest"], "rv": {"k": "use", "op": {"k": "move", "place": {"l": l_s, "p": [], "ty": oty}}}, "loc": loc}],
                            "term": {"k": "goto", "target": t["target"]}})
        other = len(m["blocks"])
        if call_term is not None:
            m["blocks"].append({"stmts": pre, "term": call_term})
        else:
            m["blocks"].append({"stmts": [{"k": "assign", "place": t["dest"], "rv": {"k": "use", "op": a1}, "loc": loc}], "term": {"k": "goto", "target": t["target"]}})
        b["term"] = {"k": "switch", "discr": {"k": "move", "place": {"l": l_c, "p": [], "ty": "bool"}}, "discr_ty": "bool",
                     "targets": [[0, keep]], "otherwise": other, "loc": loc}
        done += 1
    return done


LOOP_COMBINATORS = ("std::iter::Iterator::for_each", "std::iter::Iterator::find_map")


def has_for_each(m):
    return any(b["term"]["k"] == "call" and (b["term"].get("callee") or {}).get("path") in LOOP_COMBINATORS for b in m["blocks"])


def desugar_for_each(m, prog):
    """`iter.for_each(closure)` with a closure created in this function is rewritten to the loop it abbreviates
           loop { match iter.next() { Some(x) => closure(x), None => break } }
    (std's definition), the closure becoming an ordinary call that the inliner splices in; `a.chain(once(y)).for_each(f)` is
    `a.for_each(f); f(y)`.  A `for` loop turned into `for_each` (or back) is then the same program for every rule."""
    if not has_for_each(m):
        return
    cdefs = _closure_defs(m)
    defcall = {}
    for bi, b in enumerate(m["blocks"]):
        t = b["term"]
        if t["k"] == "call" and "callee" in t and not t["dest"]["p"]:
            defcall.setdefault(t["dest"]["l"], []).append(bi)

    def plain(op):
        return op["k"] != "const" and not op["place"]["p"]
    n0 = len(m["blocks"])
    for bi in range(n0):
        b = m["blocks"][bi]
        t = b["term"]
        if b.get("cleanup") or t["k"] != "call" or (t.get("callee") or {}).get("path") not in LOOP_COMBINATORS or t.get("target") is None \
                or len(t["args"]) != 2 or not plain(t["args"][0]) or not plain(t["args"][1]):
            continue
        is_find_map = t["callee"]["path"].endswith("::find_map")
        if is_find_map and t["dest"]["p"]:
            continue
        it_op, clo_op = t["args"]
        ck = cdefs.get(clo_op["place"]["l"])
        if ck is None or prog is None or ck not in prog.fns or prog.fns[ck]["mir"]["arg_count"] != 2:
            continue
        cm = prog.fns[ck]["mir"]
        envty, item_ty = cm["locals"][1]["ty"], cm["locals"][2]["ty"]
        if not envty.startswith("&"):
            continue                        # an FnOnce-style by-value environment cannot be called per element
        loc = t.get("loc", {"file": "", "line": None})
        srcs = [("iter", it_op)]
        dc = defcall.get(it_op["place"]["l"], [])
        if len(dc) == 1 and not is_find_map:
            ct = m["blocks"][dc[0]]["term"]
            if (ct.get("callee") or {}).get("path") == "std::iter::Iterator::chain" and len(ct["args"]) == 2 and plain(ct["args"][0]) and plain(ct["args"][1]) \
                    and ct.get("target") is not None:
                odc = defcall.get(ct["args"][1]["place"]["l"], [])
                if len(odc) == 1:
                    ot = m["blocks"][odc[0]]["term"]
                    if (ot.get("callee") or {}).get("path") == "std::iter::once" and len(ot["args"]) == 1 and ot.get("target") is not None:
                        srcs = [("iter", ct["args"][0]), ("once", ot["args"][0])]
                        m["blocks"][dc[0]]["term"] = {"k": "goto", "target": ct["target"], "loc": ct.get("loc")}
                        m["blocks"][odc[0]]["term"] = {"k": "goto", "target": ot["target"], "loc": ot.get("loc")}

        def new_local(ty):
            m["locals"].append({"ty": ty, "mut": True})
            return len(m["locals"]) - 1

        ret_ty = cm["locals"][0]["ty"]

        def closure_call(arg_op, target, dest_local=None):
            l_e = new_local(envty)
            l_u = new_local("()") if dest_local is None else dest_local
            stmts = [{"k": "assign", "place": {"l": l_e, "p": [], "ty": envty},
                      "rv": {"k": "ref", "mut": envty.startswith("&mut "), "place": {"l": clo_op["place"]["l"], "p": [], "ty": clo_op["place"]["ty"]}}, "loc": loc}]
            callee = {"path": ck, "full": ck, "local": True, "name": "{closure}", "substs": [], "rkind": "item", "resolved": ck, "rlocal": True, "synth": True}
            term = {"k": "call", "callee": callee, "args": [{"k": "move", "place": {"l": l_e, "p": [], "ty": envty}}, arg_op],
                    "dest": {"l": l_u, "p": [], "ty": "()" if dest_local is None else ret_ty}, "target": target, "unwind": None, "loc": loc}
            return stmts, term
        if is_find_map:
            # loop { match iter.next() { None => break None, Some(x) => if let Some(r) = closure(x) { break Some(r) } } }   (std's definition)
            if not ret_ty.startswith("std::option::Option<"):
                continue
            op = it_op
            ity = op["place"]["ty"]
            oty = "std::option::Option<%s>" % item_ty
            byref = ity.startswith("&mut ")          # find_map takes `&mut self`: the operand is already the reference next() wants
            nty = ity[5:] if byref else ity
            l_it, l_r, l_n, l_d, l_x, l_res, l_d2 = (new_local(ity), new_local("&mut " + nty), new_local(oty), new_local("isize"), new_local(item_ty),
                                                      new_local(ret_ty), new_local("isize"))
            h = len(m["blocks"])
            dest = t["dest"]
            entry = {"stmts": [{"k": "assign", "place": {"l": l_it, "p": [], "ty": ity}, "rv": {"k": "use", "op": op}, "loc": loc}],
                     "term": {"k": "goto", "target": h + 1}}
            reborrow = ({"k": "use", "op": {"k": "copy", "place": {"l": l_it, "p": [], "ty": ity}}} if byref
                        else {"k": "ref", "mut": True, "place": {"l": l_it, "p": [], "ty": ity}})
            head = {"stmts": [{"k": "assign", "place": {"l": l_r, "p": [], "ty": "&mut " + nty}, "rv": reborrow, "loc": loc}],
                    "term": {"k": "call", "callee": {"path": "std::iter::Iterator::next", "full": "<%s as std::iter::Iterator>::next" % nty, "local": False, "name": "next",
                                                     "substs": [nty], "trait": "std::iter::Iterator", "self_ty": nty, "rkind": "item",
                                                     "resolved": "<%s as std::iter::Iterator>::next" % nty, "rlocal": False},
                             "args": [{"k": "move", "place": {"l": l_r, "p": [], "ty": "&mut " + nty}}], "dest": {"l": l_n, "p": [], "ty": oty},
                             "target": h + 2, "unwind": None, "loc": loc}}
            test = {"stmts": [{"k": "assign", "place": {"l": l_d, "p": [], "ty": "isize"}, "rv": {"k": "discr", "place": {"l": l_n, "p": [], "ty": oty}}, "loc": loc}],
                    "term": {"k": "switch", "discr": {"k": "move", "place": {"l": l_d, "p": [], "ty": "isize"}}, "discr_ty": "isize", "targets": [[0, h + 5]], "otherwise": h + 3, "loc": loc}}
            stmts, term = closure_call({"k": "move", "place": {"l": l_x, "p": [], "ty": item_ty}}, h + 4, l_res)
            bodyb = {"stmts": [{"k": "assign", "place": {"l": l_x, "p": [], "ty": item_ty},
                                "rv": {"k": "use", "op": {"k": "move", "place": {"l": l_n, "p": [{"dc": 1, "n": "Some"}, {"f": 0, "n": "0"}], "ty": item_ty}}}, "loc": loc}] + stmts,
                     "term": term}
            test2 = {"stmts": [{"k": "assign", "place": {"l": l_d2, "p": [], "ty": "isize"}, "rv": {"k": "discr", "place": {"l": l_res, "p": [], "ty": ret_ty}}, "loc": loc}],
                     "term": {"k": "switch", "discr": {"k": "move", "place": {"l": l_d2, "p": [], "ty": "isize"}}, "discr_ty": "isize", "targets": [[0, h + 1]], "otherwise": h + 6, "loc": loc}}
            none_ = {"stmts": [{"k": "assign", "place": dest, "rv": {"k": "aggregate", "agg": "adt", "adt": "std::option::Option", "variant": "None", "vidx": 0, "fields": [], "ops": []}, "loc": loc}],
                     "term": {"k": "goto", "target": t["target"]}}
            some_ = {"stmts": [{"k": "assign", "place": dest, "rv": {"k": "use", "op": {"k": "move", "place": {"l": l_res, "p": [], "ty": ret_ty}}}, "loc": loc}],
                     "term": {"k": "goto", "target": t["target"]}}
            m["blocks"].extend([entry, head, test, bodyb, test2, none_, some_])
            b["term"] = {"k": "goto", "target": h, "loc": loc}
            continue
        # build from the last source backwards so that each knows where to continue
        nxt = t["target"]
        for kind, op in reversed(srcs):
            if kind == "once":
                stmts, term = closure_call(op, nxt)
                m["blocks"].append({"stmts": stmts, "term": term})
                nxt = len(m["blocks"]) - 1
            else:
                ity = op["place"]["ty"]
                l_it, l_r, l_n, l_d, l_x = new_local(ity), new_local("&mut " + ity), new_local("std::option::Option<%s>" % item_ty), new_local("isize"), new_local(item_ty)
                h = len(m["blocks"])
                # entry block: bind the iterator, jump to the head
                entry = {"stmts": [{"k": "assign", "place": {"l": l_it, "p": [], "ty": ity}, "rv": {"k": "use", "op": op}, "loc": loc}],
                         "term": {"k": "goto", "target": h + 1}}
                head = {"stmts": [{"k": "assign", "place": {"l": l_r, "p": [], "ty": "&mut " + ity}, "rv": {"k": "ref", "mut": True, "place": {"l": l_it, "p": [], "ty": ity}}, "loc": loc}],
                        "term": {"k": "call", "callee": {"path": "std::iter::Iterator::next", "full": "<%s as std::iter::Iterator>::next" % ity, "local": False, "name": "next",
                                                         "substs": [ity], "trait": "std::iter::Iterator", "self_ty": ity, "rkind": "item",
                                                         "resolved": "<%s as std::iter::Iterator>::next" % ity, "rlocal": False},
                                 "args": [{"k": "move", "place": {"l": l_r, "p": [], "ty": "&mut " + ity}}], "dest": {"l": l_n, "p": [], "ty": "std::option::Option<%s>" % item_ty},
                                 "target": h + 2, "unwind": None, "loc": loc}}
                test = {"stmts": [{"k": "assign", "place": {"l": l_d, "p": [], "ty": "isize"}, "rv": {"k": "discr", "place": {"l": l_n, "p": [], "ty": "std::option::Option<%s>" % item_ty}}, "loc": loc}],
                        "term": {"k": "switch", "discr": {"k": "move", "place": {"l": l_d, "p": [], "ty": "isize"}}, "discr_ty": "isize", "targets": [[0, nxt]], "otherwise": h + 3, "loc": loc}}
                stmts, term = closure_call({"k": "move", "place": {"l": l_x, "p": [], "ty": item_ty}}, h + 1)
                bodyb = {"stmts": [{"k": "assign", "place": {"l": l_x, "p": [], "ty": item_ty},
                                    "rv": {"k": "use", "op": {"k": "move", "place": {"l": l_n, "p": [{"dc": 1, "n": "Some"}, {"f": 0, "n": "0"}], "ty": item_ty}}}, "loc": loc}] + stmts,
                         "term": term}
                m["blocks"].extend([entry, head, test, bodyb])
                nxt = h
        b["term"] = {"k": "goto", "target": nxt, "loc": loc}


def desugar_ne(m, prog):
    """`a != b` on a crate type is the provided method `PartialEq::ne` = `!eq(a, b)`; written out so that the type's own `eq` can be spliced in."""
    for b in list(m["blocks"]):
        t = b["term"]
        if t["k"] != "call" or "callee" not in t or t.get("target") is None or t["dest"]["p"]:
            continue
        c = t["callee"]
        if c.get("path") != "std::cmp::PartialEq::ne" or len(t["args"]) != 2:
            continue
        st = c.get("self_ty") or ""
        eq = "<%s as std::cmp::PartialEq>::eq" % st
        if eq not in prog.fns:
            continue
        tmp = len(m["locals"])
        m["locals"].append({"ty": "bool", "mut": True})
        nb = len(m["blocks"])
        c2 = dict(c)
        c2.update({"path": "std::cmp::PartialEq::eq", "name": "eq", "resolved": eq, "rlocal": True, "rkind": "item", "full": eq})
        m["blocks"].append({"stmts": [{"k": "assign", "place": t["dest"], "rv": {"k": "unop", "op": "Not", "x": {"k": "move", "place": {"l": tmp, "p": [], "ty": "bool"}}},
                                       "loc": t.get("loc", {"line": None, "file": ""})}],
                            "term": {"k": "goto", "target": t["target"]}})
        t["callee"] = c2
        t["dest"] = {"l": tmp, "p": [], "ty": "bool"}
        t["target"] = nb


def inline_mir(prog, key, stop, maxdepth=4, _stack=(), max_blocks=6000, max_callee_blocks=None, desugar=True):
    """Returns (mir dict, promoted list, inlined callee keys)."""
    fn = prog.fns[key]
    m = copy.deepcopy(fn["mir"])
    prom = list(copy.deepcopy(fn.get("promoted") or []))
    inlined = []
    if desugar:
        desugar_combinators(m, prog)
        try:
            desugar_ordering_then(m, prog)
        except Exception:
            pass
        desugar_for_each(m, prog)
        desugar_ne(m, prog)
    # drop cleanup blocks' influence: keep them (ids must stay stable) but cut unwind edges
    for b in m["blocks"]:
        t = b["term"]
        if "unwind" in t:
            t["unwind"] = None
    i = 0
    while i < len(m["blocks"]):
        b = m["blocks"][i]
        t = b["term"]
        i += 1
        if b.get("cleanup") or t["k"] != "call" or "callee" not in t:
            continue
        c = t["callee"]
        if c.get("rkind") != "item":
            continue
        g = c.get("resolved") if c.get("resolved") in prog.fns else (c["path"] if c["path"] in prog.fns else None)
        if g is None or g == key or g in _stack or (stop(g) and not c.get("synth")) or len(_stack) >= maxdepth:
            continue
        gf = prog.fns[g]
        if gf.get("kind") == "Closure" and not c.get("synth"):
            continue
        if len(m["blocks"]) + len(gf["mir"]["blocks"]) > max_blocks:
            continue
        if max_callee_blocks is not None and len(gf["mir"]["blocks"]) > max_callee_blocks and not c.get("synth"):
            continue
        gm, gprom, ginl = inline_mir(prog, g, stop, maxdepth, _stack + (key,), max_blocks, max_callee_blocks, desugar)
        if len(t["args"]) != gm["arg_count"]:
            continue
        off_l = len(m["locals"])
        off_b = len(m["blocks"])
        off_p = len(prom)
        m["locals"].extend(copy.deepcopy(gm["locals"]))
        prom.extend(gprom)
        # bind arguments
        for ai, op in enumerate(t["args"]):
            b["stmts"].append({"k": "assign", "place": {"l": off_l + ai + 1, "p": [], "ty": gm["locals"][ai + 1]["ty"]},
                               "rv": {"k": "use", "op": op}, "loc": t.get("loc", {"line": None, "file": ""}), "inl": g})
        dest = t["dest"]
        cont = t.get("target")
        new_blocks = _rename(gm["blocks"], off_l, off_b, off_p)
        for nb in new_blocks:
            nt = nb["term"]
            if nt["k"] == "return" and not nb.get("cleanup"):
                nb["stmts"].append({"k": "assign", "place": dest, "rv": {"k": "use", "op": {"k": "move", "place": {"l": off_l, "p": [], "ty": gm["locals"][0]["ty"]}}},
                                    "loc": nt.get("loc", t.get("loc", {"line": None})), "inl": g})
                nb["term"] = {"k": "goto", "target": cont} if cont is not None else {"k": "unreachable"}
            nb.setdefault("inl", g)          # a block spliced in through g keeps the function it was written in
        m["blocks"].extend(new_blocks)
        for d in gm.get("debug", []):
            m["debug"].append(_rename(d, off_l, off_b, off_p))
        b["term"] = {"k": "goto", "target": off_b}
        inlined.append(g)
        inlined.extend(ginl)
    return m, prom, inlined


def prune_known_switches(fn, rounds=3):
    """After splicing a helper in, an argument that is a literal at the call site (`helper(x, Side::Left)`) makes the helper's `match` on it
    a branch with a known outcome; the arms that cannot be taken are cut so that flow-insensitive readers do not merge their values in.
    A switch is folded only when its discriminant is a constant / the variant of a literal aggregate whatever path reaches it."""
    from .analyses import known_switch_value
    cut = 0
    for _ in range(rounds):
        b = Body(fn)
        changed = False
        for i in b.rblocks:
            t = b.blocks[i]["term"]
            if t["k"] != "switch":
                continue
            try:
                d = b.expr_operand(t["discr"])
            except Exception:
                continue
            v = known_switch_value(d)
            if v is None:
                continue
            tgt = None
            for val, tb in t["targets"]:
                if val == v:
                    tgt = tb
            if tgt is None:
                tgt = t["otherwise"]
            b.blocks[i]["term"] = {"k": "goto", "target": tgt, "pruned_switch": True, "loc": t.get("loc")}
            cut += 1
            changed = True
        if not changed:
            break
    return cut


def inlined_body(prog, key, stop=lambda k: False, maxdepth=4, max_callee_blocks=None):
    """Body of `key` with its local, non-stopped callees inlined.  The synthetic function keeps key, name and location."""
    ck = ("inl", key, id(stop))
    m, prom, inl = inline_mir(prog, key, stop, maxdepth, max_callee_blocks=max_callee_blocks)
    from .sroa import scalarise
    split = scalarise(m, prog)
    fn = dict(prog.fns[key])
    fn["scalarised"] = split
    if inl:
        fn["mir"] = m
        fn["promoted"] = prom
        fn["pruned_switches"] = prune_known_switches(fn)
    fn["mir"] = m
    fn["promoted"] = prom
    fn["inlined"] = sorted(set(inl))
    return Body(fn)


def thread_variant_joins(m, local_enums, max_chain=6):
    """Jump threading over a spliced stage that answers with a private enum: the stage's arms build `Answer::A(..)`, `Answer::B(..)` and
    meet in a join, and the caller at once matches on the answer.  Every path that builds the answer with a literal variant and reaches
    the match through straight `goto` blocks (which only move the answer along) gets a copy of those blocks ending in a jump to the
    arm of that variant — the program is unchanged (the match's outcome on such a path is the variant just built), and the arm that consumes
    an answer is dominated again by the look-up that produced it.  Only enums of the crate without explicit discriminants
    (`local_enums`); returns the number of paths threaded."""
    import copy
    blocks = m["blocks"]
    total = 0
    for _round in range(4):
        n_ = _thread_round(blocks, local_enums, max_chain)
        total += n_
        if not n_:
            break
    return total


def _thread_round(blocks, local_enums, max_chain):
    import copy
    preds = {}
    for i, b in enumerate(blocks):
        t = b["term"]
        if t["k"] == "goto":
            preds.setdefault(t["target"], []).append(i)

    def writes(st, l):
        return st["k"] == "assign" and st["place"]["l"] == l

    def borrows_mut(st, l):
        return st["k"] == "assign" and st["rv"]["k"] == "ref" and st["rv"].get("mut") and st["rv"]["place"]["l"] == l

    def back(stmts, tracked):
        """Scan statements backwards: ('variant', vidx) | ('open', tracked') | None (give up)."""
        for st in reversed(stmts):
            if borrows_mut(st, tracked):
                return None
            if not writes(st, tracked):
                continue
            if st["place"]["p"]:
                return None
            rv = st["rv"]
            if rv["k"] == "aggregate" and rv.get("agg") == "adt" and rv.get("adt") in local_enums and "vidx" in rv:
                return ("variant", rv["vidx"])
            src = rv.get("op") if rv["k"] == "use" or (rv["k"] == "cast" and rv.get("kind") == "Subtype") else None
            if src is None or src["k"] not in ("move", "copy") or src["place"]["p"]:
                return None
            tracked = src["place"]["l"]
        return ("open", tracked)

    threaded = 0
    for s_idx in range(len(blocks)):
        S = blocks[s_idx]
        t = S["term"]
        if t["k"] != "switch" or t["discr"]["k"] == "const" or t["discr"]["place"]["p"]:
            continue
        dl = t["discr"]["place"]["l"]
        dpos = [j for j, st in enumerate(S["stmts"]) if writes(st, dl)]
        if len(dpos) != 1 or S["stmts"][dpos[0]]["rv"]["k"] != "discr" or S["stmts"][dpos[0]]["rv"]["place"]["p"]:
            continue
        if any(writes(st, dl) for j, b in enumerate(blocks) if j != s_idx for st in b["stmts"]):
            continue
        r0 = back(S["stmts"][:dpos[0]], S["stmts"][dpos[0]]["rv"]["place"]["l"])
        if r0 is None or r0[0] != "open":
            continue
        # chains P → B1 → … → S of goto blocks
        work = [([s_idx], r0[1])]
        found = []
        while work:
            chain, tracked = work.pop()
            if len(chain) > max_chain:
                continue
            for p in preds.get(chain[0], []):
                if p in chain:
                    continue
                r = back(blocks[p]["stmts"], tracked)
                if r is None:
                    continue
                if r[0] == "variant":
                    found.append((p, chain, r[1]))
                else:
                    work.append(([p] + chain, r[1]))
        for (p, chain, vidx) in found:
            tgt = None
            for val, tb in t["targets"]:
                if val == vidx:
                    tgt = tb
            if tgt is None:
                tgt = t.get("otherwise")
            if tgt is None:
                continue
            nxt = tgt
            for c in reversed(chain):
                nb = {"stmts": copy.deepcopy(blocks[c]["stmts"]), "term": {"k": "goto", "target": nxt, "threaded": True, "loc": blocks[c]["term"].get("loc")}}
                for k_ in blocks[c]:
                    if k_ not in nb:
                        nb[k_] = copy.deepcopy(blocks[c][k_])
                blocks.append(nb)
                nxt = len(blocks) - 1
            blocks[p]["term"] = dict(blocks[p]["term"], target=nxt)
            threaded += 1
    return threaded
