"""MIR-level inlining of local helper functions (on the factgen JSON).

Many rules are statements about one function's control flow.  A maintainer who extracts a block into
a private helper (or splits a long function) does not change behaviour, so the rules look at the
function *with its non-role local callees spliced in*: callee blocks are appended with renamed locals,
arguments are bound by assignments, `return` becomes an assignment to the call's destination plus a
goto to the call's continuation.  Recursion and callees in the caller-supplied `stop` set stay calls.
Unwind edges are dropped (the rules ignore cleanup paths).  Nothing is executed."""
import copy

from .mir import Body, callee_name


def _is_place(o):
    return isinstance(o, dict) and "l" in o and "p" in o and isinstance(o.get("p"), list)


def _rename(o, off_l, off_b, off_p):
    """Deep-copy `o` shifting local ids, block ids and promoted indices."""
    if isinstance(o, list):
        return [_rename(x, off_l, off_b, off_p) for x in o]
    if not isinstance(o, dict):
        return o
    if _is_place(o):
        n = dict(o)
        n["l"] = o["l"] + off_l
        n["p"] = [({**e, "idx": e["idx"] + off_l} if isinstance(e, dict) and "idx" in e else e) for e in o["p"]]
        return n
    n = {}
    for k, v in o.items():
        if k in ("target", "otherwise") and isinstance(v, int):
            n[k] = v + off_b
        elif k == "unwind":
            n[k] = None
        elif k == "targets" and isinstance(v, list):
            n[k] = [[x[0], x[1] + off_b] for x in v]
        elif k == "promoted" and isinstance(v, int):
            n[k] = v + off_p
        elif k in ("callee", "loc"):
            n[k] = v
        else:
            n[k] = _rename(v, off_l, off_b, off_p)
    return n


def _opt_inner(ty):
    pre = "std::option::Option<"
    return ty[len(pre):-1] if ty.startswith(pre) and ty.endswith(">") else None


def desugar_combinators(m):
    """`Option::and_then(o, f)` / `Option::map(o, f)` with `f` a function item are rewritten to the match they
    abbreviate (None -> None; Some(v) -> f(v) / Some(f(v))), so that a helper passed by name is seen like a
    helper called directly.  This is std's documented definition of the two combinators."""
    n0 = len(m["blocks"])
    for bi in range(n0):
        b = m["blocks"][bi]
        t = b["term"]
        if b.get("cleanup") or t["k"] != "call" or "callee" not in t:
            continue
        name = t["callee"].get("path", "")
        if name not in ("std::option::Option::<T>::and_then", "std::option::Option::<T>::map"):
            continue
        if len(t["args"]) != 2 or t["args"][1].get("k") != "const" or "fn" not in t["args"][1] or t.get("target") is None:
            continue
        if t["dest"]["p"] or t["args"][0]["k"] == "const":
            continue
        oty = t["args"][0]["place"]["ty"]
        inner = _opt_inner(oty)
        dty = t["dest"]["ty"]
        if inner is None or _opt_inner(dty) is None:
            continue
        loc = t.get("loc", {"file": "", "line": None})
        L = len(m["locals"])
        l_opt, l_d, l_v, l_r = L, L + 1, L + 2, L + 3
        is_map = name.endswith("::map")
        m["locals"].extend([{"ty": oty, "mut": True}, {"ty": "isize", "mut": True}, {"ty": inner, "mut": True},
                            {"ty": _opt_inner(dty) if is_map else dty, "mut": True}])
        B = len(m["blocks"])
        b_none, b_some = B, B + 1
        b["stmts"].append({"k": "assign", "place": {"l": l_opt, "p": [], "ty": oty}, "rv": {"k": "use", "op": t["args"][0]}, "loc": loc})
        b["stmts"].append({"k": "assign", "place": {"l": l_d, "p": [], "ty": "isize"}, "rv": {"k": "discr", "place": {"l": l_opt, "p": [], "ty": oty}}, "loc": loc})
        b["term"] = {"k": "switch", "discr": {"k": "move", "place": {"l": l_d, "p": [], "ty": "isize"}}, "discr_ty": "isize",
                     "targets": [[0, b_none]], "otherwise": b_some, "loc": loc}
        m["blocks"].append({"stmts": [{"k": "assign", "place": t["dest"], "rv": {"k": "aggregate", "agg": "adt", "adt": "std::option::Option",
                                                                                "variant": "None", "vidx": 0, "fields": [], "ops": []}, "loc": loc}],
                            "term": {"k": "goto", "target": t["target"]}})
        some_stmts = [{"k": "assign", "place": {"l": l_v, "p": [], "ty": inner},
                       "rv": {"k": "use", "op": {"k": "move", "place": {"l": l_opt, "p": [{"dc": 1, "n": "Some"}, {"f": 0, "n": "0"}], "ty": inner}}}, "loc": loc}]
        call = {"k": "call", "callee": t["args"][1]["fn"], "args": [{"k": "move", "place": {"l": l_v, "p": [], "ty": inner}}],
                "unwind": None, "loc": loc}
        if is_map:
            call["dest"] = {"l": l_r, "p": [], "ty": _opt_inner(dty)}
            call["target"] = B + 2
            m["blocks"].append({"stmts": some_stmts, "term": call})
            m["blocks"].append({"stmts": [{"k": "assign", "place": t["dest"], "rv": {"k": "aggregate", "agg": "adt", "adt": "std::option::Option", "variant": "Some",
                                                                                    "vidx": 1, "fields": ["0"], "ops": [{"k": "move", "place": {"l": l_r, "p": [], "ty": _opt_inner(dty)}}]}, "loc": loc}],
                                "term": {"k": "goto", "target": t["target"]}})
        else:
            call["dest"] = t["dest"]
            call["target"] = t["target"]
            m["blocks"].append({"stmts": some_stmts, "term": call})
    return m


def inline_mir(prog, key, stop, maxdepth=4, _stack=(), max_blocks=6000):
    """Returns (mir dict, promoted list, inlined callee keys)."""
    fn = prog.fns[key]
    m = copy.deepcopy(fn["mir"])
    prom = list(copy.deepcopy(fn.get("promoted") or []))
    inlined = []
    desugar_combinators(m)
    # drop cleanup blocks' influence: keep them (ids must stay stable) but cut unwind edges
    for b in m["blocks"]:
        t = b["term"]
        if "unwind" in t:
            t["unwind"] = None
    i = 0
    while i < len(m["blocks"]):
        b = m["blocks"][i]
        t = b["term"]
        i += 1
        if b.get("cleanup") or t["k"] != "call" or "callee" not in t:
            continue
        c = t["callee"]
        if c.get("rkind") != "item":
            continue
        g = c.get("resolved") if c.get("resolved") in prog.fns else (c["path"] if c["path"] in prog.fns else None)
        if g is None or g == key or g in _stack or stop(g) or len(_stack) >= maxdepth:
            continue
        gf = prog.fns[g]
        if gf.get("kind") == "Closure":
            continue
        if len(m["blocks"]) + len(gf["mir"]["blocks"]) > max_blocks:
            continue
        gm, gprom, ginl = inline_mir(prog, g, stop, maxdepth, _stack + (key,), max_blocks)
        if len(t["args"]) != gm["arg_count"]:
            continue
        off_l = len(m["locals"])
        off_b = len(m["blocks"])
        off_p = len(prom)
        m["locals"].extend(copy.deepcopy(gm["locals"]))
        prom.extend(gprom)
        # bind arguments
        for ai, op in enumerate(t["args"]):
            b["stmts"].append({"k": "assign", "place": {"l": off_l + ai + 1, "p": [], "ty": gm["locals"][ai + 1]["ty"]},
                               "rv": {"k": "use", "op": op}, "loc": t.get("loc", {"line": None, "file": ""}), "inl": g})
        dest = t["dest"]
        cont = t.get("target")
        new_blocks = _rename(gm["blocks"], off_l, off_b, off_p)
        for nb in new_blocks:
            nt = nb["term"]
            if nt["k"] == "return" and not nb.get("cleanup"):
                nb["stmts"].append({"k": "assign", "place": dest, "rv": {"k": "use", "op": {"k": "move", "place": {"l": off_l, "p": [], "ty": gm["locals"][0]["ty"]}}},
                                    "loc": nt.get("loc", t.get("loc", {"line": None})), "inl": g})
                nb["term"] = {"k": "goto", "target": cont} if cont is not None else {"k": "unreachable"}
            nb["inl"] = g
        m["blocks"].extend(new_blocks)
        for d in gm.get("debug", []):
            m["debug"].append(_rename(d, off_l, off_b, off_p))
        b["term"] = {"k": "goto", "target": off_b}
        inlined.append(g)
        inlined.extend(ginl)
    return m, prom, inlined


def inlined_body(prog, key, stop=lambda k: False, maxdepth=4):
    """Body of `key` with its local, non-stopped callees inlined.  The synthetic function keeps key, name and location."""
    ck = ("inl", key, id(stop))
    m, prom, inl = inline_mir(prog, key, stop, maxdepth)
    fn = dict(prog.fns[key])
    fn["mir"] = m
    fn["promoted"] = prom
    fn["inlined"] = sorted(set(inl))
    return Body(fn)
