"""Scalar replacement of local helper structs (on MIR JSON, after inlining).

A refactoring that gathers a few local variables into a private struct (`let mut scan = Scan::default(); scan.accept(..)`)
leaves, once the struct's small methods are spliced in, a local aggregate that is only ever built field by field, read and
written field by field, directly or through `&mut` aliases that never escape.  Such a local *is* a bundle of independent
variables; this pass turns it back into one local per field so that every rule that reasons about locals (counters, flags,
dominating guards) sees the same program as before the refactoring.

Sound by construction: a struct local is replaced only if *every* occurrence of it and of every alias of it is one of the
forms below; one unrecognised occurrence (the address passed to a call, the struct returned or stored, a drop) leaves the
local untouched.

    S = Adt { ops }                    (whole definition)
    S = move T                         (T another replaceable local of the same type)
    S.f…  read / written / borrowed    (field access)
    R = &S | &mut S | move R' | &mut *R'      (R, R' aliases: locals with exactly that one definition)
    (*R).f…                            (field access through an alias)

Also: `<bool|integer|char as Default>::default()` becomes the constant it returns (what `#[derive(Default)]` calls)."""
import re

INT_TYPES = ("usize", "u8", "u16", "u32", "u64", "u128", "isize", "i8", "i16", "i32", "i64", "i128")


def _places(x, out):
    """All place dicts inside a JSON fragment."""
    if isinstance(x, dict):
        if "l" in x and "p" in x and isinstance(x["p"], list):
            out.append(x)
            return
        for v in x.values():
            _places(v, out)
    elif isinstance(x, list):
        for v in x:
            _places(v, out)


def fold_scalar_defaults(m):
    for b in m["blocks"]:
        t = b["term"]
        if t["k"] != "call" or "callee" not in t or t.get("target") is None:
            continue
        c = t["callee"]
        if c.get("path") != "std::default::Default::default" or t["args"]:
            continue
        st = c.get("self_ty")
        if st == "bool":
            op = {"k": "const", "ty": "bool", "bool": False}
        elif st in INT_TYPES:
            op = {"k": "const", "ty": st, "int": 0}
        elif st == "char":
            op = {"k": "const", "ty": "char", "cp": 0, "char": "\0"}
        else:
            continue
        b["stmts"].append({"k": "assign", "place": t["dest"], "rv": {"k": "use", "op": op}, "loc": t.get("loc", {"line": None, "file": ""})})
        b["term"] = {"k": "goto", "target": t["target"]}


def _adt_of(ty, prog):
    base = re.sub(r"<.*$", "", ty)
    a = prog.adts.get(base)
    if a and a.get("kind") == "struct" and len(a.get("variants") or []) == 1:
        return base, a
    return None, None


def _is_field(el):
    return isinstance(el, dict) and "f" in el


def scalarise(m, prog, protect=()):
    """In-place.  Returns the list of replaced locals (for evidence / debugging)."""
    fold_scalar_defaults(m)
    nargs = m["arg_count"]
    cand = {}
    for i, l in enumerate(m["locals"]):
        if i == 0 or i <= nargs or i in protect:
            continue
        base, a = _adt_of(l["ty"], prog)
        if base is not None and not l["ty"].startswith("&"):
            cand[i] = a
    if not cand:
        return []
    # ---- collect occurrences
    occ = {}            # local -> [(kind, place, stmt|None, extra)]
    defs_of = {}        # local -> [stmt|term] whole-definitions (p == [])

    def note(pl, kind, st, extra=None):
        occ.setdefault(pl["l"], []).append((kind, pl, st, extra))

    for b in m["blocks"]:
        if b.get("cleanup"):
            # cleanup blocks are not analysed by any rule (unwind edges are cut), but an occurrence there still counts
            pass
        for s in b["stmts"]:
            if s["k"] != "assign":
                ps = []
                _places(s, ps)
                for p in ps:
                    note(p, "other", s)
                continue
            d = s["place"]
            rv = s["rv"]
            note(d, "def", s)
            if not d["p"]:
                defs_of.setdefault(d["l"], []).append(s)
            if rv["k"] == "ref":
                note(rv["place"], "ref", s)
            elif rv["k"] == "use" and rv["op"].get("k") in ("move", "copy"):
                note(rv["op"]["place"], "useop", s)
            else:
                ps = []
                _places(rv, ps)
                for p in ps:
                    note(p, "other", s)
        t = b["term"]
        ps = []
        _places(t, ps)
        for p in ps:
            note(p, "term", t)
        if t["k"] == "call" and "dest" in t and not t["dest"]["p"]:
            defs_of.setdefault(t["dest"]["l"], []).append(t)

    # ---- aliases
    alias_root = {}      # alias local -> struct local

    def single_def(r):
        ds = defs_of.get(r, [])
        return ds[0] if len(ds) == 1 and ds[0].get("k") == "assign" else None

    changed = True
    while changed:
        changed = False
        for r in range(nargs + 1, len(m["locals"])):
            if r in alias_root or r in cand or not m["locals"][r]["ty"].startswith("&"):
                continue
            s = single_def(r)
            if s is None:
                continue
            rv = s["rv"]
            root = None
            if rv["k"] == "ref":
                p = rv["place"]
                if not p["p"] and p["l"] in cand:
                    root = p["l"]
                elif p["p"] == ["*"] and p["l"] in alias_root:
                    root = alias_root[p["l"]]
            elif rv["k"] == "use" and rv["op"].get("k") in ("move", "copy") and not rv["op"]["place"]["p"] and rv["op"]["place"]["l"] in alias_root:
                root = alias_root[rv["op"]["place"]["l"]]
            if root is not None:
                alias_root[r] = root
                changed = True

    # ---- eligibility
    bad = set()

    def check_struct(sidx):
        for kind, p, st, _ in occ.get(sidx, []):
            if p["p"]:
                if _is_field(p["p"][0]):
                    continue
                return False
            if kind == "def":
                rv = st["rv"]
                if rv["k"] == "aggregate" and rv.get("agg") == "adt":
                    continue
                if rv["k"] == "use" and rv["op"].get("k") in ("move", "copy") and not rv["op"]["place"]["p"] and rv["op"]["place"]["l"] in cand:
                    continue
                return False
            if kind == "ref":
                d = st["place"]
                if not d["p"] and alias_root.get(d["l"]) == sidx:
                    continue
                return False
            if kind == "useop":
                d = st["place"]
                if not d["p"] and d["l"] in cand:
                    continue
                return False
            return False
        return True

    def check_alias(r):
        for kind, p, st, _ in occ.get(r, []):
            if kind == "def" and not p["p"]:
                continue                                # its single definition
            if p["p"] and p["p"][0] == "*" and len(p["p"]) >= 2 and _is_field(p["p"][1]):
                continue
            if kind in ("useop", "ref") and st is not None and not st["place"]["p"] and st["place"]["l"] in alias_root \
                    and ((kind == "useop" and not p["p"]) or (kind == "ref" and p["p"] == ["*"])):
                continue
            return False
        return True

    for s_ in cand:
        if not check_struct(s_):
            bad.add(s_)
    for r, root in alias_root.items():
        if not check_alias(r):
            bad.add(root)
    # struct copies tie the two locals' fate together
    changed = True
    while changed:
        changed = False
        for s_ in cand:
            for kind, p, st, _ in occ.get(s_, []):
                other = None
                if kind == "def" and not p["p"] and st["rv"]["k"] == "use" and st["rv"]["op"].get("k") in ("move", "copy"):
                    other = st["rv"]["op"]["place"]["l"]
                if kind == "useop" and not p["p"]:
                    other = st["place"]["l"]
                if other is not None and ((other in bad or other not in cand) != (s_ in bad)):
                    if s_ not in bad:
                        bad.add(s_)
                        changed = True
                    if other in cand and other not in bad:
                        bad.add(other)
                        changed = True
    good = sorted(s_ for s_ in cand if s_ not in bad and occ.get(s_))
    if not good:
        return []
    # a struct that is never wholly defined is not ours to split (e.g. uninitialised place written field by field is fine, keep it simple)
    names = {}
    for d in m.get("debug", []):
        if not d["place"]["p"]:
            names[d["place"]["l"]] = d["name"]
    field_local = {}
    for s_ in good:
        flds = cand[s_]["variants"][0]["fields"]
        for fi, fl in enumerate(flds):
            nl = len(m["locals"])
            m["locals"].append({"ty": fl["ty"], "mut": True, "sroa": [s_, fi]})
            field_local[(s_, fi)] = nl
            if s_ in names:
                m.setdefault("debug", []).append({"name": "%s.%s" % (names[s_], fl["name"]), "place": {"l": nl, "p": [], "ty": fl["ty"]}})
    goodset = set(good)
    good_alias = {r for r, root in alias_root.items() if root in goodset}

    def rewrite_place(p):
        if p["l"] in goodset and p["p"] and _is_field(p["p"][0]):
            nl = field_local.get((p["l"], p["p"][0]["f"]))
            if nl is not None:
                p["l"] = nl
                p["p"] = p["p"][1:]
        elif p["l"] in good_alias and len(p["p"]) >= 2 and p["p"][0] == "*" and _is_field(p["p"][1]):
            nl = field_local.get((alias_root[p["l"]], p["p"][1]["f"]))
            if nl is not None:
                p["l"] = nl
                p["p"] = p["p"][2:]

    for b in m["blocks"]:
        new = []
        for s in b["stmts"]:
            if s["k"] == "assign":
                d = s["place"]
                rv = s["rv"]
                if not d["p"] and d["l"] in good_alias:
                    continue                                        # alias definitions disappear
                if not d["p"] and d["l"] in goodset:
                    flds = cand[d["l"]]["variants"][0]["fields"]
                    if rv["k"] == "aggregate":
                        for fi, op in enumerate(rv["ops"]):
                            ps = []
                            _places(op, ps)
                            for p in ps:
                                rewrite_place(p)
                            new.append({"k": "assign", "place": {"l": field_local[(d["l"], fi)], "p": [], "ty": flds[fi]["ty"]},
                                        "rv": {"k": "use", "op": op}, "loc": s.get("loc"), **({"inl": s["inl"]} if "inl" in s else {})})
                        continue
                    if rv["k"] == "use":
                        src = rv["op"]["place"]["l"]
                        for fi, fl in enumerate(flds):
                            new.append({"k": "assign", "place": {"l": field_local[(d["l"], fi)], "p": [], "ty": fl["ty"]},
                                        "rv": {"k": "use", "op": {"k": rv["op"]["k"], "place": {"l": field_local[(src, fi)], "p": [], "ty": fl["ty"]}}},
                                        "loc": s.get("loc"), **({"inl": s["inl"]} if "inl" in s else {})})
                        continue
            ps = []
            _places(s, ps)
            for p in ps:
                rewrite_place(p)
            new.append(s)
        b["stmts"] = new
        ps = []
        _places(b["term"], ps)
        for p in ps:
            rewrite_place(p)
    _propagate_constants(m, set(field_local.values()))
    return good


def _propagate_constants(m, targets):
    """`F = move T` with T (transitively) a single-definition temporary holding a constant becomes `F = const` for the new field
    locals — the shape `let mut n = 0` has before a refactoring wraps it into `Counter { n: 0 }` / `Counter::default()`."""
    defs = {}
    borrowed = set()
    for b in m["blocks"]:
        for s in b["stmts"]:
            if s["k"] == "assign":
                if not s["place"]["p"]:
                    defs.setdefault(s["place"]["l"], []).append(s)
                else:
                    defs.setdefault(s["place"]["l"], []).append(None)
                if s["rv"]["k"] == "ref":
                    borrowed.add(s["rv"]["place"]["l"])
        t = b["term"]
        if t["k"] == "call" and "dest" in t:
            defs.setdefault(t["dest"]["l"], []).append(None)

    def const_of(l, depth=0):
        if depth > 8 or l in borrowed or l <= m["arg_count"]:
            return None
        ds = defs.get(l, [])
        if len(ds) != 1 or ds[0] is None or ds[0]["rv"]["k"] != "use":
            return None
        op = ds[0]["rv"]["op"]
        if op["k"] == "const":
            return op if any(k in op for k in ("int", "bool", "cp")) else None
        if op["k"] in ("move", "copy") and not op["place"]["p"]:
            return const_of(op["place"]["l"], depth + 1)
        return None

    for b in m["blocks"]:
        for s in b["stmts"]:
            if s["k"] == "assign" and not s["place"]["p"] and s["place"]["l"] in targets and s["rv"]["k"] == "use" \
                    and s["rv"]["op"]["k"] in ("move", "copy") and not s["rv"]["op"]["place"]["p"]:
                c = const_of(s["rv"]["op"]["place"]["l"])
                if c is not None:
                    s["rv"]["op"] = dict(c)
