"""Readers for checked-in source artifacts (table agreement, not execution):
include/riti.h, data/*.json, and the data tables of the pinned dependencies."""
import glob
import json
import os
import re

REPO = os.environ.get("VERIF_REPO", "/repo")


def read_header(repo=REPO):
    """Returns (defines {name: int}, prototypes {name: (ret, [(type, name)])})."""
    txt = open(os.path.join(repo, "include", "riti.h"), encoding="utf-8").read()
    txt = re.sub(r"/\*.*?\*/", " ", txt, flags=re.S)
    defines = {}
    for m in re.finditer(r"^\s*#define\s+(\w+)\s+(.+?)\s*$", txt, flags=re.M):
        name, val = m.group(1), m.group(2)
        m2 = re.fullmatch(r"\((\d+)\s*<<\s*(\d+)\)", val)
        if m2:
            defines[name] = int(m2.group(1)) << int(m2.group(2))
        elif re.fullmatch(r"\d+", val):
            defines[name] = int(val)
        elif re.fullmatch(r"0[xX][0-9a-fA-F]+", val):
            defines[name] = int(val, 16)
    body = re.sub(r"^\s*#.*$", "", txt, flags=re.M)
    protos = {}
    for stmt in body.split(";"):
        s = " ".join(stmt.split())
        if not s or s.startswith("typedef"):
            continue
        m = re.fullmatch(r"(.+?)\b(\w+)\s*\((.*)\)", s)
        if not m:
            continue
        ret, name, params = m.group(1).strip(), m.group(2), m.group(3).strip()
        ps = []
        if params and params != "void":
            for p in params.split(","):
                p = p.strip()
                m3 = re.fullmatch(r"(.+?)(\w+)", p)
                ps.append((m3.group(1).strip().replace(" *", "*").replace("* ", "*"), m3.group(2)))
        protos[name] = (ret.replace(" *", "*").replace("* ", "*"), ps)
    return defines, protos


def rust_to_c(ty):
    """Expected C spelling (as cbindgen emits it) of a Rust FFI type."""
    ty = ty.strip()
    prim = {"u16": "uint16_t", "u8": "uint8_t", "usize": "uintptr_t", "bool": "bool", "()": "void",
            "i8": "char", "u32": "uint32_t", "i32": "int32_t", "u64": "uint64_t", "i64": "int64_t",
            "std::ffi::c_char": "char", "core::ffi::c_char": "char"}
    if ty in prim:
        return prim[ty]
    m = re.fullmatch(r"\*(mut|const) (.+)", ty)
    if m:
        inner = m.group(2)
        innerc = prim.get(inner)
        if innerc is None:
            innerc = "struct " + inner.split("::")[-1]
        return ("const " if m.group(1) == "const" else "") + innerc + "*"
    return "?" + ty


def load_json(name, repo=REPO):
    with open(os.path.join(repo, "data", name), encoding="utf-8") as f:
        return json.load(f)


def dep_src(crate):
    """Source directory of the dependency version pinned by /repo/Cargo.lock."""
    lock = open(os.path.join(REPO, "Cargo.lock"), encoding="utf-8").read()
    m = re.search(r'name = "%s"\s+version = "([^"]+)"' % re.escape(crate), lock)
    if not m:
        return None, None
    ver = m.group(1)
    hits = glob.glob(os.path.expanduser("~/.cargo/registry/src/*/%s-%s" % (crate, ver)))
    return (hits[0] if hits else None), ver


def emojicon_tables():
    """Generated data tables of the pinned emojicon crate (line-oriented Rust literals):
    returns dict(names={name:[emoji]}, bengali={...}, emoticons={emoticon: emoji}, version=…) or None."""
    src, ver = dep_src("emojicon")
    if not src:
        return None
    cargo = open(os.path.join(REPO, "Cargo.toml"), encoding="utf-8").read()
    custom = bool(re.search(r'emojicon\s*=\s*\{[^}]*features\s*=\s*\[[^\]]*"custom"', cargo))

    def multi(fname):
        out = {}
        txt = open(os.path.join(src, "src", fname), encoding="utf-8").read()
        for m in re.finditer(r'^\s*\("((?:[^"\\]|\\.)*)",\s*&\[(.*?)\]\),\s*$', txt, flags=re.M):
            name = bytes(m.group(1), "utf-8").decode("unicode_escape").encode("latin-1").decode("utf-8") if "\\" in m.group(1) else m.group(1)
            items = re.findall(r'"((?:[^"\\]|\\.)*)"', m.group(2))
            out[name] = items
        decl = re.search(r"\);\s*(\d+)\]\s*=", txt)
        return out, (int(decl.group(1)) if decl else None)

    names, n1 = multi("emoji.rs" if custom else "gemoji.rs")
    bengali, n2 = multi("bn_emojis.rs")
    emot = {}
    txt = open(os.path.join(src, "src", "emoticons.rs"), encoding="utf-8").read()
    for m in re.finditer(r'^\s*\("((?:[^"\\]|\\.)*)",\s*"((?:[^"\\]|\\.)*)"\),\s*$', txt, flags=re.M):
        k = m.group(1).replace('\\"', '"').replace("\\\\", "\\")
        emot[k] = m.group(2)
    return {"names": names, "bengali": bengali, "emoticons": emot, "version": ver, "custom": custom,
            "declared": {"names": n1, "bengali": n2}}
