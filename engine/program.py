"""Whole-crate view over the fact file: function index, role locators,
call graph with dyn fan-out, reachability."""
import re
from collections import defaultdict

from .mir import Body, callee_name, callee_path, E, apath


# The types the rules' vocabulary is written in.  They are found by *name* among the crate's own types; the module they live in
# is free (moving a type into a submodule and re-exporting it changes every path the compiler prints, and nothing else).
ROLE_TYPES = {
    "SplittedString": "utility::SplittedString", "Config": "config::Config", "Data": "data::Data",
    "Suggestion": "suggestion::Suggestion", "Rank": "suggestion::Rank", "RitiContext": "context::RitiContext",
    "Layout": "fixed::layout::Layout", "FixedMethod": "fixed::method::FixedMethod", "PhoneticMethod": "phonetic::method::PhoneticMethod",
    "PhoneticSuggestion": "phonetic::suggestion::PhoneticSuggestion", "LayoutModifiers": "fixed::layout::LayoutModifiers",
}


ROLE_TRAITS = {"Method": "context::Method"}


def instantiate_default_methods(doc):
    """A provided (default) method of a crate trait that has exactly one implementing type is that type's method: `<S as T>::m` is made
    from the provided body with `Self` read as S and its calls of the trait's other methods resolved to S's, and the calls of it are
    resolved to the instance — static dispatch written out, nothing else.  Returns the instantiated keys."""
    import copy
    import json
    fns = doc["fns"]
    impls = {}
    for k, f in fns.items():
        imp = f.get("impl") or {}
        if imp.get("trait") and imp.get("trait_local"):
            impls.setdefault(imp["trait"], set()).add(imp["self"])
    made = {}
    for k, f in list(fns.items()):
        if f.get("impl") or f.get("kind") != "AssocFn" or "::" not in k:
            continue
        trait, name = k.rsplit("::", 1)
        selfs = impls.get(trait)
        if not selfs:
            continue
        # every implementing type that does not write the method itself gets its own instance of the provided body
        for S in sorted(selfs):
            nk = "<%s as %s>::%s" % (S, trait, name)
            if nk in fns:
                continue
            made.setdefault(k, []).append((nk, S, trait))
    made = {k: v for k, v in made.items() if v}
    if not made:
        return []
    flat = [(k, nk, S, trait) for k, v in made.items() for (nk, S, trait) in v]
    for (k, nk, S, trait) in flat:
        text = json.dumps(fns[k], ensure_ascii=False)
        text = re.sub(r"(?<![A-Za-z0-9_])Self(?![A-Za-z0-9_])", lambda _m: json.dumps(S, ensure_ascii=False)[1:-1], text)
        nf = json.loads(text)
        nf["path"] = nk
        nf["impl"] = {"self": S, "trait": trait, "trait_ref": "<%s as %s>" % (S, trait), "trait_local": True}
        nf["instantiated_from"] = k
        fns[nk] = nf
    for k, f in fns.items():
        bodies = [f.get("mir")] + list(f.get("promoted") or [])
        for m in bodies:
            if not m:
                continue
            for b in m["blocks"]:
                t = b["term"]
                c = t.get("callee") if t["k"] == "call" else None
                if not c or not c.get("trait"):
                    continue
                for (dk, nk, S, trait) in flat:
                    if c.get("trait") != trait or c.get("self_ty") != S:
                        continue
                    if c.get("path") == dk:
                        c["resolved"], c["rkind"], c["rlocal"] = nk, "item", True
                    elif c.get("rkind") == "unresolved":
                        tgt = "<%s as %s>::%s" % (S, trait, c.get("name"))
                        if tgt in fns:
                            c["resolved"], c["rkind"], c["rlocal"] = tgt, "item", True
    for k in made:
        fns.pop(k, None)
    return sorted(nk for (_, nk, _, _) in flat)


def canonicalise(doc):
    """Rewrites the def-paths of role types that live in another module than the rules' vocabulary names them in.
    Returns (doc, {actual path: canonical path}); the doc is returned unchanged when nothing moved."""
    import json
    try:
        instantiate_default_methods(doc)
    except Exception:
        pass
    paths = [a["path"] for a in doc["adts"]]
    mapping = {}
    for name, canon in ROLE_TYPES.items():
        if canon in paths:
            continue
        found = [p for p in paths if p.rsplit("::", 1)[-1] == name]
        if len(found) == 1:
            mapping[found[0]] = canon
    # the method trait is found by name among the crate's own traits, like the role types
    traits = sorted({(f.get("impl") or {}).get("trait") for f in doc["fns"].values() if (f.get("impl") or {}).get("trait")} - {None})
    for name, canon in ROLE_TRAITS.items():
        if canon in traits:
            continue
        found = [t for t in traits if t.rsplit("::", 1)[-1] == name and not t.startswith(("std::", "core::", "alloc::"))]
        if len(found) == 1:
            mapping[found[0]] = canon
    # inherent methods written in an `impl Type` block of another module print as `module::<impl Type>::name`; the method is `Type::name`
    local = set(paths)
    for k in list(doc["fns"]):
        m = re.match(r"^[A-Za-z0-9_:]+::<impl ([A-Za-z0-9_:]+)(<[^>]*>)?>::", k)
        if m and m.group(1) in local:
            prefix = k[:m.end() - 2]
            generic = m.group(2) or ""
            canon = m.group(1) + ("::" + generic if generic else "")
            if prefix not in mapping and not any((canon + k[m.end() - 2:]) == other for other in doc["fns"]):
                mapping[prefix] = canon
    if not mapping:
        return doc, {}
    text = json.dumps(doc, ensure_ascii=False)
    for actual in sorted(mapping, key=len, reverse=True):
        text = re.sub(re.escape(json.dumps(actual, ensure_ascii=False)[1:-1]) + r"(?![A-Za-z0-9_])",
                      lambda _m, r=json.dumps(mapping[actual], ensure_ascii=False)[1:-1]: r, text)
    return json.loads(text), mapping


def staged_doc(prog, max_blocks=60, methods_too=False):
    """The *staged view* of the crate: every private function with exactly one call site, called from a function of the same type (or, for free
    functions, of the same module), that is loop-free and small (≤ 60 blocks) is spliced into its caller and removed as a function of its own — a long function split into private stages
    (`split_term`, `add_emoji_suggestions`, `add_typed_english`) is then the long function again.  Splicing a function into its only call site
    preserves the program's behaviour, so a structural rule that holds on the staged view holds for the real program.
    Returns (doc, {stage: host}) or (None, {}) when there is nothing to splice."""
    import copy
    from .inline import inline_mir, thread_variant_joins
    from .sroa import scalarise
    prog.callgraph()
    base_fns = dict(prog.fns)
    disp = None
    try:
        disp = enum_dispatch_to_dyn(base_fns, prog.adts)
    except Exception:
        disp = None
        base_fns = dict(prog.fns)
    if disp:
        import json as _json
        doc0 = dict(prog.doc)
        doc0["fns"] = base_fns
        # the dispatcher's type is the boxed trait object in every type string
        text = _json.dumps(doc0, ensure_ascii=False)
        text = re.sub(re.escape(_json.dumps(disp)[1:-1]) + r"(?![A-Za-z0-9_:])", "std::boxed::Box<(dyn context::Method + 'static)>", text)
        doc0 = _json.loads(text)
        doc0["adts"] = [a_ for a_ in doc0["adts"] if a_["path"] != "std::boxed::Box<(dyn context::Method + 'static)>"]
        prog = Program(doc0)
        prog.callgraph()
        base_fns = dict(prog.fns)
    try:
        rebound = rebind_field_params(prog, base_fns)
    except Exception:
        rebound = set()
        base_fns = dict(prog.fns)
    if rebound:
        doc0 = dict(prog.doc)
        doc0["fns"] = base_fns
        prog = Program(doc0)
        prog.callgraph()
    stages = {}           # stage → sorted list of its callers
    # functions that create a closure which captures something (a capture-free closure is the same value wherever its creator's copy stands)
    capturing = set()
    for k_, f_ in prog.fns.items():
        if f_.get("kind") == "Closure":
            continue
        for b_ in f_["mir"]["blocks"]:
            for st_ in b_["stmts"]:
                if st_["k"] == "assign" and st_["rv"]["k"] == "aggregate" and st_["rv"].get("agg") == "closure" and st_["rv"].get("ops"):
                    capturing.add(k_)
    has_closures = {k_ for k_ in ({f.get("parent") for f in prog.fns.values() if f.get("kind") == "Closure"} |
                                  {f.get("root") for f in prog.fns.values() if f.get("kind") == "Closure"}) if k_ in capturing}
    for k, f in prog.fns.items():
        imp = f.get("impl") or {}
        if f.get("kind") == "Closure" or f.get("no_mangle") or imp.get("trait") or len(f["mir"]["blocks"]) > max_blocks:
            continue
        if f.get("vis") == "pub" or f.get("rebound_field"):
            continue
        if f.get("output") == "bool" and (f.get("inputs") or []) in (["char"], ["&char"]):
            continue                    # a character-class predicate is part of the rules' vocabulary (its set is read from it)
        cs = prog.call_sites.get(k, [])
        callers = sorted({c[0] for c in cs})
        if not cs or k in callers:
            continue
        if len(cs) > 1:
            # a small helper shared by a few call sites (a constructor wrapper, a two-line formatter): a copy is spliced into each of them
            # (free functions only: a method with several call sites is a unit of its type that rules may know by role)
            # (`methods_too`: a further view in which small private methods shared by a few sites are spliced as well)
            if len(cs) > 4 or len(f["mir"]["blocks"]) > 25 or k in has_closures or (imp.get("self") and not methods_too):
                continue
        if any((prog.fns.get(c) or {}).get("kind") == "Closure" for c in callers) and not (methods_too and imp.get("self") and len(f["mir"]["blocks"]) <= 12):
            continue                    # (further view: a short private method may be spliced into a closure of its own type's methods too)
        if Body(f).loops():
            continue                    # a stage with a loop of its own is a unit the rules know by role (scan, join, look-up); only straight stages are spliced
        ok_home = True
        for caller in callers:
            cf = prog.fns.get(caller) or {}
            if cf.get("kind") == "Closure":
                cf = prog.fns.get(prog.owner_fn(caller)) or {}          # a closure lives where the function it is written in lives
            cimp = cf.get("impl") or {}
            same_home = (imp.get("self") and imp.get("self") == cimp.get("self")) or \
                        (not imp.get("self") and not cimp.get("trait") and k.rsplit("::", 1)[0] == (cimp.get("self") or caller).rsplit("::", 1)[0]) or \
                        (not imp.get("self") and k.rsplit("::", 1)[0] == (cimp.get("self") or caller).rsplit("::", 1)[0])
            if not same_home and imp.get("self") and not imp.get("trait"):
                # a method of a dissolved helper struct (a newtype around the key map with its own `get`) is at home in the struct that embeds it
                from . import mir as _mir
                same_home = any(d_["helper"] == imp.get("self") and d_["owner"] == cimp.get("self") for d_ in _mir.DISSOLVE.values())
            if not same_home:
                ok_home = False
        if not ok_home:
            continue
        stages[k] = callers
    if not stages:
        return None, {}

    def hosts_of(k, seen=frozenset()):
        out = set()
        for c in stages.get(k, []):
            if c in stages and c not in seen:
                out |= hosts_of(c, seen | {k})
            elif c not in stages:
                out.add(c)
        return out
    # a stage whose callers are all stages of a cycle has no host: leave such stages alone
    for k in [k for k in stages if not hosts_of(k)]:
        del stages[k]
    if not stages:
        return None, {}
    hosts = sorted(set().union(*[hosts_of(k) for k in stages]))
    local_enums = {a_["path"] for a_ in prog.doc.get("adts", []) if a_.get("kind") == "enum" and a_.get("loc")
                   and any(v_.get("fields") for v_ in a_.get("variants", []))}     # (a variant with a payload: no explicit discriminants)
    doc = dict(prog.doc)
    fns = dict(prog.fns)
    for h in hosts:
        m, prom, inl = inline_mir(prog, h, stop=lambda g: g not in stages, maxdepth=6, desugar=False)      # plain splicing: the hosts keep their own spelling
        try:
            thread_variant_joins(m, local_enums)
        except Exception:
            pass
        try:
            scalarise(m, prog)
        except Exception:
            pass
        nf = dict(fns[h])
        nf["mir"] = m
        nf["promoted"] = prom
        nf["staged"] = sorted(set(inl))
        fns[h] = nf
    gone = set(stages)
    for k in gone:
        fns.pop(k, None)
    for k, f in list(fns.items()):
        if f.get("kind") == "Closure" and (f.get("parent") in gone or f.get("root") in gone):
            nf = dict(f)
            if nf.get("parent") in gone:
                nf["parent"] = sorted(hosts_of(nf["parent"]))[0]
            if nf.get("root") in gone:
                nf["root"] = sorted(hosts_of(nf["root"]))[0]
            fns[k] = nf
    try:
        redispatch_loops_to_recursion(fns)
    except Exception:
        pass
    doc["fns"] = fns
    return doc, {k: sorted(hosts_of(k))[0] for k in sorted(gone)}


def enum_dispatch_to_dyn(doc_fns, adts, trait="context::Method"):
    """A private enum whose variants each wrap one implementor of the method trait, and whose own impl of the trait forwards every method to the
    payload (`match self { A(m) => m.f(args), B(m) => m.f(args) }`), is the trait object spelled as a closed set: a call of one of its methods is
    the virtual call.  Rewrites calls of the dispatcher's trait methods into virtual calls of the trait and drops the dispatcher's impl.
    Returns (dispatcher type path or None)."""
    impls = defaultdict(dict)
    for k, f in doc_fns.items():
        imp = f.get("impl") or {}
        if imp.get("trait") == trait and f.get("kind") != "Closure":
            impls[imp.get("self")][f.get("name")] = k
    disp = None
    for ty, ms in impls.items():
        a = adts.get(ty)
        if not a or a.get("kind") != "enum" or not a["variants"]:
            continue
        payloads = [v["fields"][0]["ty"] for v in a["variants"] if len(v["fields"]) == 1]
        if len(payloads) != len(a["variants"]) or not all(p_ in impls and p_ != ty for p_ in payloads):
            continue
        ok = True
        for name, k in ms.items():
            m = doc_fns[k]["mir"]
            callees = set()
            for b in m["blocks"]:
                t = b["term"]
                if b.get("cleanup"):
                    continue
                if t["k"] == "call" and "callee" in t:
                    callees.add(t["callee"].get("resolved") or t["callee"].get("path"))
                elif t["k"] not in ("switch", "goto", "return", "unreachable", "drop"):
                    ok = False
            if callees != {impls[p_].get(name) for p_ in payloads}:
                ok = False
            # every forwarding call hands on the method's own parameters, in order, and its result is the method's result
            alldefs = {}
            for b in m["blocks"]:
                for st in b["stmts"]:
                    if st["k"] == "assign" and not st["place"]["p"]:
                        alldefs.setdefault(st["place"]["l"], []).append(st["rv"])

            def origin(l, depth=0):
                if 1 <= l <= m["arg_count"]:
                    return l
                ds = alldefs.get(l, [])
                if len(ds) != 1 or depth > 4:
                    return None
                rv = ds[0]
                src = rv.get("place") if rv["k"] == "ref" else (rv.get("op", {}).get("place") if rv["k"] == "use" else None)
                if not src or [x for x in src["p"] if x != "*"]:
                    return None
                return origin(src["l"], depth + 1)
            for b in m["blocks"]:
                t = b["term"]
                if b.get("cleanup") or t["k"] != "call" or "callee" not in t:
                    continue
                if len(t["args"]) != m["arg_count"]:
                    ok = False
                    break
                for ai, a_ in enumerate(t["args"][1:], start=2):
                    if a_.get("k") not in ("move", "copy") or a_["place"]["p"] or origin(a_["place"]["l"]) != ai:
                        ok = False
                if t["dest"]["p"] or t["dest"]["l"] != 0:
                    ok = False
        if ok:
            disp = ty
            break
    if disp is None:
        return None
    names = {k: n for n, k in impls[disp].items()}
    for k, f in list(doc_fns.items()):
        if k in names:
            continue
        m = f["mir"]
        changed = False
        nb = []
        for b in m["blocks"]:
            t = b["term"]
            if t["k"] == "call" and "callee" in t and (t["callee"].get("resolved") or t["callee"].get("path")) in names:
                n = names[t["callee"].get("resolved") or t["callee"].get("path")]
                t2 = dict(t)
                t2["callee"] = {"path": "%s::%s" % (trait, n), "full": "<dyn %s as %s>::%s" % (trait, trait, n), "local": True, "name": n,
                                "substs": ["dyn " + trait], "trait": trait, "self_ty": "dyn " + trait, "rkind": "virtual",
                                "resolved": "%s::%s" % (trait, n), "rlocal": True}
                b = dict(b, term=t2)
                changed = True
            nb.append(b)
        if changed:
            doc_fns[k] = dict(f, mir=dict(m, blocks=nb))
    for k in names:
        doc_fns.pop(k, None)
    return disp


def rebind_field_params(prog, fns):
    """`fn look_up(map: &Map, …)` written as an associated function of a role struct S and called — at every call site, all of them in methods
    of S — as `S::look_up(&self.f, …)` is the method `fn look_up(&self, …)` reading `self.f`.  Rewrites such functions (first parameter only) and
    their call sites into the method form on a copy, so that field-path readers see `self.f` again.  Returns the set of rewritten functions."""
    import copy
    done = set()
    for k, f in list(fns.items()):
        imp = f.get("impl") or {}
        S = imp.get("self")
        if f.get("kind") == "Closure" or imp.get("trait") or not S or S not in prog.adts or f.get("vis") == "pub":
            continue
        ins = f.get("inputs") or []
        if not ins or ins[0].replace("&mut ", "&").lstrip("&").split("<")[0] == S.split("<")[0] or not ins[0].startswith("&"):
            continue            # no parameter, or already a method
        sites = prog.call_sites.get(k, [])
        if not sites or len(sites) > 4:
            continue
        field = None
        ok = True
        edits = []
        for (caller, bb, t) in sites:
            cf = fns.get(caller)
            if not cf or cf.get("kind") == "Closure" or (cf.get("impl") or {}).get("self") != S:
                ok = False
                break
            cm = cf["mir"]
            if cm["arg_count"] < 1 or S.split("<")[0] not in cm["locals"][1]["ty"]:
                ok = False
                break
            # find the call in the caller's raw MIR: same callee, look at its first argument's definition
            found = False
            for bi, b_ in enumerate(cm["blocks"]):
                tt = b_["term"]
                if tt["k"] == "call" and "callee" in tt and (tt["callee"].get("resolved") or tt["callee"].get("path")) == k:
                    a0 = tt["args"][0]
                    if a0.get("k") not in ("move", "copy") or a0["place"]["p"]:
                        ok = False
                        break
                    l = a0["place"]["l"]
                    # the temporary's single definition, through re-borrows (`_a = &*_b; _b = &(*self).f`)
                    alldefs = {}
                    for b2_ in cm["blocks"]:
                        for st in b2_["stmts"]:
                            if st["k"] == "assign" and not st["place"]["p"]:
                                alldefs.setdefault(st["place"]["l"], []).append(st["rv"])
                    rv = None
                    for _ in range(4):
                        ds = alldefs.get(l, [])
                        if len(ds) != 1:
                            break
                        rv = ds[0]
                        if rv["k"] == "ref" and rv["place"]["l"] != 1 and [x for x in rv["place"]["p"] if x != "*"] == []:
                            l = rv["place"]["l"]
                            rv = None
                            continue
                        if rv["k"] == "use" and rv["op"].get("k") in ("move", "copy") and not rv["op"]["place"]["p"]:
                            l = rv["op"]["place"]["l"]
                            rv = None
                            continue
                        break
                    if not rv or rv["k"] != "ref" or rv["place"]["l"] != 1:
                        ok = False
                        break
                    pr = [x for x in rv["place"]["p"] if x != "*"]
                    if len(pr) != 1 or not isinstance(pr[0], dict) or "n" not in pr[0]:
                        ok = False
                        break
                    if field is not None and field["n"] != pr[0]["n"]:
                        ok = False
                        break
                    field = pr[0]
                    edits.append((caller, bi))
                    found = True
            if not ok or not found:
                ok = False
                break
        if not ok or field is None:
            continue
        m = copy.deepcopy(f["mir"])
        pty = m["locals"][1]["ty"]
        n = len(m["locals"])
        m["locals"].append({"ty": pty, "name": None})

        def ren(x):
            if isinstance(x, dict):
                if "l" in x and "p" in x and x["l"] == 1:
                    x["l"] = n
                for v in x.values():
                    ren(v)
            elif isinstance(x, list):
                for v in x:
                    ren(v)
        ren(m["blocks"])
        sty = ("&mut " if pty.startswith("&mut") else "&") + S
        m["locals"][1] = dict(m["locals"][1], ty=sty)
        m["blocks"][0]["stmts"].insert(0, {"k": "assign", "place": {"l": n, "p": [], "ty": pty},
                                           "rv": {"k": "ref", "mut": pty.startswith("&mut"), "place": {"l": 1, "p": ["*", field], "ty": pty.replace("&mut ", "").lstrip("&")}},
                                           "loc": (m["blocks"][0]["stmts"][0].get("loc") if m["blocks"][0]["stmts"] else m["blocks"][0]["term"].get("loc")) or {"line": None, "file": ""}})
        fns[k] = dict(f, mir=m, inputs=[sty] + list(ins[1:]), rebound_field=field["n"])
        for (caller, bi) in edits:
            cf = fns[caller]
            cm = copy.deepcopy(cf["mir"])
            tt = cm["blocks"][bi]["term"]
            sty_c = cm["locals"][1]["ty"]
            tt["args"][0] = {"k": "copy", "place": {"l": 1, "p": [], "ty": sty_c}}
            fns[caller] = dict(cf, mir=cm)
        done.add(k)
    return done


def redispatch_loops_to_recursion(fns):
    """`fn w(&mut self, a, b) { while let Again = self.g(a, b) {} }` with a private `g` that answers with a field-less two-variant enum is the
    tail recursion `g: … Again ⇒ { w(self, a, b); Done }` written as a loop (the loop body is empty, so the next pass starts exactly as the
    recursive call would).  Rewrites such a pair into the recursive form on a copy: every `return Again` of g becomes a call of w followed by
    `return Done`, and w calls g once.  Returns the set of rewritten wrappers.  Behaviour-preserving by construction."""
    import copy
    done = set()
    callers = defaultdict(set)
    for k, f in fns.items():
        for b in f["mir"]["blocks"]:
            t = b["term"]
            if t["k"] == "call" and "callee" in t:
                c = t["callee"]
                g = c.get("resolved") or c.get("path")
                if g in fns:
                    callers[g].add(k)
    for wk, wf in list(fns.items()):
        m = wf["mir"]
        live = [(i, b) for i, b in enumerate(m["blocks"]) if not b.get("cleanup")]
        calls = [(i, b) for i, b in live if b["term"]["k"] == "call" and "callee" in b["term"]]
        if wf.get("kind") == "Closure" or len(calls) != 1 or len(live) > 8:
            continue
        ci, cb = calls[0]
        t = cb["term"]
        gk = t["callee"].get("resolved") or t["callee"].get("path")
        if gk not in fns or gk == wk or callers.get(gk) != {wk} or t["dest"]["p"]:
            continue
        gf = fns[gk]
        ety = gf["mir"]["locals"][0]["ty"]
        if gf.get("vis") == "pub" or len(t["args"]) != m["arg_count"] or gf["mir"]["arg_count"] != m["arg_count"]:
            continue
        # the call's arguments are (reborrows / copies of) w's own parameters, in order
        okargs = True
        defs = {}
        for st in cb["stmts"]:
            if st["k"] == "assign" and not st["place"]["p"]:
                defs[st["place"]["l"]] = st["rv"]
        for ai, a in enumerate(t["args"], start=1):
            if a.get("k") not in ("move", "copy") or a["place"]["p"]:
                okargs = False
                break
            l = a["place"]["l"]
            if l == ai:
                continue
            rv = defs.get(l)
            if not rv:
                okargs = False
                break
            src = rv.get("place") if rv["k"] == "ref" else (rv.get("op", {}).get("place") if rv["k"] == "use" else None)
            if not src or src["l"] != ai or [p_ for p_ in src["p"] if p_ != "*"]:
                okargs = False
                break
        if not okargs or t.get("target") is None:
            continue
        # after the call: switch on the result's discriminant, one value loops back to the call, the other leaves
        sb = m["blocks"][t["target"]]
        st_ = sb["term"]
        if st_["k"] != "switch" or st_.get("discr_ty") != "isize" or len(st_["targets"]) != 1:
            continue
        dl = st_["discr"].get("place", {}).get("l")
        isdiscr = any(x["k"] == "assign" and x["place"]["l"] == dl and x["rv"]["k"] == "discr" and x["rv"]["place"]["l"] == t["dest"]["l"] for x in sb["stmts"])
        if not isdiscr:
            continue
        again_val, again_tgt = st_["targets"][0]
        exit_tgt = st_["otherwise"]

        def reaches_call(bi, depth=0):
            b_ = m["blocks"][bi]
            if bi == ci:
                return True
            if depth > 4 or b_["term"]["k"] != "goto":
                return False
            if any(x["k"] == "assign" and x["rv"]["k"] not in ("use",) for x in b_["stmts"]):
                return False
            return reaches_call(b_["term"]["target"], depth + 1)
        if not reaches_call(again_tgt):
            # the exit may be the listed value and the loop the `otherwise` edge
            if reaches_call(exit_tgt):
                again_tgt, exit_tgt = exit_tgt, again_tgt
                again_val = 1 - again_val
            else:
                continue
        if again_val not in (0, 1):
            continue
        # g answers with aggregates of a two-variant field-less enum only
        gm = copy.deepcopy(gf["mir"])
        sites = []
        bad = False
        for bi, b_ in enumerate(gm["blocks"]):
            for si, x in enumerate(b_["stmts"]):
                if x["k"] == "assign" and x["place"]["l"] == 0 and not x["place"]["p"]:
                    rv = x["rv"]
                    if rv["k"] == "aggregate" and rv.get("agg") == "adt" and rv.get("adt") == ety and not rv.get("ops"):
                        if rv.get("vidx") == again_val:
                            sites.append((bi, si))
                    else:
                        bad = True
        if bad or not sites:
            continue
        done_variant = None
        for b_ in gm["blocks"]:
            for x in b_["stmts"]:
                if x["k"] == "assign" and x["place"]["l"] == 0 and x["rv"].get("vidx") == 1 - again_val:
                    done_variant = x["rv"]
        if done_variant is None:
            continue
        unit_l = len(gm["locals"])
        gm["locals"].append({"ty": "()", "name": None})
        for (bi, si) in sorted(sites, reverse=True):
            b_ = gm["blocks"][bi]
            tail = {"stmts": b_["stmts"][si:], "term": b_["term"]}
            for k2 in b_:
                if k2 not in ("stmts", "term"):
                    tail[k2] = b_[k2]
            tail["stmts"][0] = dict(tail["stmts"][0], rv=copy.deepcopy(done_variant))
            nbi = len(gm["blocks"])
            gm["blocks"].append(tail)
            call = copy.deepcopy(t)
            call["callee"] = dict(t["callee"], path=wk, full=wk, resolved=wk, name=wk.rsplit("::", 1)[-1])
            call["args"] = [{"k": "move" if gm["locals"][ai]["ty"].startswith("&mut") else "copy",
                             "place": {"l": ai, "p": [], "ty": gm["locals"][ai]["ty"]}} for ai in range(1, gm["arg_count"] + 1)]
            call["dest"] = {"l": unit_l, "p": [], "ty": "()"}
            call["target"] = nbi
            call["loc"] = b_["stmts"][si].get("loc", t.get("loc"))
            call.pop("cleanup", None)
            call.pop("unwind", None)
            b_["stmts"] = b_["stmts"][:si]
            b_["term"] = call
        # w forwards its parameters unchanged and does nothing else: it *is* g now (g's answer is not looked at any more)
        fns[wk] = dict(wf, mir=gm, promoted=gf.get("promoted", []), redispatch_of=gk)
        fns.pop(gk, None)
        for k2, f2 in list(fns.items()):
            if f2.get("kind") == "Closure" and (f2.get("parent") == gk or f2.get("root") == gk):
                nf2 = dict(f2)
                if nf2.get("parent") == gk:
                    nf2["parent"] = wk
                if nf2.get("root") == gk:
                    nf2["root"] = wk
                fns[k2] = nf2
        done.add(wk)
    return done


class AnchorError(Exception):
    """A role locator matched zero or several items: fail closed."""


class Program:
    def __init__(self, doc):
        self.doc = doc
        self.fns = doc["fns"]
        self._bodies = {}
        self.consts = doc["consts"]
        self.adts = {a["path"]: a for a in doc["adts"]}
        self.impls = doc["impls"]
        self.statics = doc["statics"]
        self.unsafe_blocks = doc["unsafe_blocks"]
        self.lit_arrays = doc["lit_arrays"]
        self.const_by_name = {}
        for c in self.consts:
            self.const_by_name.setdefault(c["name"], []).append(c)
        self._cg = None
        from . import analyses as _an
        _an.CURRENT_PROG[:] = [self]
        self._dissolve_helpers()
        self._tuple_accessors()

    def _dissolve_helpers(self):
        """Private helper structs embedded by value in a role struct (`LearnedSelections { selections, prev_selection }` inside the method
        struct, a newtype around the key map) only group fields: in field paths, field lists and constructor aggregates the role struct is
        seen with the helper's fields as its own.  A helper qualifies when it is a plain crate-private struct (no generics, one variant, not a
        role type) that is the type of exactly one field in the whole crate."""
        from . import mir as _mir
        _mir.DISSOLVE.clear()
        self._flat_fields = {}
        role_names = set(ROLE_TYPES.values())
        used = defaultdict(list)
        for path, a in self.adts.items():
            if a.get("kind") not in (None, "struct") and len(a["variants"]) != 1:
                continue
            for v in a["variants"]:
                for fl in v["fields"]:
                    used[fl["ty"]].append((path, fl["name"]))
        owners = [p for p in self.adts if p in role_names or p in self.method_structs_safe()]
        # the suggestion-engine struct etc. are role types by ROLE_TYPES already
        for S in owners:
            a = self.adts.get(S)
            if not a or len(a["variants"]) != 1:
                continue
            taken = {fl["name"] for fl in a["variants"][0]["fields"]}
            for fl in a["variants"][0]["fields"]:
                H = fl["ty"]
                H0 = H
                H = re.sub(r"<'\w+(?:, '\w+)*>$", "", H)          # lifetime parameters only (`Wrapping<'a>`): still a plain grouping of fields
                h = self.adts.get(H)
                if not h or H in role_names or "<" in H or len(h["variants"]) != 1 or h.get("kind") == "enum" or len(used.get(H0, [])) != 1:
                    continue
                if fl["name"] in _mir.DISSOLVE:
                    continue
                hf = h["variants"][0]["fields"]
                if not hf or len(hf) > 6:
                    continue
                rename = {}
                for x in hf:
                    nm = x["name"]
                    if len(hf) == 1 and nm.isdigit():
                        flat = fl["name"]                       # a newtype: the wrapped value is the field itself
                    elif nm in taken or nm.isdigit():
                        flat = "%s_%s" % (fl["name"], nm)
                    else:
                        flat = nm
                    rename[nm] = flat
                    taken.add(flat)
                _mir.DISSOLVE[fl["name"]] = {"owner": S, "helper": H, "rename": rename}
        for S in owners:
            a = self.adts.get(S)
            if not a or len(a["variants"]) != 1:
                continue
            out = []
            for fl in a["variants"][0]["fields"]:
                d = _mir.DISSOLVE.get(fl["name"])
                if d is not None and d["owner"] == S:
                    for x in self.adts[d["helper"]]["variants"][0]["fields"]:
                        out.append(dict(x, name=d["rename"][x["name"]]))
                else:
                    out.append(fl)
            self._flat_fields[S] = out

    def method_structs_safe(self):
        try:
            return set(self.method_structs())
        except Exception:
            return set()

    def _tuple_accessors(self):
        """Accessor equivalences of the crate's own types: a `&self` method returning a tuple whose i-th component is exactly what a
        single-value `&self` accessor of the same type returns."""
        from . import mir as _mir
        _mir.TUPLE_ACCESSOR_EQUIV.clear()
        by_ty = {}
        for k, f in self.fns.items():
            imp = f.get("impl") or {}
            st = imp.get("self") or ""
            if not st or imp.get("trait") or f.get("kind") == "Closure" or len(f.get("inputs") or []) != 1 or not f["inputs"][0].startswith("&") \
                    or len(f["mir"]["blocks"]) > 12:
                continue
            by_ty.setdefault(st, []).append(k)

        def norm(e):
            return re.sub(r"@bb\d+", "", repr(e))
        for st, ks in by_ty.items():
            singles, tuples = {}, []
            for k in sorted(ks):
                try:
                    r = Body(self.fns[k]).expr_local(0)
                except Exception:
                    continue
                while r.k in ("ref", "deref"):
                    r = r.a[0]
                if r.k == "agg" and r.a[0] == "tuple" and len(r.a[1]) >= 2:
                    tuples.append((k, r))
                elif (self.fns[k].get("output") or "").startswith("&"):
                    singles.setdefault(norm(r), k)
            for k, r in tuples:
                for i, comp in enumerate(r.a[1]):
                    while comp.k in ("ref", "deref"):
                        comp = comp.a[0]
                    if norm(comp) in singles:
                        _mir.TUPLE_ACCESSOR_EQUIV[(k, i)] = singles[norm(comp)]
                    elif comp.k == "call" and comp.a[0] in singles.values() and len(comp.a[1]) == 1:
                        a0 = comp.a[1][0]
                        while a0.k in ("ref", "deref"):
                            a0 = a0.a[0]
                        if a0.k == "arg" and a0.a[0] == 1:
                            _mir.TUPLE_ACCESSOR_EQUIV[(k, i)] = comp.a[0]

    # ---- bodies
    def body(self, key):
        """The default view of a function: its MIR with *helper-type plumbing* spliced in — small loop-free methods / conversions of
        private helper types (a struct bundling two values, an enum naming a table row …).  Original blocks keep their numbers.
        `raw_body` gives the function exactly as compiled."""
        if key not in self._bodies:
            plumb = self.plumbing_fns()
            from .inline import has_for_each
            if (plumb and key not in plumb and any(self._calls_any(key, plumb))) or has_for_each(self.fns[key]["mir"]):
                from .inline import inlined_body
                self._bodies[key] = inlined_body(self, key, stop=lambda g: g not in plumb, maxdepth=3)
            else:
                f = self.fns[key]
                if any(re.sub(r"<.*$", "", l["ty"]) in self.adts for l in f["mir"]["locals"][f["mir"]["arg_count"] + 1:]):
                    # a local of a crate-private struct type that is only used field by field is a bundle of variables
                    import copy
                    from .sroa import scalarise
                    m = copy.deepcopy(f["mir"])
                    if scalarise(m, self):
                        f = dict(f)
                        f["mir"] = m
                self._bodies[key] = Body(f)
        return self._bodies[key]

    def owner_fn(self, key):
        """The named function a closure (of a closure …) is written in; a named function is its own owner."""
        for _ in range(6):
            f = self.fns.get(key) or {}
            if f.get("kind") != "Closure" or f.get("parent") not in self.fns:
                break
            key = f["parent"]
        return key

    def raw_body(self, key):
        k = ("raw", key)
        if k not in self._bodies:
            self._bodies[k] = Body(self.fns[key])
        return self._bodies[k]

    def _calls_any(self, key, targets):
        for b in self.fns[key]["mir"]["blocks"]:
            t = b["term"]
            if t["k"] == "call" and "callee" in t:
                c = t["callee"]
                yield (c.get("resolved") in targets) or (c.get("path") in targets)

    # types whose methods are the rules' vocabulary (never plumbing)
    ROLE_TYPE_PREFIXES = ("config::Config", "data::Data", "utility::SplittedString", "suggestion::Suggestion", "suggestion::Rank", "context::RitiContext",
                          "fixed::layout::Layout", "fixed::method::FixedMethod", "phonetic::method::PhoneticMethod",
                          "phonetic::suggestion::PhoneticSuggestion", "(dyn ", "char")

    def plumbing_fns(self):
        if getattr(self, "_plumbing", None) is not None:
            return self._plumbing
        out = set()
        local_adts = set(self.adts)
        for k, f in self.fns.items():
            if f.get("kind") == "Closure" or f.get("no_mangle"):
                continue
            imp = f.get("impl") or {}
            st = re.sub(r"<.*$", "", imp.get("self") or "")
            if not st or st not in local_adts or any(st.startswith(p) for p in self.ROLE_TYPE_PREFIXES):
                continue
            # role types found by structure as well: the method structs and what they embed
            if st in self.method_structs() or any(st == re.sub(r"<.*$", "", fl["ty"]) for ms in self.method_structs() for fl in self.struct_fields(ms)
                                                  if re.sub(r"<.*$", "", fl["ty"]) in local_adts and len(self.adts[re.sub(r"<.*$", "", fl["ty"])]["variants"][0]["fields"]) > 3):
                continue
            tr = imp.get("trait")
            derived = bool((f.get("def_loc") or {}).get("macro")) and tr in ("std::cmp::PartialEq", "std::cmp::Ord", "std::cmp::PartialOrd", "std::clone::Clone",
                                                                              "std::default::Default")
            if tr and not derived and tr not in ("std::convert::From", "std::convert::Into", "std::default::Default", "std::convert::AsRef", "std::ops::Deref",
                                                 "std::borrow::Borrow", "std::convert::TryFrom"):
                continue
            m = f["mir"]
            if len(m["blocks"]) > 40:
                continue
            if Body(f).loops():
                continue
            out.add(k)
        self._plumbing = out
        return out

    def promoted(self, key, i):
        k = (key, i)
        if k not in self._bodies:
            self._bodies[k] = Body(self.fns[key], self.fns[key]["promoted"][i])
        return self._bodies[k]

    # ---- lookup
    def fn_named(self, name, self_ty=None, trait=None, required=True):
        """Unique local fn by item name (+ impl self type / trait)."""
        out = []
        for k, f in self.fns.items():
            if f.get("name") != name:
                continue
            imp = f.get("impl") or {}
            if self_ty is not None and not (imp.get("self") or "").startswith(self_ty):
                continue
            if trait is not None and imp.get("trait") != trait:
                continue
            if trait is None and self_ty is not None and imp.get("trait"):
                # inherent lookups do not match trait impls unless asked
                pass
            out.append(k)
        if len(out) != 1:
            if not required and not out:
                return None
            raise AnchorError("locator fn name=%s self=%s trait=%s matched %d items: %s" % (name, self_ty, trait, len(out), out))
        return out[0]

    def fns_where(self, pred):
        return [k for k, f in self.fns.items() if pred(f)]

    def trait_impl_methods(self, trait, name=None):
        out = []
        for k, f in self.fns.items():
            imp = f.get("impl") or {}
            if imp.get("trait") == trait and (name is None or f.get("name") == name):
                out.append(k)
        return out

    def impl_methods_for(self, trait, self_ty):
        """Methods of the local `impl trait for self_ty` (generic arguments ignored)."""
        idx = self.__dict__.setdefault("_impl_idx", None)
        if idx is None:
            idx = defaultdict(list)
            for k, f in self.fns.items():
                imp = f.get("impl") or {}
                if imp.get("trait"):
                    idx[(imp["trait"], re.sub(r"<.*$", "", imp.get("self", "")))].append(k)
            self._impl_idx = idx
        return idx.get((trait, re.sub(r"<.*$", "", self_ty)), [])

    def closures_of(self, key):
        return [k for k, f in self.fns.items() if f.get("root") == key or f.get("parent") == key]

    def struct_fields(self, path):
        a = self.adts.get(path)
        if not a:
            raise AnchorError("no ADT %s" % path)
        ff = getattr(self, "_flat_fields", {}).get(path)
        if ff is not None:
            return ff
        return a["variants"][0]["fields"]

    # ---- call graph
    def callgraph(self):
        if self._cg is not None:
            return self._cg
        cg = defaultdict(set)
        self.call_sites = defaultdict(list)   # callee key -> [(caller key, bb, term)]
        for k in self.fns:
            b = self.body(k)
            for (bb, t) in b.calls():
                c = t.get("callee")
                if not c:
                    continue
                if c.get("rkind") == "virtual":
                    for m in self.trait_impl_methods(c.get("trait"), c.get("name")):
                        cg[k].add(m)
                        self.call_sites[m].append((k, bb, t))
                    continue
                r = c.get("resolved") if c.get("rkind") == "item" else None
                tgt = r if (r in self.fns) else (c["path"] if c["path"] in self.fns else None)
                if tgt:
                    cg[k].add(tgt)
                    self.call_sites[tgt].append((k, bb, t))
                # call-backs: the callee (std or a local generic) may call the local impl of a trait it has a bound for
                # (only where the callee's body is not analysed itself, or is generic over the bounded type)
                if tgt is None or self.fns[tgt].get("generics"):
                    for (st, tr) in c.get("bounds") or []:
                        for m in self.impl_methods_for(tr, st):
                            cg[k].add(m)
            # closures created here, fn items referenced as values
            for (i, j, s) in b.stmts():
                if s["k"] != "assign":
                    continue
                rv = s["rv"]
                if rv["k"] == "aggregate" and rv["agg"] == "closure" and rv["closure"] in self.fns:
                    cg[k].add(rv["closure"])
                for op in _operands_of_rvalue(rv):
                    if op["k"] == "const" and "fn" in op:
                        p = op["fn"].get("resolved") or op["fn"]["path"]
                        if p in self.fns:
                            cg[k].add(p)
            for (bb, t) in b.calls():
                for op in t["args"]:
                    if op["k"] == "const" and "fn" in op:
                        p = op["fn"].get("resolved") or op["fn"]["path"]
                        if p in self.fns:
                            cg[k].add(p)
        self._cg = cg
        return cg

    def reach(self, entries, foreign_trait_impls=True):
        """Closure of the call graph (direct calls, dyn fan-out, closures / fn items created, and trait call-backs through the
        callee's bounds).  `foreign_trait_impls` is kept for callers and ignored: call-backs are exact now."""
        cg = self.callgraph()
        seen = set()
        stack = list(entries)
        while stack:
            x = stack.pop()
            if x in seen or x not in self.fns:
                continue
            seen.add(x)
            stack.extend(cg[x])
        return seen

    # ---- roles
    def exported(self):
        return sorted(k for k, f in self.fns.items() if f.get("no_mangle") and str(f.get("abi", "")).startswith("C"))

    def method_structs(self):
        """Self types of the local `impl Method for _`."""
        tys = set()
        for k, f in self.fns.items():
            imp = f.get("impl") or {}
            if imp.get("trait") == "context::Method":
                tys.add(imp["self"])
        return sorted(tys)

    def method_impl(self, self_ty, name):
        return self.fn_named(name, self_ty=self_ty, trait="context::Method")

    def context_entry_points(self):
        out = []
        for k, f in self.fns.items():
            imp = f.get("impl") or {}
            if imp.get("self") == "context::RitiContext" and not imp.get("trait") and f.get("vis") == "pub":
                out.append(k)
        return sorted(out)


def _operands_of_rvalue(rv):
    k = rv["k"]
    if k in ("use", "cast", "repeat"):
        return [rv["op"]]
    if k == "binop":
        return [rv["l"], rv["r"]]
    if k == "unop":
        return [rv["x"]]
    if k == "aggregate":
        return rv["ops"]
    return []
