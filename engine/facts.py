"""Runs factgen over /repo's current working tree and loads the fact file.

Nothing of riti is executed: cargo +nightly check (metadata only) drives
rustc's front end; the factgen wrapper serialises HIR/MIR after analysis.
"""
import fcntl
import json
import os
import shutil
import subprocess
import sys
import time
import uuid
import glob

VERIF = os.path.dirname(os.path.dirname(os.path.abspath(__file__)))
REPO = os.environ.get("VERIF_REPO", "/repo")
CACHE = os.path.join(VERIF, ".cache")
FACTGEN = os.path.join(VERIF, "factgen", "target", "debug", "factgen")


class FactgenError(Exception):
    pass


def _sysroot():
    return subprocess.check_output(["rustc", "+nightly", "--print", "sysroot"], text=True).strip()


def build_factgen():
    env = dict(os.environ, CARGO_NET_OFFLINE="true")
    r = subprocess.run(["cargo", "build", "--offline"], cwd=os.path.join(VERIF, "factgen"),
                       env=env, stdout=subprocess.PIPE, stderr=subprocess.STDOUT, text=True)
    if r.returncode != 0:
        raise FactgenError("cannot build factgen:\n" + r.stdout[-4000:])


def generate(repo=REPO, features=(), crates=("riti",), deps=False, tag="riti", test_cfg=False):
    """Returns (doc_by_crate, info). Always re-analyses the riti crate itself."""
    if not os.path.exists(FACTGEN):
        build_factgen()
    os.makedirs(CACHE, exist_ok=True)
    target = os.path.join(CACHE, "target-deps" if deps else "target")
    nonce = uuid.uuid4().hex
    out_dir = os.path.join(CACHE, "facts-" + nonce)
    os.makedirs(out_dir)
    lock = open(os.path.join(CACHE, "lock"), "w")
    fcntl.flock(lock, fcntl.LOCK_EX)
    t0 = time.time()
    try:
        # cargo's freshness cache would otherwise skip the wrapper silently
        names = list(crates) if deps else ["riti"]
        for n in names:
            for fp in glob.glob(os.path.join(target, "debug", ".fingerprint", n.replace("_", "-") + "-*")):
                shutil.rmtree(fp, ignore_errors=True)
            for fp in glob.glob(os.path.join(target, "debug", ".fingerprint", n.replace("-", "_") + "-*")):
                shutil.rmtree(fp, ignore_errors=True)
        env = dict(os.environ)
        env.update({
            "LD_LIBRARY_PATH": _sysroot() + "/lib",
            "RUSTFLAGS": "-Zmir-opt-level=0 -Awarnings",
            "CARGO_TARGET_DIR": target,
            "CARGO_NET_OFFLINE": "true",
            "FACTGEN_OUT_DIR": out_dir,
            "FACTGEN_NONCE": nonce,
            "FACTGEN_CRATES": ",".join(crates),
            "CARGO_INCREMENTAL": "0",
        })
        env.pop("RUSTC_WRAPPER", None)
        env.pop("RUSTC_WORKSPACE_WRAPPER", None)
        env["RUSTC_WRAPPER" if deps else "RUSTC_WORKSPACE_WRAPPER"] = FACTGEN
        cmd = ["cargo", "+nightly", "check", "--offline", "--lib"]
        if features:
            cmd += ["--features", ",".join(features)]
        if test_cfg:
            cmd += ["--profile", "test"]
        r = subprocess.run(cmd, cwd=repo, env=env, stdout=subprocess.PIPE, stderr=subprocess.STDOUT, text=True)
        if r.returncode != 0:
            raise FactgenError("cargo check of %s failed (does the tree compile?):\n%s" % (repo, r.stdout[-6000:]))
        docs = {}
        for c in crates:
            p = os.path.join(out_dir, c + ".json")
            if not os.path.exists(p):
                raise FactgenError("factgen did not run for crate %s (stale cargo cache?)" % c)
            with open(p, encoding="utf-8") as f:
                doc = json.load(f)
            if doc.get("nonce") != nonce or doc.get("crate") != c:
                raise FactgenError("fact file for %s is stale (nonce mismatch)" % c)
            docs[c] = doc
        info = {"wall_s": round(time.time() - t0, 2), "nonce": nonce, "features": list(features),
                "repo": repo, "rustc": docs[crates[0]].get("rustc")}
        return docs, info
    finally:
        shutil.rmtree(out_dir, ignore_errors=True)
        fcntl.flock(lock, fcntl.LOCK_UN)
        lock.close()


if __name__ == "__main__":
    docs, info = generate()
    print(info, {k: len(v["fns"]) for k, v in docs.items()})
    if len(sys.argv) > 1:
        json.dump(docs["riti"], open(sys.argv[1], "w"))
