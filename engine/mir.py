"""MIR analysis core over factgen JSON: CFG with split switch edges,
dominators, reaching definitions of temporaries, symbolic expression
resolution (copies, refs, casts, field projections), access paths.

Everything here is a static analysis of the MIR facts; nothing is executed.
"""
from collections import defaultdict


# ---------------------------------------------------------------------------
# expression terms

class E:
    """Symbolic value term.  kinds:
    const(valdict) | arg(n) | local(n) | field(base,name) | deref(x) | ref(x,mut)
    | downcast(x,variant) | index(x,i) | call(path,args,pos) | bin(op,l,r) | un(op,x)
    | cast(kind,x,ty) | discr(x) | agg(kind,ops) | phi(alts) | cycle(n) | unknown(why)
    """
    __slots__ = ("k", "a", "t", "_h")

    def __init__(self, k, *a, t=None):
        self.k = k
        self.a = a
        self.t = t          # originating terminator / statement (not part of identity)
        self._h = None

    def __eq__(self, o):
        return isinstance(o, E) and self.k == o.k and self.a == o.a

    def __hash__(self):
        if self._h is None:
            self._h = hash((self.k, self.a))
        return self._h

    def __repr__(self):
        k, a = self.k, self.a
        if k == "const":
            return "const(%s)" % (a[0],)
        if k == "arg":
            return "arg%d" % a[0]
        if k == "local":
            return "_%d" % a[0]
        if k == "field":
            return "%r.%s" % (a[0], a[1])
        if k == "deref":
            return "*%r" % (a[0],)
        if k == "ref":
            return "&%s%r" % ("mut " if a[1] else "", a[0])
        if k == "downcast":
            return "(%r as %s)" % (a[0], a[1])
        if k == "call":
            return "%s(%s)@bb%d" % (a[0], ", ".join(map(repr, a[1])), a[2])
        if k == "phi":
            return "phi(%s)" % ", ".join(map(repr, a[0]))
        return "%s(%s)" % (k, ", ".join(map(repr, a)))

    # ---- helpers
    def walk(self):
        """All sub-terms (pre-order)."""
        seen = set()
        stack = [self]
        while stack:
            x = stack.pop()
            if id(x) in seen:
                continue
            seen.add(id(x))
            yield x
            for c in x.children():
                stack.append(c)

    def rebuild(self, fn):
        """Bottom-up rewrite: fn(E) -> E|None applied to every node after its children were rebuilt."""
        k, a = self.k, self.a
        if k in ("field", "downcast"):
            n = E(k, a[0].rebuild(fn), a[1], t=self.t)
        elif k in ("deref", "discr"):
            n = E(k, a[0].rebuild(fn), t=self.t)
        elif k == "ref":
            n = E(k, a[0].rebuild(fn), a[1], t=self.t)
        elif k == "index":
            n = E(k, a[0].rebuild(fn), a[1].rebuild(fn), t=self.t)
        elif k == "call":
            n = E(k, a[0], tuple(x.rebuild(fn) for x in a[1]), a[2], t=self.t)
        elif k == "bin":
            n = E(k, a[0], a[1].rebuild(fn), a[2].rebuild(fn), t=self.t)
        elif k == "un":
            n = E(k, a[0], a[1].rebuild(fn), t=self.t)
        elif k == "cast":
            n = E(k, a[0], a[1].rebuild(fn), a[2], t=self.t)
        elif k == "agg":
            n = E(k, a[0], tuple(x.rebuild(fn) for x in a[1]), t=self.t)
        elif k == "phi":
            n = E(k, tuple(x.rebuild(fn) for x in a[0]), t=self.t)
        else:
            n = self
        if n.k == "deref" and n.a[0].k == "ref":
            n = n.a[0].a[0]
        r = fn(n)
        return n if r is None else r

    def children(self):
        k, a = self.k, self.a
        if k in ("field", "deref", "ref", "downcast", "discr"):
            return [a[0]]
        if k == "index":
            return [a[0], a[1]]
        if k == "call":
            return list(a[1])
        if k == "bin":
            return [a[1], a[2]]
        if k == "un":
            return [a[1]]
        if k == "cast":
            return [a[1]]
        if k == "agg":
            return list(a[1])
        if k == "phi":
            return list(a[0])
        return []


def const_key(c):
    """Hashable summary of a constant operand."""
    for k in ("str", "char", "int", "bool"):
        if k in c:
            return (k, c[k])
    if "bytes" in c:
        return ("bytes", tuple(c["bytes"]))
    if "array" in c:
        return ("array", tuple((x.get("cp") if isinstance(x, dict) else x) for x in c["array"]))
    if "fn" in c:
        return ("fn", c["fn"].get("resolved") or c["fn"]["path"])
    if "promoted" in c:
        return ("promoted", c["promoted"])
    if "zst" in c:
        return ("zst", c.get("ty"))
    return ("opaque", c.get("ty"), c.get("item"))


TUPLE_ACCESSOR_EQUIV = {}     # (tuple-returning accessor, component index) -> single accessor returning the same thing; filled by Program


NONE_RV = {"k": "aggregate", "agg": "adt", "adt": "std::option::Option", "variant": "None", "vidx": 0, "fields": [], "ops": []}


def mk_call(name, args, bb, t):
    """E for a call; std calls whose result is fixed by their definition are given as that value:
    the residual of `?` on an Option is always None."""
    if name.startswith("<std::option::Option<T> as std::ops::FromResidual<std::option::Option<std::convert::Infallible>>>::from_residual"):
        return E("agg", "adt:std::option::Option::None", (), t=NONE_RV)
    if name.startswith("<std::option::Option<T> as std::ops::Try>::branch") and len(args) == 1:
        # `?` on an Option whose variant is known on this path (a helper's `Some(..)` / `None` spliced in)
        x = args[0]
        while x.k in ("ref", "deref"):
            x = x.a[0]
        if x.k == "agg" and x.a[0] == "adt:std::option::Option::Some" and len(x.a[1]) == 1:
            return E("agg", "adt:std::ops::ControlFlow::Continue", (x.a[1][0],), t=CONTINUE_RV)
        if x.k == "agg" and x.a[0] == "adt:std::option::Option::None":
            return E("agg", "adt:std::ops::ControlFlow::Break", (E("agg", "adt:std::option::Option::None", (), t=NONE_RV),), t=BREAK_RV)
    if len(args) == 2 and "cmp::impls::<impl std::cmp::Ord for " in name and name.endswith(">::cmp"):
        # comparison of two integers that are known on this path (e.g. the discriminants of two known variants of a field-less enum)
        vs = [_known_int(a) for a in args]
        if vs[0] is not None and vs[1] is not None:
            v = "Less" if vs[0] < vs[1] else ("Equal" if vs[0] == vs[1] else "Greater")
            return E("agg", "adt:std::cmp::Ordering::" + v, (), t={"k": "aggregate", "agg": "adt", "adt": "std::cmp::Ordering", "variant": v,
                                                                   "vidx": {"Less": 0, "Equal": 1, "Greater": 2}[v], "fields": [], "ops": []})
    return E("call", name, args, bb, t=t)


def _known_int(e):
    while e.k in ("ref", "deref"):
        e = e.a[0]
    if e.k == "const" and e.a[0][0] in ("int", "bool"):
        return int(e.a[0][1])
    if e.k == "discr":
        x = e.a[0]
        while x.k in ("ref", "deref"):
            x = x.a[0]
        if x.k == "agg" and x.t is not None and "vidx" in x.t and x.t.get("adt") != "std::cmp::Ordering":
            return x.t["vidx"]
    return None


CONTINUE_RV = {"k": "aggregate", "agg": "adt", "adt": "std::ops::ControlFlow", "variant": "Continue", "vidx": 0, "fields": ["0"], "ops": []}
BREAK_RV = {"k": "aggregate", "agg": "adt", "adt": "std::ops::ControlFlow", "variant": "Break", "vidx": 1, "fields": ["0"], "ops": []}


def callee_name(t):
    """Canonical callee identity of a call terminator (resolved impl if any)."""
    c = t.get("callee")
    if not c:
        return "<indirect>"
    if c.get("rkind") in ("item",) and c.get("resolved"):
        return c["resolved"]
    return c["path"]


def callee_path(t):
    c = t.get("callee")
    return c["path"] if c else "<indirect>"


# ---------------------------------------------------------------------------

class Body:
    def __init__(self, fn, mir=None):
        self.fn = fn
        self.key = fn["path"]
        m = mir if mir is not None else fn["mir"]
        self.m = m
        self.blocks = m["blocks"]
        self.locals = m["locals"]
        self.arg_count = m["arg_count"]
        self.n = len(self.blocks)
        self._build_cfg()
        self._build_defs()
        self._expr_memo = {}

    # ---- CFG --------------------------------------------------------------
    def _build_cfg(self):
        # nodes: block i -> i ; switch edge k of block i -> ("e", i, k)
        self.succ = defaultdict(list)   # node -> [node]
        self.pred = defaultdict(list)
        self.edge_label = {}            # ("e", i, k) -> (values tuple | "otherwise", target)
        self.bsucc = defaultdict(list)  # block -> [block] (normal edges)
        self.bpred = defaultdict(list)
        for i, b in enumerate(self.blocks):
            t = b["term"]
            k = t["k"]
            outs = []
            if k == "goto":
                outs = [t["target"]]
            elif k == "switch":
                # group values by target to keep or-patterns together
                by_target = defaultdict(list)
                order = []
                for v, tb in t["targets"]:
                    if tb not in by_target:
                        order.append(tb)
                    by_target[tb].append(v)
                ei = 0
                for tb in order:
                    node = ("e", i, ei)
                    self.edge_label[node] = (tuple(by_target[tb]), tb)
                    self._add(i, node)
                    self._add(node, tb)
                    self.bsucc[i].append(tb)
                    self.bpred[tb].append(i)
                    ei += 1
                node = ("e", i, ei)
                self.edge_label[node] = ("otherwise", t["otherwise"])
                self._add(i, node)
                self._add(node, t["otherwise"])
                self.bsucc[i].append(t["otherwise"])
                self.bpred[t["otherwise"]].append(i)
                continue
            elif k in ("call", "assert", "drop"):
                if t.get("target") is not None:
                    outs = [t["target"]]
            for o in outs:
                self._add(i, o)
                self.bsucc[i].append(o)
                self.bpred[o].append(i)
        # reachability from entry over normal edges
        self.reach = set()
        stack = [0]
        while stack:
            x = stack.pop()
            if x in self.reach:
                continue
            self.reach.add(x)
            stack.extend(self.succ[x])
        self.rblocks = sorted(x for x in self.reach if isinstance(x, int))
        self._dominators()
        self._postdominators()

    def _add(self, a, b):
        self.succ[a].append(b)
        self.pred[b].append(a)

    def _dominators(self):
        nodes = [x for x in self._rpo()]
        idx = {n: i for i, n in enumerate(nodes)}
        idom = {nodes[0]: nodes[0]}
        changed = True
        while changed:
            changed = False
            for n in nodes[1:]:
                new = None
                for p in self.pred[n]:
                    if p in idom:
                        if new is None:
                            new = p
                        else:
                            a, b = p, new
                            while a != b:
                                while idx[a] > idx[b]:
                                    a = idom[a]
                                while idx[b] > idx[a]:
                                    b = idom[b]
                            new = a
                if new is not None and idom.get(n) != new:
                    idom[n] = new
                    changed = True
        self.idom = idom

    def _rpo(self):
        seen = set()
        order = []
        stack = [(0, iter(self.succ[0]))]
        seen.add(0)
        while stack:
            n, it = stack[-1]
            adv = False
            for s in it:
                if s not in seen:
                    seen.add(s)
                    stack.append((s, iter(self.succ[s])))
                    adv = True
                    break
            if not adv:
                order.append(n)
                stack.pop()
        order.reverse()
        return order

    def _postdominators(self):
        # virtual exit "X" joined from all return blocks (and diverging ends)
        exits = [i for i in self.rblocks if self.blocks[i]["term"]["k"] == "return"]
        self.return_blocks = exits
        rsucc = defaultdict(list)
        rpred = defaultdict(list)
        for a in self.reach:
            for b in self.succ[a]:
                if b in self.reach:
                    rsucc[b].append(a)
                    rpred[a].append(b)
        for e in exits:
            rsucc["X"].append(e)
            rpred[e].append("X")
        seen = {"X"}
        order = []
        stack = [("X", iter(rsucc["X"]))]
        while stack:
            n, it = stack[-1]
            adv = False
            for s in it:
                if s not in seen:
                    seen.add(s)
                    stack.append((s, iter(rsucc[s])))
                    adv = True
                    break
            if not adv:
                order.append(n)
                stack.pop()
        order.reverse()
        idx = {n: i for i, n in enumerate(order)}
        ipdom = {"X": "X"}
        changed = True
        while changed:
            changed = False
            for n in order[1:]:
                new = None
                for p in rpred[n]:
                    if p in ipdom:
                        if new is None:
                            new = p
                        else:
                            a, b = p, new
                            while a != b:
                                while idx[a] > idx[b]:
                                    a = ipdom[a]
                                while idx[b] > idx[a]:
                                    b = ipdom[b]
                            new = a
                if new is not None and ipdom.get(n) != new:
                    ipdom[n] = new
                    changed = True
        self.ipdom = ipdom

    def dominates(self, a, b):
        """node a dominates node b (reflexive)."""
        if b not in self.idom or a not in self.idom:
            return False
        x = b
        while True:
            if x == a:
                return True
            p = self.idom[x]
            if p == x:
                return False
            x = p

    def postdominates(self, a, b):
        """node a post-dominates node b w.r.t. normal returns (reflexive)."""
        if b not in self.ipdom or a not in self.ipdom:
            return False
        x = b
        while True:
            if x == a:
                return True
            p = self.ipdom[x]
            if p == x:
                return False
            x = p

    def pos_dominates(self, p1, p2):
        """(bb, idx) positions; idx == len(stmts) is the terminator."""
        (b1, i1), (b2, i2) = p1, p2
        if b1 == b2:
            return i1 <= i2
        return self.dominates(b1, b2)

    def switch_edges(self, bb):
        """[(edge_node, values|'otherwise', target)] of a switch block."""
        out = []
        k = 0
        while ("e", bb, k) in self.edge_label:
            vals, tgt = self.edge_label[("e", bb, k)]
            out.append((("e", bb, k), vals, tgt))
            k += 1
        return out

    def reachable_from(self, start, avoid=()):
        """blocks reachable from block `start` over normal edges, not passing through `avoid` blocks."""
        seen = set()
        stack = [start]
        avoid = set(avoid)
        while stack:
            x = stack.pop()
            if x in seen or x in avoid:
                continue
            seen.add(x)
            stack.extend(self.bsucc[x])
        return seen

    def local_name(self, l):
        """Source-level name of a local (debug info), or _N."""
        for d in self.fn["mir"].get("debug", []):
            pl = d.get("place")
            if pl and pl["l"] == l and not pl["p"]:
                return d["name"]
        return "_%d" % l

    def loops(self):
        """Back edges (a->h with h dominating a) => natural loop headers."""
        heads = defaultdict(set)
        for a in self.rblocks:
            for b in self.bsucc[a]:
                if self.dominates(b, a):
                    heads[b].add(a)
        return heads

    def loop_body(self, head, tails):
        body = {head}
        stack = list(tails)
        while stack:
            x = stack.pop()
            if x in body:
                continue
            body.add(x)
            stack.extend(self.bpred[x])
        return body

    # ---- definitions -------------------------------------------------------
    def _build_defs(self):
        self.defs = defaultdict(list)   # local -> [(bb, idx, kind, payload)]
        for i in self.rblocks:
            b = self.blocks[i]
            for j, s in enumerate(b["stmts"]):
                if s["k"] in ("assign", "setdiscr"):
                    pr = s["place"]["p"]
                    if pr and pr[0] == "*":
                        continue        # a store through a pointer: not a definition of the pointer local
                    self.defs[s["place"]["l"]].append((i, j, s["k"], s))
            t = b["term"]
            if t["k"] == "call":
                self.defs[t["dest"]["l"]].append((i, len(b["stmts"]), "call", t))

    def whole_defs(self, local):
        return [d for d in self.defs.get(local, []) if not d[3].get("place", d[3].get("dest"))["p"]]

    # ---- expressions -------------------------------------------------------
    def expr_operand(self, op, depth=0, env=None):
        k = op["k"]
        if k in ("copy", "move"):
            return self.expr_place(op["place"], depth, env)
        if k == "const":
            if "promoted" in op:
                pb = self.promoted_body(op["promoted"])
                if pb is not None:
                    return pb.expr_local(0)
            return E("const", const_key(op), t=op)
        return E("unknown", "operand")

    def promoted_body(self, n):
        ps = self.fn.get("promoted") or []
        if n >= len(ps):
            return None
        if not hasattr(self, "_promoted"):
            self._promoted = {}
        if n not in self._promoted:
            self._promoted[n] = Body(self.fn, ps[n]) if ps[n] is not self.m else None
        return self._promoted[n]

    def expr_local(self, l, depth=0):
        if l in self._expr_memo:
            v = self._expr_memo[l]
            if v is None:
                return E("cycle", l)
            return v
        if 1 <= l <= self.arg_count:
            # parameters may also be re-assigned; treat whole-defs as phi with arg
            wd = self.whole_defs(l)
            if not wd:
                e = E("arg", l)
                self._expr_memo[l] = e
                return e
        if depth > 60:
            return E("local", l)
        self._expr_memo[l] = None
        wd = self.whole_defs(l)
        partial = [d for d in self.defs.get(l, []) if d not in wd]
        alts = []
        if 1 <= l <= self.arg_count:
            alts.append(E("arg", l))
        for (bb, idx, kind, payload) in wd:
            if kind == "assign":
                alts.append(self.expr_rvalue(payload["rv"], depth + 1, payload))
            elif kind == "call":
                args = tuple(self.expr_operand(a, depth + 1) for a in payload["args"])
                alts.append(mk_call(callee_name(payload), args, bb, payload))
            else:
                alts.append(E("local", l))
        if not alts:
            e = E("local", l)          # only partial (field-wise) definitions or none
        elif len(alts) == 1 and not partial:
            e = alts[0]
        elif len(alts) == 1 and partial:
            # aggregate built then fields overwritten: keep as the local (stateful)
            e = E("local", l)
        else:
            flat = []
            for a in alts:
                for x in (a.a[0] if a.k == "phi" else (a,)):        # nested alternatives are alternatives
                    if x not in flat:
                        flat.append(x)
            e = flat[0] if len(flat) == 1 else E("phi", tuple(flat))
        self._expr_memo[l] = e
        return e

    def expr_place(self, p, depth=0, env=None):
        if env is not None and p["l"] in env:
            base = env[p["l"]]
        else:
            base = self.expr_local(p["l"], depth)
        return self._project(base, p["p"], env)

    def _project_one(self, e, el, env=None):
        """One projection element applied to e; None when the projection cannot apply (a downcast to another variant of a known aggregate)."""
        if el == "*":
            return e.a[0] if e.k == "ref" else E("deref", e)
        if "f" in el:
            name = el.get("n", el["f"])
            if e.k == "call" and len(e.a[1]) == 1 and (e.a[0], el["f"]) in TUPLE_ACCESSOR_EQUIV:
                # `x.as_tuple().1` is `x.word()`: a tuple-returning accessor's component is the single accessor that returns the same thing
                return E("call", TUPLE_ACCESSOR_EQUIV[(e.a[0], el["f"])], e.a[1], e.a[2], t=e.t)
            if e.k == "agg" and (e.a[0] in ("tuple",) or str(e.a[0]).startswith("adt:") or str(e.a[0]).startswith("closure:")) \
                    and isinstance(el["f"], int) and el["f"] < len(e.a[1]):
                return e.a[1][el["f"]]      # (a spliced-in closure body reads its captures from the closure value built in the caller)
            return E("field", e, name)
        if "dc" in el:
            if e.k == "agg" and str(e.a[0]).startswith("adt:"):
                if str(e.a[0]).endswith("::" + str(el.get("n"))):
                    return e                # downcast of a known variant aggregate: keep the aggregate, the field projection picks its operand
                if e.t is not None and "vidx" in e.t and isinstance(el.get("dc"), int) and e.t["vidx"] != el["dc"]:
                    return None             # the value is another variant on this alternative
            return E("downcast", e, el.get("n", el["dc"]))
        if "idx" in el:
            return E("index", e, env[el["idx"]] if (env is not None and el["idx"] in env) else self.expr_local(el["idx"]))
        if "cidx" in el:
            return E("index", e, E("const", ("int", el["cidx"])))
        return E("field", e, str(el))

    def _project(self, base, proj, env=None):
        e = base
        for el in proj:
            if e.k == "phi" and len(e.a[0]) <= 8 and any(a.k == "agg" for a in e.a[0]):
                # a projection distributes over the alternatives (those it cannot apply to drop out)
                alts = []
                for a in e.a[0]:
                    r = self._project_one(a, el, env)
                    if r is not None and r not in alts:
                        alts.append(r)
                if len(alts) == 1:
                    e = alts[0]
                elif alts:
                    e = E("phi", tuple(alts))
                else:
                    e = self._project_one(e, el, env)
                continue
            r = self._project_one(e, el, env)
            if r is None:
                r = E("downcast", e, el.get("n", el["dc"]))
            e = r
        return e

    def expr_rvalue(self, rv, depth=0, stmt=None, env=None):
        k = rv["k"]
        if k == "use":
            return self.expr_operand(rv["op"], depth, env)
        if k == "ref":
            inner = self.expr_place(rv["place"], depth, env)
            return E("ref", inner, bool(rv["mut"]))
        if k == "rawptr":
            inner = self.expr_place(rv["place"], depth, env)
            return E("ref", inner, "Mut" in rv["kind"])
        if k == "cast":
            return E("cast", rv["kind"], self.expr_operand(rv["op"], depth, env), rv["ty"])
        if k == "binop":
            return E("bin", rv["op"], self.expr_operand(rv["l"], depth, env), self.expr_operand(rv["r"], depth, env))
        if k == "unop":
            return E("un", rv["op"], self.expr_operand(rv["x"], depth, env))
        if k == "discr":
            return E("discr", self.expr_place(rv["place"], depth, env))
        if k == "aggregate":
            kind = rv["agg"]
            if kind == "adt":
                kind = "adt:%s::%s" % (rv["adt"], rv["variant"])
            elif kind == "closure":
                kind = "closure:%s" % rv["closure"]
            ops = tuple(self.expr_operand(o, depth, env) for o in rv["ops"])
            if DISSOLVE and rv["agg"] == "adt" and any(fn in DISSOLVE and DISSOLVE[fn]["owner"] == rv["adt"] for fn in rv.get("fields") or ()):
                fl, ol = [], []
                for fn, op in zip(rv["fields"], ops):
                    d = DISSOLVE.get(fn)
                    inner = strip_refs(op)
                    if d is not None and d["owner"] == rv["adt"] and inner.k == "agg" and inner.t is not None and inner.t.get("adt") == d["helper"] \
                            and all(x in d["rename"] for x in inner.t.get("fields") or ()):
                        for fn2, op2 in zip(inner.t["fields"], inner.a[1]):
                            fl.append(d["rename"][fn2])
                            ol.append(op2)
                    else:
                        fl.append(fn)
                        ol.append(op)
                rv = dict(rv, fields=fl)
                ops = tuple(ol)
            return E("agg", kind, ops, t=rv)
        if k == "repeat":
            return E("agg", "repeat", (self.expr_operand(rv["op"], depth, env),))
        return E("unknown", rv.get("dbg", k))

    def eval_path(self, blocks, env=None, upto=None):
        """Path-sensitive values: evaluate the statements of `blocks` in order, binding every
        wholly-assigned local.  `upto` = (bb, idx) stops before that position.  Returns env."""
        env = dict(env or {})
        for b in blocks:
            blk = self.blocks[b]
            for j, s in enumerate(blk["stmts"]):
                if upto is not None and (b, j) == upto:
                    return env
                if s["k"] == "assign":
                    val = self.expr_rvalue(s["rv"], 0, s, env)
                    if not s["place"]["p"]:
                        env[s["place"]["l"]] = val
                    else:
                        l = s["place"]["l"]
                        base = env.get(l)
                        # writes through a reference do not rebind the pointer local
                        if s["place"]["p"][0] != "*":
                            env[l] = E("local", l)
            if upto is not None and (b, len(blk["stmts"])) == upto:
                return env
            t = blk["term"]
            if t["k"] == "call" and not t["dest"]["p"]:
                args = tuple(self.expr_operand(a, 0, env) for a in t["args"])
                env[t["dest"]["l"]] = mk_call(callee_name(t), args, b, t)
        return env

    # ---- iteration helpers -------------------------------------------------
    def calls(self):
        """[(bb, term)] for all reachable (non-cleanup) call terminators."""
        out = []
        for i in self.rblocks:
            t = self.blocks[i]["term"]
            if t["k"] == "call":
                out.append((i, t))
        return out

    def term_pos(self, bb):
        return (bb, len(self.blocks[bb]["stmts"]))

    def call_args(self, t):
        return [self.expr_operand(a) for a in t["args"]]

    def stmts(self):
        for i in self.rblocks:
            for j, s in enumerate(self.blocks[i]["stmts"]):
                yield (i, j, s)

    def line_of(self, bb, idx=None):
        b = self.blocks[bb]
        if idx is not None and idx < len(b["stmts"]):
            return b["stmts"][idx]["loc"]["line"]
        return b["term"].get("loc", {}).get("line")

    def file(self):
        return self.fn["loc"]["file"]


# ---------------------------------------------------------------------------
# access paths

def strip_refs(e):
    """Look through refs/derefs/value-preserving casts."""
    while True:
        if e.k in ("ref", "deref"):
            e = e.a[0]
        elif e.k == "cast" and ("Unsize" in str(e.a[0]) or "PtrToPtr" in str(e.a[0]) or "Transmute" in str(e.a[0])):
            e = e.a[1]
        else:
            return e


def apath(e):
    """(root E, (field, ...)) skipping refs/derefs; None if not a path."""
    fields = []
    while True:
        if e.k in ("ref", "deref"):
            e = e.a[0]
        elif e.k == "field":
            fields.append(str(e.a[1]))
            e = e.a[0]
        elif e.k == "downcast":
            fields.append("@" + str(e.a[1]))
            e = e.a[0]
        elif e.k == "cast" and ("Unsize" in str(e.a[0]) or "PtrToPtr" in str(e.a[0])):
            e = e.a[1]
        else:
            break
    fields.reverse()
    if DISSOLVE and len(fields) > 1:
        # a field of a private helper struct embedded in a role struct is that struct's own field (the helper only groups them)
        out, i = [], 0
        while i < len(fields):
            d = DISSOLVE.get(fields[i])
            if d is not None and i + 1 < len(fields) and fields[i + 1] in d["rename"]:
                out.append(d["rename"][fields[i + 1]])
                i += 2
            else:
                out.append(fields[i])
                i += 1
        fields = out
    return e, tuple(fields)


# field name of a role struct → {"owner": S, "helper": H, "rename": {field of H: name in the flattened view of S}}; filled by Program
DISSOLVE = {}


def self_path(e):
    """If e is (a reference to) a field path of the first parameter: tuple of field names; else None."""
    root, fields = apath(e)
    if root.k == "arg" and root.a[0] == 1:
        return fields
    return None


def is_const(e, kind=None, val=None):
    if e.k != "const":
        return False
    if kind is not None and e.a[0][0] != kind:
        return False
    if val is not None and e.a[0][1] != val:
        return False
    return True


def const_val(e):
    return e.a[0][1] if e.k == "const" else None
