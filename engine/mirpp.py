#!/usr/bin/env python3
"""Pretty-printer for factgen MIR JSON (debug aid)."""
import json, sys

def place(p):
    s = f"_{p['l']}"
    for e in p['p']:
        if e == '*': s = f"(*{s})"
        elif 'f' in e: s = f"{s}.{e.get('n', e['f'])}"
        elif 'idx' in e: s = f"{s}[_{e['idx']}]"
        elif 'dc' in e: s = f"({s} as {e.get('n', e['dc'])})"
        elif 'cidx' in e: s = f"{s}[{e['cidx']}{'^' if e.get('from_end') else ''}]"
        else: s = f"{s}.<{e}>"
    return s

def const(c):
    if 'fn' in c: return 'fn ' + c['fn']['full']
    for k in ('str', 'char'):
        if k in c: return repr(c[k]) + (f"(U+{c['cp']:04X})" if 'cp' in c else '')
    for k in ('int', 'bool', 'bytes', 'promoted', 'zst', 'opaque'):
        if k in c:
            return f"{k}:{c[k]}" + (f" [{c['item']}]" if 'item' in c else '') + f" :{c['ty']}"
    return str(c)

def op(o):
    if o['k'] in ('copy', 'move'): return o['k'] + ' ' + place(o['place'])
    if o['k'] == 'const': return 'const ' + const(o)
    return str(o)

def rv(r):
    k = r['k']
    if k == 'use': return op(r['op'])
    if k == 'ref': return ('&mut ' if r['mut'] else '&') + place(r['place'])
    if k == 'rawptr': return f"&raw {r['kind']} " + place(r['place'])
    if k == 'cast': return f"{op(r['op'])} as {r['ty']} ({r['kind']})"
    if k == 'binop': return f"{r['op']}({op(r['l'])}, {op(r['r'])})"
    if k == 'unop': return f"{r['op']}({op(r['x'])})"
    if k == 'discr': return f"discriminant({place(r['place'])})"
    if k == 'aggregate':
        nm = r['agg']
        if nm == 'adt': nm = f"{r['adt']}::{r['variant']}"
        if nm == 'closure': nm = f"closure {r['closure']}"
        return f"{nm} {{ " + ', '.join(op(o) for o in r['ops']) + " }"
    return str(r)

def term(t):
    k = t['k']
    if k == 'goto': return f"goto bb{t['target']}"
    if k == 'switch':
        return f"switch({op(t['discr'])}: {t['discr_ty']}) [" + ', '.join(f"{v}:bb{b}" for v, b in t['targets']) + f", otherwise:bb{t['otherwise']}]"
    if k == 'call':
        c = t.get('callee')
        name = c['full'] if c else 'INDIRECT ' + op(t['indirect'])
        extra = ''
        if c:
            extra = f" [{c.get('rkind')}" + (f" -> {c['resolved']}" if c.get('resolved') and c['resolved'] != c['path'] else '') + ']'
        return f"{place(t['dest'])} = {name}(" + ', '.join(op(a) for a in t['args']) + f") -> bb{t['target']} unwind {t['unwind']}{extra}"
    if k == 'assert':
        return f"assert({op(t['cond'])} == {t['expected']}, {t['kind']}) -> bb{t['target']}"
    if k == 'drop': return f"drop({place(t['place'])}) -> bb{t['target']}"
    return k + (' ' + t.get('dbg', '') if k == 'other' else '')

def show(f, body=None):
    m = body or f['mir']
    print(f"fn {f['path']}  args={m['arg_count']}")
    for i, l in enumerate(m['locals']): print(f"  let _{i}: {l['ty']}")
    for d in m['debug']: print(f"  debug {d['name']} => {place(d['place']) if 'place' in d else d['const']}")
    for i, b in enumerate(m['blocks']):
        print(f" bb{i}{' (cleanup)' if b.get('cleanup') else ''}:")
        for s in b['stmts']:
            if s['k'] == 'assign': print(f"    {place(s['place'])} = {rv(s['rv'])}   // L{s['loc']['line']}")
            else: print("   ", s)
        print(f"    {term(b['term'])}   // L{b['term'].get('loc', {}).get('line')}")

if __name__ == '__main__':
    d = json.load(open(sys.argv[1]))
    for name in sys.argv[2:]:
        for k, f in d['fns'].items():
            if name in k:
                show(f)
                for i, p in enumerate(f.get('promoted', [])):
                    print(f"--- promoted[{i}]"); show(f, p)
