"""Verdict bookkeeping: rule instances, floors, violations, known findings,
evidence and replay files."""
import hashlib
import json
import os
import sys
import time

VERIF = os.path.dirname(os.path.dirname(os.path.abspath(__file__)))
EVID = os.environ.get("VERIF_EVID_DIR") or os.path.join(VERIF, "evidence")
KNOWN = os.path.join(VERIF, "known_findings.json")


def load_known():
    if not os.path.exists(KNOWN):
        return {"findings": [], "fixed": []}
    with open(KNOWN, encoding="utf-8") as f:
        return json.load(f)


class Rule:
    def __init__(self, check, rid, title, clause):
        self.check = check
        self.rid = rid
        self.title = title
        self.clause = clause          # which clause of the property this is a necessary condition of
        self.instances = []           # (key, status, detail)
        self.floor_n = None
        self.floor_what = None
        self.notes = []
        self.tables = {}
        self.assumptions = []

    # status: holds | violation | undecidable | advisory
    def ok(self, key, detail=None):
        self.instances.append({"key": key, "status": "holds", "detail": detail})

    def violation(self, key, msg, site=None, facts=None):
        self.instances.append({"key": key, "status": "violation", "msg": msg, "site": site, "facts": facts})

    def undecidable(self, key, msg, site=None, facts=None):
        self.instances.append({"key": key, "status": "undecidable", "msg": msg, "site": site, "facts": facts})

    def advisory(self, key, msg):
        self.instances.append({"key": key, "status": "advisory", "msg": msg})

    def floor(self, n, what):
        """The rule must have matched at least n instances (counted by hand on the pinned tree)."""
        self.floor_n = n
        self.floor_what = what

    def note(self, s):
        self.notes.append(s)

    def assume(self, s):
        self.assumptions.append(s)
        if s not in self.check.assumptions:
            self.check.assumptions.append(s)

    def table(self, name, value):
        self.tables[name] = value

    def count(self, status=None):
        if status is None:
            return len([i for i in self.instances if i["status"] != "advisory"])
        return len([i for i in self.instances if i["status"] == status])


class Check:
    def __init__(self, pid, tier="quick", seed=0):
        self.pid = pid
        self.tier = tier
        self.seed = seed
        self.rules = []
        self.assumptions = []
        self.t0 = time.time()
        self.not_decided = []
        self.analysed = {}
        self.explanation = ""

    def rule(self, rid, title, clause=""):
        r = Rule(self, rid, title, clause)
        self.rules.append(r)
        return r

    def open_issues(self):
        """What finish() would report as violations (floors included, known findings excluded) — without changing anything."""
        known = load_known()
        kf = {(k["property"], k["key"]) for k in known.get("findings", [])}
        out = []
        for r in self.rules:
            if r.floor_n is not None and r.count() < r.floor_n:
                out.append((r.rid, "floor", "undecidable"))
            for inst in r.instances:
                if inst["status"] in ("violation", "undecidable"):
                    full_key = "%s:%s" % (r.rid, inst["key"])
                    if (self.pid, full_key) in kf and inst["status"] == "violation":
                        continue
                    out.append((r.rid, inst["key"], inst["status"]))
        return out

    def finish(self):
        known = load_known()
        kf = {(k["property"], k["key"]): k for k in known.get("findings", [])}
        violations = []
        known_hits = []
        for r in self.rules:
            n = r.count()
            if r.floor_n is not None and n < r.floor_n:
                r.undecidable("floor", "rule matched %d instances, hand-counted floor is %d (%s) — an anchor moved or an idiom is no longer recognised"
                              % (n, r.floor_n, r.floor_what))
            for inst in r.instances:
                if inst["status"] in ("violation", "undecidable"):
                    full_key = "%s:%s" % (r.rid, inst["key"])
                    if (self.pid, full_key) in kf and inst["status"] == "violation":
                        inst["status"] = "known-finding"
                        known_hits.append((full_key, kf[(self.pid, full_key)].get("what", inst.get("msg", ""))))
                    else:
                        violations.append((r, inst, full_key))
        os.makedirs(os.path.join(EVID, "replay"), exist_ok=True)
        lines = []
        for key, what in known_hits:
            lines.append("KNOWN-FINDING: property=%s %s — %s" % (self.pid, key, what))
        for r, inst, full_key in violations:
            h = hashlib.sha1(full_key.encode()).hexdigest()[:10]
            path = os.path.join(EVID, "replay", "%s-%s-%s.json" % (self.pid, r.rid.replace(".", "_"), h))
            with open(path, "w", encoding="utf-8") as f:
                json.dump({"property": self.pid, "rule": r.rid, "rule_title": r.title, "clause": r.clause,
                           "key": full_key, "kind": inst["status"], "msg": inst.get("msg"),
                           "site": inst.get("site"), "facts": inst.get("facts"), "tier": self.tier},
                          f, ensure_ascii=False, indent=1, default=str)
            site = inst.get("site") or {}
            where = ""
            if site:
                where = " at %s:%s in %s" % (site.get("file", "?"), site.get("line", "?"), site.get("function", "?"))
            print("  [%s] %s %s%s: %s" % (inst["status"].upper(), r.rid, inst["key"], where, inst.get("msg")))
            lines.append("VIOLATION property=%s replay=%s" % (self.pid, path))
        # evidence
        total = sum(r.count() for r in self.rules)
        holds = sum(r.count("holds") for r in self.rules) + sum(r.count("known-finding") for r in self.rules)
        distinct = len({(r.rid, i["key"]) for r in self.rules for i in r.instances if i["status"] != "advisory"})
        samples = []
        for r in self.rules:
            for i in r.instances[:2]:
                samples.append({"rule": r.rid, "instance": i["key"], "status": i["status"],
                                "detail": i.get("detail") or i.get("msg")})
        rules_out = []
        for r in self.rules:
            rules_out.append({
                "rule": r.rid, "title": r.title, "necessary_for_clause": r.clause,
                "instances": r.count(), "holds": r.count("holds"), "violations": r.count("violation"),
                "undecidable": r.count("undecidable"), "known_findings": r.count("known-finding"),
                "floor": r.floor_n, "floor_counts": r.floor_what, "notes": r.notes,
                "advisories": [i["msg"] for i in r.instances if i["status"] == "advisory"],
                "tables": r.tables,
                "instance_keys": [i["key"] for i in r.instances if i["status"] != "advisory"][:400],
            })
        ev = {
            "property_id": self.pid,
            "tier": self.tier,
            "seed": self.seed,
            "level": "other",
            "coverage": {
                "explanation": self.explanation,
                "obligations": total,
                "discharged": holds,
                "evaluations": total,
                "distinct_nontrivial": distinct,
                "rule": "one evaluation = one (rule, construct) instance found in the MIR/HIR facts of /repo's current tree; "
                        "distinct = distinct (rule, key) pairs; non-trivial = the rule's locator matched that construct "
                        "(instances are enumerated from the program, not sampled; nothing is random)",
                "samples": samples[:40],
                "exhaustive": True,
                "rules": rules_out,
                "analysed": self.analysed,
                "not_decided": self.not_decided,
                "known_findings_reported": [k for k, _ in known_hits],
            },
            "assumptions": self.assumptions,
            "wall_s": round(time.time() - self.t0, 3),
            "violations": len(violations),
        }
        os.makedirs(EVID, exist_ok=True)
        with open(os.path.join(EVID, "%s.json" % self.pid), "w", encoding="utf-8") as f:
            json.dump(ev, f, ensure_ascii=False, indent=1, default=str)
        for r in self.rules:
            print("  %-8s %-70s instances=%d holds=%d viol=%d undec=%d known=%d" % (
                r.rid, r.title[:70], r.count(), r.count("holds"), r.count("violation"),
                r.count("undecidable"), r.count("known-finding")))
        for ln in lines:
            print(ln)
        sys.stdout.flush()
        return 1 if violations else 0


def site_of(body, bb=None, idx=None, line=None):
    s = {"file": body.file(), "function": body.key}
    if bb is not None and bb < len(body.blocks) and body.blocks[bb].get("inl"):
        s["function"] = body.blocks[bb]["inl"] + " (inlined into " + body.key + ")"
        loc = None
        blk = body.blocks[bb]
        for st in blk["stmts"]:
            if st.get("loc", {}).get("file"):
                loc = st["loc"]
                break
        loc = loc or blk["term"].get("loc") or {}
        if loc.get("file"):
            s["file"] = loc["file"]
    if line is None and bb is not None:
        line = body.line_of(bb, idx)
    s["line"] = line
    if bb is not None:
        s["bb"] = bb
    return s
