// Serialises rustc's view of one crate: items, MIR bodies (opt-level 0),
// evaluated constants, ADTs, impls, unsafe blocks and literal arrays.

use crate::json::J;
use rustc_hir as hir;
use rustc_hir::def::DefKind;
use rustc_hir::def_id::{DefId, LocalDefId};
use rustc_hir::intravisit::{self, Visitor};
use rustc_middle::mir::{self, *};
use rustc_middle::ty::{self, GenericArgsRef, Instance, Ty, TyCtxt, TypingEnv};
use rustc_span::Span;

pub fn dump_crate<'tcx>(tcx: TyCtxt<'tcx>, name: &str) -> String {
    rustc_middle::ty::print::with_no_trimmed_paths!({
        let d = Dumper { tcx };
        let doc = d.crate_doc(name);
        let mut s = String::new();
        doc.write(&mut s);
        s
    })
}

struct Dumper<'tcx> {
    tcx: TyCtxt<'tcx>,
}

impl<'tcx> Dumper<'tcx> {
    fn crate_doc(&self, name: &str) -> J {
        let tcx = self.tcx;
        let mut fns = Vec::new();
        let mut keys: Vec<LocalDefId> = tcx.mir_keys(()).iter().copied().collect();
        keys.sort_by_key(|d| tcx.def_path_str(d.to_def_id()));
        for def in keys {
            match tcx.def_kind(def) {
                DefKind::Fn | DefKind::AssocFn | DefKind::Closure => {
                    fns.push((self.key(def.to_def_id()), self.function(def)));
                }
                _ => {}
            }
        }

        let mut consts = Vec::new();
        let mut statics = Vec::new();
        let mut adts = Vec::new();
        let mut impls = Vec::new();
        let mut traits = Vec::new();
        for def in tcx.hir_crate_items(()).definitions() {
            let did = def.to_def_id();
            match tcx.def_kind(def) {
                DefKind::Const { .. } | DefKind::AssocConst { .. } => {
                    let ty = tcx.type_of(did).instantiate_identity().skip_norm_wip();
                    let val = match tcx.const_eval_poly(did) {
                        Ok(v) => self.const_value(v, ty),
                        Err(_) => J::obj().put_s("opaque", "eval-error").done(),
                    };
                    consts.push(
                        J::obj()
                            .put_s("path", self.key(did))
                            .put_s("name", tcx.item_name(did).to_string())
                            .put_s("ty", ty.to_string())
                            .put("val", val)
                            .put("loc", self.loc(tcx.def_span(did)))
                            .done(),
                    );
                }
                DefKind::Static { .. } => {
                    let ty = tcx.type_of(did).instantiate_identity().skip_norm_wip();
                    statics.push(
                        J::obj()
                            .put_s("path", self.key(did))
                            .put_s("ty", ty.to_string())
                            .put_b("mutable", tcx.is_mutable_static(did))
                            .put("loc", self.loc(tcx.def_span(did)))
                            .done(),
                    );
                }
                DefKind::Struct | DefKind::Enum | DefKind::Union => {
                    adts.push(self.adt(did));
                }
                DefKind::Impl { .. } => {
                    impls.push(self.impl_block(did));
                }
                DefKind::Trait => {
                    let items: Vec<J> = tcx
                        .associated_item_def_ids(did)
                        .iter()
                        .map(|i| J::s(tcx.opt_item_name(*i).map(|n| n.to_string()).unwrap_or_else(|| "<anon>".to_string())))
                        .collect();
                    traits.push(
                        J::obj()
                            .put_s("path", self.key(did))
                            .put("items", J::Arr(items))
                            .done(),
                    );
                }
                _ => {}
            }
        }

        // HIR-level facts: unsafe blocks, literal arrays.
        let mut unsafe_blocks = Vec::new();
        let mut lit_arrays = Vec::new();
        for owner in tcx.hir_body_owners() {
            let body = tcx.hir_body_owned_by(owner);
            let mut v = HirV {
                d: self,
                owner: self.key(owner.to_def_id()),
                unsafe_blocks: &mut unsafe_blocks,
                lit_arrays: &mut lit_arrays,
            };
            v.visit_expr(body.value);
        }

        let cfg: Vec<J> = tcx
            .sess
            .config
            .iter()
            .map(|(k, v)| match v {
                Some(v) => J::s(format!("{}={}", k, v)),
                None => J::s(k.to_string()),
            })
            .collect();

        J::obj()
            .put_i("schema", 1)
            .put_s("crate", name)
            .put_s("nonce", std::env::var("FACTGEN_NONCE").unwrap_or_default())
            .put_s("rustc", tcx.sess.cfg_version)
            .put("cfg", J::Arr(cfg))
            .put("fns", J::Obj(fns))
            .put("consts", J::Arr(consts))
            .put("statics", J::Arr(statics))
            .put("adts", J::Arr(adts))
            .put("impls", J::Arr(impls))
            .put("traits", J::Arr(traits))
            .put("unsafe_blocks", J::Arr(unsafe_blocks))
            .put("lit_arrays", J::Arr(lit_arrays))
            .done()
    }

    fn key(&self, did: DefId) -> String {
        self.tcx.def_path_str(did)
    }

    fn loc(&self, span: Span) -> J {
        let sm = self.tcx.sess.source_map();
        let exp = span.from_expansion();
        let root = if exp { span.source_callsite() } else { span };
        let lo = sm.lookup_char_pos(root.lo());
        let hi = sm.lookup_char_pos(root.hi());
        let file = format!("{}", lo.file.name.prefer_local_unconditionally());
        let mut o = J::obj()
            .put_s("file", file)
            .put_i("line", lo.line as i128)
            .put_i("col", lo.col.0 as i128 + 1)
            .put_i("line_hi", hi.line as i128);
        if exp {
            o = o.put_b("exp", true);
            let data = span.ctxt().outer_expn_data();
            if let rustc_span::ExpnKind::Macro(_, name) = data.kind {
                o = o.put_s("macro", name.to_string());
            }
            // outermost macro too (format! inside a user macro etc.)
            let mut s = span;
            let mut outer = None;
            while s.from_expansion() {
                let d = s.ctxt().outer_expn_data();
                if let rustc_span::ExpnKind::Macro(_, name) = d.kind {
                    outer = Some(name.to_string());
                }
                s = d.call_site;
            }
            if let Some(n) = outer {
                o = o.put_s("outer_macro", n);
            }
        }
        o.done()
    }

    fn snippet(&self, span: Span) -> Option<J> {
        let root = if span.from_expansion() { span.source_callsite() } else { span };
        let s = self.tcx.sess.source_map().span_to_snippet(root).ok()?;
        let s: String = s.chars().take(400).collect();
        Some(J::s(s))
    }

    fn adt(&self, did: DefId) -> J {
        let tcx = self.tcx;
        let adt = tcx.adt_def(did);
        let mut variants = Vec::new();
        for v in adt.variants().iter() {
            let fields: Vec<J> = v
                .fields
                .iter()
                .map(|f| {
                    J::obj()
                        .put_s("name", f.name.to_string())
                        .put_s("ty", tcx.type_of(f.did).instantiate_identity().skip_norm_wip().to_string())
                        .put_s("vis", format!("{:?}", f.vis))
                        .done()
                })
                .collect();
            variants.push(
                J::obj()
                    .put_s("name", v.name.to_string())
                    .put("fields", J::Arr(fields))
                    .done(),
            );
        }
        let kind = if adt.is_enum() {
            "enum"
        } else if adt.is_union() {
            "union"
        } else {
            "struct"
        };
        J::obj()
            .put_s("path", self.key(did))
            .put_s("kind", kind)
            .put_s("vis", self.vis(did))
            .put("variants", J::Arr(variants))
            .put("loc", self.loc(tcx.def_span(did)))
            .done()
    }

    fn vis(&self, did: DefId) -> String {
        match self.tcx.visibility(did) {
            ty::Visibility::Public => "pub".to_string(),
            ty::Visibility::Restricted(m) => {
                if m.is_crate_root() {
                    "crate".to_string()
                } else {
                    format!("in:{}", self.key(m))
                }
            }
        }
    }

    fn impl_block(&self, did: DefId) -> J {
        let tcx = self.tcx;
        let self_ty = tcx.type_of(did).instantiate_identity().skip_norm_wip();
        let tr = tcx
            .impl_opt_trait_ref(did)
            .map(|t| t.instantiate_identity().skip_norm_wip());
        let items: Vec<J> = tcx
            .associated_item_def_ids(did)
            .iter()
            .map(|i| {
                J::obj()
                    .put_s("name", tcx.opt_item_name(*i).map(|n| n.to_string()).unwrap_or_else(|| "<anon>".to_string()))
                    .put_s("path", self.key(*i))
                    .put_s("kind", format!("{:?}", tcx.def_kind(*i)))
                    .done()
            })
            .collect();
        let mut o = J::obj()
            .put_s("self", self_ty.to_string())
            .put("items", J::Arr(items))
            .put("loc", self.loc(tcx.def_span(did)));
        if let Some(t) = tr {
            o = o
                .put_s("trait", self.key(t.def_id))
                .put_s("trait_ref", t.to_string())
                .put_b("trait_local", t.def_id.is_local());
        }
        o.done()
    }

    fn function(&self, def: LocalDefId) -> J {
        let tcx = self.tcx;
        let did = def.to_def_id();
        let kind = tcx.def_kind(def);
        let body = tcx.optimized_mir(def);
        let span = tcx.def_span(did);
        let mut o = J::obj()
            .put_s("path", self.key(did))
            .put_s("kind", format!("{:?}", kind))
            .put("loc", self.loc(body.span))
            .put("def_loc", self.loc(span));
        if let Some(name) = tcx.opt_item_name(did) {
            o = o.put_s("name", name.to_string());
        }
        let root = tcx.typeck_root_def_id(did);
        if root != did {
            o = o.put_s("parent", self.key(tcx.parent(did))).put_s("root", self.key(root));
        }
        if matches!(kind, DefKind::Fn | DefKind::AssocFn) {
            let sig = tcx.fn_sig(did).instantiate_identity().skip_norm_wip().skip_binder();
            let inputs: Vec<J> = sig.inputs().iter().map(|t| J::s(t.to_string())).collect();
            o = o
                .put("inputs", J::Arr(inputs))
                .put_s("output", sig.output().to_string())
                .put_s("abi", format!("{:?}", sig.abi()))
                .put_b("unsafe", !sig.safety().is_safe())
                .put_s("vis", self.vis(did))
                .put_i("generics", tcx.generics_of(did).count() as i128);
            let attrs = tcx.codegen_fn_attrs(did);
            o = o.put_b(
                "no_mangle",
                attrs
                    .flags
                    .contains(rustc_middle::middle::codegen_fn_attrs::CodegenFnAttrFlags::NO_MANGLE),
            );
            if let Some(sym) = attrs.symbol_name {
                o = o.put_s("export_name", sym.to_string());
            }
            if kind == DefKind::AssocFn {
                let parent = tcx.parent(did);
                if let DefKind::Impl { .. } = tcx.def_kind(parent) {
                    let self_ty = tcx.type_of(parent).instantiate_identity().skip_norm_wip();
                    let mut io = J::obj().put_s("self", self_ty.to_string());
                    if let Some(t) = tcx.impl_opt_trait_ref(parent) {
                        let t = t.instantiate_identity().skip_norm_wip();
                        io = io
                            .put_s("trait", self.key(t.def_id))
                            .put_s("trait_ref", t.to_string())
                            .put_b("trait_local", t.def_id.is_local());
                    }
                    o = o.put("impl", io.done());
                }
            }
        }
        o = o.put("mir", self.body(did, body));
        let promoted = tcx.promoted_mir(did);
        if !promoted.is_empty() {
            let ps: Vec<J> = promoted.iter().map(|b| self.body(did, b)).collect();
            o = o.put("promoted", J::Arr(ps));
        }
        o.done()
    }

    fn body(&self, owner: DefId, body: &Body<'tcx>) -> J {
        let tcx = self.tcx;
        let locals: Vec<J> = body
            .local_decls
            .iter()
            .map(|d| {
                let mut o = J::obj().put_s("ty", d.ty.to_string());
                if d.mutability.is_mut() {
                    o = o.put_b("mut", true);
                }
                o.done()
            })
            .collect();
        let debug: Vec<J> = body
            .var_debug_info
            .iter()
            .map(|v| {
                let mut o = J::obj().put_s("name", v.name.to_string());
                match &v.value {
                    VarDebugInfoContents::Place(p) => {
                        o = o.put("place", self.place(body, p));
                    }
                    VarDebugInfoContents::Const(c) => {
                        o = o.put("const", self.const_operand(owner, c));
                    }
                }
                if let Some(a) = v.argument_index {
                    o = o.put_i("arg", a as i128);
                }
                o.done()
            })
            .collect();
        let mut blocks = Vec::new();
        for (_bb, data) in body.basic_blocks.iter_enumerated() {
            let mut stmts = Vec::new();
            for st in &data.statements {
                if let Some(j) = self.statement(owner, body, st) {
                    stmts.push(j);
                }
            }
            let term = self.terminator(owner, body, data.terminator());
            let mut o = J::obj();
            if data.is_cleanup {
                o = o.put_b("cleanup", true);
            }
            blocks.push(o.put("stmts", J::Arr(stmts)).put("term", term).done());
        }
        let _ = tcx;
        J::obj()
            .put_i("arg_count", body.arg_count as i128)
            .put("locals", J::Arr(locals))
            .put("debug", J::Arr(debug))
            .put("blocks", J::Arr(blocks))
            .done()
    }

    fn place(&self, body: &Body<'tcx>, p: &Place<'tcx>) -> J {
        let tcx = self.tcx;
        let mut pty = mir::PlaceTy::from_ty(body.local_decls[p.local].ty);
        let mut proj = Vec::new();
        for elem in p.projection.iter() {
            let j = match elem {
                ProjectionElem::Deref => J::s("*"),
                ProjectionElem::Field(f, _) => {
                    let mut name = None;
                    if let ty::Adt(adt, _) = pty.ty.kind() {
                        let vidx = pty.variant_index.unwrap_or(rustc_abi::FIRST_VARIANT);
                        if !adt.is_union() || true {
                            if let Some(v) = adt.variants().get(vidx) {
                                if let Some(fd) = v.fields.get(f) {
                                    name = Some(fd.name.to_string());
                                }
                            }
                        }
                    }
                    let mut o = J::obj().put_i("f", f.as_usize() as i128);
                    if let Some(n) = name {
                        o = o.put_s("n", n);
                    }
                    o.done()
                }
                ProjectionElem::Index(l) => J::obj().put_i("idx", l.as_usize() as i128).done(),
                ProjectionElem::ConstantIndex { offset, from_end, .. } => J::obj()
                    .put_i("cidx", offset as i128)
                    .put_b("from_end", from_end)
                    .done(),
                ProjectionElem::Subslice { from, to, from_end } => J::obj()
                    .put("sub", J::Arr(vec![J::Int(from as i128), J::Int(to as i128)]))
                    .put_b("from_end", from_end)
                    .done(),
                ProjectionElem::Downcast(name, v) => {
                    let mut o = J::obj().put_i("dc", v.as_usize() as i128);
                    if let Some(n) = name {
                        o = o.put_s("n", n.to_string());
                    }
                    o.done()
                }
                other => J::obj().put_s("other", format!("{:?}", other)).done(),
            };
            proj.push(j);
            pty = pty.projection_ty(tcx, elem);
        }
        J::obj()
            .put_i("l", p.local.as_usize() as i128)
            .put("p", J::Arr(proj))
            .put_s("ty", pty.ty.to_string())
            .done()
    }

    fn operand(&self, owner: DefId, body: &Body<'tcx>, op: &Operand<'tcx>) -> J {
        match op {
            Operand::Copy(p) => J::obj().put_s("k", "copy").put("place", self.place(body, p)).done(),
            Operand::Move(p) => J::obj().put_s("k", "move").put("place", self.place(body, p)).done(),
            Operand::Constant(c) => self.const_operand(owner, c),
            #[allow(unreachable_patterns)]
            other => J::obj().put_s("k", "other").put_s("dbg", format!("{:?}", other)).done(),
        }
    }

    fn const_operand(&self, owner: DefId, c: &ConstOperand<'tcx>) -> J {
        let tcx = self.tcx;
        let ty = c.const_.ty();
        let mut o = J::obj().put_s("k", "const").put_s("ty", ty.to_string());
        if let ty::FnDef(did, args) = ty.kind() {
            return o.put("fn", self.callee(owner, *did, args)).done();
        }
        if let mir::Const::Unevaluated(u, _) = c.const_ {
            if let Some(p) = u.promoted {
                o = o.put_i("promoted", p.as_usize() as i128);
                return o.done();
            }
            if let Some(name) = tcx.opt_item_name(u.def) {
                o = o.put_s("item", name.to_string()).put_s("item_path", self.key(u.def));
            }
        }
        let env = TypingEnv::post_analysis(tcx, owner);
        match c.const_.eval(tcx, env, c.span) {
            Ok(v) => {
                let vj = self.const_value(v, ty);
                if let J::Obj(kv) = vj {
                    for (k, v) in kv {
                        o = o.put(k, v);
                    }
                }
            }
            Err(_) => {
                o = o.put_s("opaque", "eval-error");
            }
        }
        o.done()
    }

    fn const_value(&self, v: ConstValue, ty: Ty<'tcx>) -> J {
        let tcx = self.tcx;
        let mut o = J::obj();
        match v {
            ConstValue::Scalar(mir::interpret::Scalar::Int(i)) => {
                match ty.kind() {
                    ty::Bool => {
                        o = o.put_b("bool", i.to_bits_unchecked() != 0);
                    }
                    ty::Char => {
                        let cp = i.to_bits_unchecked() as u32;
                        o = o.put_i("cp", cp as i128);
                        if let Some(ch) = char::from_u32(cp) {
                            o = o.put_s("char", ch.to_string());
                        }
                    }
                    ty::Int(_) => {
                        let size = i.size();
                        o = o.put_i("int", size.sign_extend(i.to_bits_unchecked()) as i128);
                    }
                    _ => {
                        o = o.put_i("int", i.to_bits_unchecked() as i128);
                    }
                }
            }
            ConstValue::Scalar(mir::interpret::Scalar::Ptr(ptr, _)) => {
                // &[u8; N], &T …: try to read bytes for byte arrays.
                let mut done = false;
                if let ty::Ref(_, inner, _) = ty.kind() {
                    if let ty::Array(elem, len) = inner.kind() {
                        if *elem == tcx.types.u8 {
                            if let Some(n) = len.try_to_target_usize(tcx) {
                                let (prov, off) = ptr.prov_and_relative_offset();
                                if let Some(bytes) =
                                    self.read_bytes(prov.alloc_id(), off.bytes() as usize, n as usize)
                                {
                                    o = o.put(
                                        "bytes",
                                        J::Arr(bytes.iter().map(|b| J::Int(*b as i128)).collect()),
                                    );
                                    done = true;
                                }
                            }
                        }
                    }
                }
                if !done {
                    if let ty::Ref(_, inner, _) = ty.kind() {
                        if let ty::Array(elem, len) = inner.kind() {
                            if let Some(n) = len.try_to_target_usize(tcx) {
                                let (prov, off) = ptr.prov_and_relative_offset();
                                if let Some(v) = self.read_scalar_array(prov.alloc_id(), off.bytes() as usize, *elem, n as usize) {
                                    o = o.put("array", v);
                                    done = true;
                                }
                            }
                        }
                    }
                }
                if !done {
                    o = o.put_s("opaque", "ptr");
                }
            }
            ConstValue::ZeroSized => {
                o = o.put_b("zst", true);
            }
            ConstValue::Slice { alloc_id, meta }
                if matches!(ty.kind(), ty::Ref(_, t, _) if matches!(t.kind(), ty::Slice(e) if *e != tcx.types.u8)) =>
            {
                // `&[T]` of structured elements (e.g. `const TABLE: &[(u16, char)]`)
                let mut done = false;
                if let ty::Ref(_, t, _) = ty.kind() {
                    if let ty::Slice(elem) = t.kind() {
                        let arr_ty = Ty::new_array(tcx, *elem, meta);
                        if let Some(v) = self.read_value(alloc_id, 0, arr_ty, 0) {
                            o = o.put("value", v);
                            done = true;
                        }
                    }
                }
                if !done {
                    o = o.put_s("opaque", "slice");
                }
            }
            ConstValue::Slice { .. } => {
                if let Some(bytes) = v.try_get_slice_bytes_for_diagnostics(tcx) {
                    match std::str::from_utf8(bytes) {
                        Ok(s) if matches!(ty.kind(), ty::Ref(_, t, _) if t.is_str()) => {
                            o = o.put_s("str", s);
                        }
                        _ => {
                            o = o.put(
                                "bytes",
                                J::Arr(bytes.iter().map(|b| J::Int(*b as i128)).collect()),
                            );
                        }
                    }
                } else {
                    o = o.put_s("opaque", "slice");
                }
            }
            ConstValue::Indirect { alloc_id, offset } => {
                // arrays of scalars (e.g. `const MARKS: [char; 13]`)
                let mut done = false;
                if let ty::Array(elem, len) = ty.kind() {
                    if let Some(n) = len.try_to_target_usize(tcx) {
                        if let Some(v) = self.read_scalar_array(alloc_id, offset.bytes() as usize, *elem, n as usize) {
                            o = o.put("array", v);
                            done = true;
                        }
                    }
                }
                if !done {
                    // arrays / tuples of scalars (e.g. `const TABLE: [(char, char); 10]`)
                    if let Some(v) = self.read_value(alloc_id, offset.bytes() as usize, ty, 0) {
                        o = o.put("value", v);
                        done = true;
                    }
                }
                if !done {
                    o = o.put_s("opaque", "indirect");
                }
            }
        }
        o.done()
    }

    fn read_scalar_array(&self, id: mir::interpret::AllocId, off: usize, elem: Ty<'tcx>, n: usize) -> Option<J> {
        let size = match elem.kind() {
            ty::Char => 4,
            ty::Bool => 1,
            ty::Uint(u) => u.bit_width().map(|b| (b / 8) as usize).unwrap_or(8),
            ty::Int(u) => u.bit_width().map(|b| (b / 8) as usize).unwrap_or(8),
            _ => return None,
        };
        if n > 4096 {
            return None;
        }
        let bytes = self.read_bytes(id, off, size * n)?;
        let mut out = Vec::new();
        for i in 0..n {
            let mut v: u128 = 0;
            for b in 0..size {
                v |= (bytes[i * size + b] as u128) << (8 * b);
            }
            match elem.kind() {
                ty::Char => {
                    let ch = char::from_u32(v as u32)?;
                    out.push(J::obj().put_i("cp", v as i128).put_s("char", ch.to_string()).done());
                }
                ty::Bool => out.push(J::Bool(v != 0)),
                _ => out.push(J::Int(v as i128)),
            }
        }
        Some(J::Arr(out))
    }

    /// Structured read of a constant made of arrays, tuples and scalars only (layout-driven).
    fn read_value(&self, id: mir::interpret::AllocId, off: usize, ty: Ty<'tcx>, depth: usize) -> Option<J> {
        let tcx = self.tcx;
        if depth > 4 {
            return None;
        }
        let layout = tcx.layout_of(TypingEnv::fully_monomorphized().as_query_input(ty)).ok()?;
        match ty.kind() {
            ty::Char | ty::Bool | ty::Uint(_) | ty::Int(_) => {
                let size = layout.size.bytes() as usize;
                let bytes = self.read_bytes(id, off, size)?;
                let mut v: u128 = 0;
                for b in 0..size {
                    v |= (bytes[b] as u128) << (8 * b);
                }
                match ty.kind() {
                    ty::Char => {
                        let ch = char::from_u32(v as u32)?;
                        Some(J::obj().put_i("cp", v as i128).put_s("char", ch.to_string()).done())
                    }
                    ty::Bool => Some(J::Bool(v != 0)),
                    ty::Int(_) => Some(J::Int(layout.size.sign_extend(v) as i128)),
                    _ => Some(J::Int(v as i128)),
                }
            }
            ty::Array(elem, len) => {
                let n = len.try_to_target_usize(tcx)? as usize;
                if n > 4096 {
                    return None;
                }
                let el = tcx.layout_of(TypingEnv::fully_monomorphized().as_query_input(*elem)).ok()?;
                let stride = el.size.bytes() as usize;
                let mut out = Vec::new();
                for i in 0..n {
                    out.push(self.read_value(id, off + i * stride, *elem, depth + 1)?);
                }
                Some(J::obj().put("array", J::Arr(out)).done())
            }
            ty::Tuple(tys) => {
                let mut out = Vec::new();
                for (i, t) in tys.iter().enumerate() {
                    let fo = layout.fields.offset(i).bytes() as usize;
                    out.push(self.read_value(id, off + fo, t, depth + 1)?);
                }
                Some(J::obj().put("tuple", J::Arr(out)).done())
            }
            ty::Ref(_, inner, _) => {
                // follow the pointer through the allocation's provenance map
                let (pid, poff) = self.read_ptr(id, off)?;
                match inner.kind() {
                    ty::Slice(elem) => {
                        let lb = self.read_bytes(id, off + 8, 8)?;
                        let mut n: usize = 0;
                        for b in 0..8 {
                            n |= (lb[b] as usize) << (8 * b);
                        }
                        if n > 4096 {
                            return None;
                        }
                        let el = tcx.layout_of(TypingEnv::fully_monomorphized().as_query_input(*elem)).ok()?;
                        let stride = el.size.bytes() as usize;
                        let mut out = Vec::new();
                        for i in 0..n {
                            out.push(self.read_value(pid, poff + i * stride, *elem, depth + 1)?);
                        }
                        Some(J::obj().put("array", J::Arr(out)).done())
                    }
                    ty::Array(..) | ty::Tuple(..) => self.read_value(pid, poff, *inner, depth + 1),
                    ty::Str => {
                        let lb = self.read_bytes(id, off + 8, 8)?;
                        let mut n: usize = 0;
                        for b in 0..8 {
                            n |= (lb[b] as usize) << (8 * b);
                        }
                        if n > 65536 {
                            return None;
                        }
                        let bytes = self.read_bytes(pid, poff, n)?;
                        let st = std::str::from_utf8(&bytes).ok()?;
                        Some(J::obj().put_s("str", st).done())
                    }
                    _ => None,
                }
            }
            _ => None,
        }
    }

    fn read_ptr(&self, id: mir::interpret::AllocId, off: usize) -> Option<(mir::interpret::AllocId, usize)> {
        match self.tcx.try_get_global_alloc(id)? {
            mir::interpret::GlobalAlloc::Memory(a) => {
                let a = a.inner();
                let prov = a.provenance().get_ptr(rustc_abi::Size::from_bytes(off as u64))?;
                let bytes = self.read_bytes(id, off, 8)?;
                let mut v: usize = 0;
                for b in 0..8 {
                    v |= (bytes[b] as usize) << (8 * b);
                }
                Some((prov.alloc_id(), v))
            }
            _ => None,
        }
    }

    fn read_bytes(&self, id: mir::interpret::AllocId, off: usize, len: usize) -> Option<Vec<u8>> {
        match self.tcx.try_get_global_alloc(id)? {
            mir::interpret::GlobalAlloc::Memory(a) => {
                let a = a.inner();
                if off + len > a.len() {
                    return None;
                }
                Some(
                    a.inspect_with_uninit_and_ptr_outside_interpreter(off..off + len)
                        .to_vec(),
                )
            }
            _ => None,
        }
    }

    fn callee(&self, owner: DefId, did: DefId, args: GenericArgsRef<'tcx>) -> J {
        let tcx = self.tcx;
        let mut o = J::obj()
            .put_s("path", self.key(did))
            .put_s("full", tcx.def_path_str_with_args(did, args))
            .put_b("local", did.is_local());
        if let Some(n) = tcx.opt_item_name(did) {
            o = o.put_s("name", n.to_string());
        }
        let substs: Vec<J> = args.iter().map(|a| J::s(a.to_string())).collect();
        o = o.put("substs", J::Arr(substs));
        let kind = tcx.def_kind(did);
        if matches!(kind, DefKind::Fn | DefKind::AssocFn) {
            let sig = tcx.fn_sig(did).skip_binder().skip_binder();
            if !sig.safety().is_safe() {
                o = o.put_b("unsafe", true);
            }
        }
        if let Some(tr) = tcx.trait_of_assoc(did) {
            o = o.put_s("trait", self.key(tr));
            if let Some(t) = args.types().next() {
                o = o.put_s("self_ty", t.to_string());
            }
        } else if kind == DefKind::AssocFn {
            let parent = tcx.parent(did);
            if let DefKind::Impl { .. } = tcx.def_kind(parent) {
                let st = tcx.type_of(parent).instantiate(tcx, args).skip_norm_wip();
                o = o.put_s("self_ty", st.to_string());
            }
        }
        let mut bounds: Vec<J> = Vec::new();
        self.local_bounds(did, args, &mut bounds);
        let env = TypingEnv::post_analysis(tcx, owner);
        match Instance::try_resolve(tcx, env, did, args) {
            Ok(Some(inst)) => {
                let rdid = inst.def_id();
                if rdid != did && matches!(inst.def, ty::InstanceKind::Item(_)) {
                    self.local_bounds(rdid, inst.args, &mut bounds);
                }
                match inst.def {
                    ty::InstanceKind::Item(_) => {
                        o = o.put_s("rkind", "item");
                    }
                    ty::InstanceKind::Virtual(..) => {
                        o = o.put_s("rkind", "virtual");
                    }
                    ty::InstanceKind::Intrinsic(_) => {
                        o = o.put_s("rkind", "intrinsic");
                    }
                    ref other => {
                        let s = format!("{:?}", other);
                        let s = s.split('(').next().unwrap_or("").to_string();
                        o = o.put_s("rkind", format!("shim:{}", s));
                    }
                }
                o = o
                    .put_s("resolved", self.key(rdid))
                    .put_b("rlocal", rdid.is_local());
                if tcx.def_kind(rdid) == DefKind::Closure {
                    o = o.put_b("rclosure", true);
                }
            }
            Ok(None) => {
                o = o.put_s("rkind", "unresolved");
            }
            Err(_) => {
                o = o.put_s("rkind", "error");
            }
        }
        if !bounds.is_empty() {
            o = o.put("bounds", J::Arr(bounds));
        }
        o.done()
    }

    /// Trait bounds (with supertraits) the callee places on types defined in this crate: `[self type, trait]`.
    /// std can call a local trait impl back only through such a bound.
    fn local_bounds(&self, did: DefId, args: GenericArgsRef<'tcx>, out: &mut Vec<J>) {
        let tcx = self.tcx;
        if !matches!(tcx.def_kind(did), DefKind::Fn | DefKind::AssocFn) {
            return;
        }
        let preds = tcx.predicates_of(did).instantiate(tcx, args);
        for clause in preds.predicates.iter() {
            let clause = clause.clone().skip_norm_wip();
            if let Some(tp) = clause.as_trait_clause() {
                let tp = tp.skip_binder();
                // the trivial `Self: Trait` predicate of a trait method says nothing about call-backs
                if let Some(tr) = tcx.trait_of_assoc(did) {
                    if tp.trait_ref.def_id == tr && Some(tp.trait_ref.self_ty()) == args.types().next() {
                        continue;
                    }
                }
                let mut st = tp.trait_ref.self_ty();
                while let ty::Ref(_, inner, _) = st.kind() {
                    st = *inner;
                }
                let local_adt = match st.kind() {
                    ty::Adt(def, _) => def.did().is_local(),
                    _ => false,
                };
                if !local_adt {
                    continue;
                }
                for sup in rustc_type_ir::elaborate::supertrait_def_ids(tcx, tp.trait_ref.def_id) {
                    let tk = self.key(sup);
                    if tk.starts_with("std::marker::") || tk.starts_with("core::marker::") {
                        continue;
                    }
                    let j = J::Arr(vec![J::s(st.to_string()), J::s(tk)]);
                    out.push(j);
                }
            }
        }
    }

    fn statement(&self, owner: DefId, body: &Body<'tcx>, st: &Statement<'tcx>) -> Option<J> {
        match &st.kind {
            StatementKind::Assign(b) => {
                let (place, rv) = &**b;
                Some(
                    J::obj()
                        .put_s("k", "assign")
                        .put("place", self.place(body, place))
                        .put("rv", self.rvalue(owner, body, rv))
                        .put("loc", self.loc(st.source_info.span))
                        .done(),
                )
            }
            StatementKind::SetDiscriminant { place, variant_index } => Some(
                J::obj()
                    .put_s("k", "setdiscr")
                    .put("place", self.place(body, place))
                    .put_i("variant", variant_index.as_usize() as i128)
                    .put("loc", self.loc(st.source_info.span))
                    .done(),
            ),
            StatementKind::Intrinsic(i) => Some(
                J::obj()
                    .put_s("k", "intrinsic")
                    .put_s("dbg", format!("{:?}", i))
                    .put("loc", self.loc(st.source_info.span))
                    .done(),
            ),
            _ => None,
        }
    }

    fn rvalue(&self, owner: DefId, body: &Body<'tcx>, rv: &Rvalue<'tcx>) -> J {
        let tcx = self.tcx;
        match rv {
            Rvalue::Use(op, ..) => J::obj().put_s("k", "use").put("op", self.operand(owner, body, op)).done(),
            Rvalue::Repeat(op, n) => J::obj()
                .put_s("k", "repeat")
                .put("op", self.operand(owner, body, op))
                .put_s("n", n.to_string())
                .done(),
            Rvalue::Ref(_, bk, p) => J::obj()
                .put_s("k", "ref")
                .put_b("mut", matches!(bk, BorrowKind::Mut { .. }))
                .put("place", self.place(body, p))
                .done(),
            Rvalue::RawPtr(kind, p) => J::obj()
                .put_s("k", "rawptr")
                .put_s("kind", format!("{:?}", kind))
                .put("place", self.place(body, p))
                .done(),
            Rvalue::Cast(kind, op, ty) => J::obj()
                .put_s("k", "cast")
                .put_s("kind", format!("{:?}", kind))
                .put("op", self.operand(owner, body, op))
                .put_s("ty", ty.to_string())
                .done(),
            Rvalue::BinaryOp(bop, b) => {
                let (l, r) = &**b;
                J::obj()
                    .put_s("k", "binop")
                    .put_s("op", format!("{:?}", bop))
                    .put("l", self.operand(owner, body, l))
                    .put("r", self.operand(owner, body, r))
                    .done()
            }
            Rvalue::UnaryOp(uop, x) => J::obj()
                .put_s("k", "unop")
                .put_s("op", format!("{:?}", uop))
                .put("x", self.operand(owner, body, x))
                .done(),
            Rvalue::Discriminant(p) => J::obj()
                .put_s("k", "discr")
                .put("place", self.place(body, p))
                .done(),
            Rvalue::Aggregate(kind, ops) => {
                let mut o = J::obj().put_s("k", "aggregate");
                match &**kind {
                    AggregateKind::Array(t) => {
                        o = o.put_s("agg", "array").put_s("elem_ty", t.to_string());
                    }
                    AggregateKind::Tuple => {
                        o = o.put_s("agg", "tuple");
                    }
                    AggregateKind::Adt(did, vidx, _, _, _) => {
                        let adt = tcx.adt_def(*did);
                        let v = adt.variant(*vidx);
                        let fields: Vec<J> = v.fields.iter().map(|f| J::s(f.name.to_string())).collect();
                        o = o
                            .put_s("agg", "adt")
                            .put_s("adt", self.key(*did))
                            .put_s("variant", v.name.to_string())
                            .put_i("vidx", vidx.as_usize() as i128)
                            .put("fields", J::Arr(fields));
                    }
                    AggregateKind::Closure(did, _) => {
                        o = o.put_s("agg", "closure").put_s("closure", self.key(*did));
                    }
                    other => {
                        o = o.put_s("agg", "other").put_s("dbg", format!("{:?}", other));
                    }
                }
                let opsj: Vec<J> = ops.iter().map(|op| self.operand(owner, body, op)).collect();
                o.put("ops", J::Arr(opsj)).done()
            }
            Rvalue::CopyForDeref(p) => J::obj()
                .put_s("k", "use")
                .put(
                    "op",
                    J::obj().put_s("k", "copy").put("place", self.place(body, p)).done(),
                )
                .done(),
            other => J::obj().put_s("k", "other").put_s("dbg", format!("{:?}", other)).done(),
        }
    }

    fn terminator(&self, owner: DefId, body: &Body<'tcx>, t: &Terminator<'tcx>) -> J {
        let loc = self.loc(t.source_info.span);
        let bbj = |b: BasicBlock| J::Int(b.as_usize() as i128);
        let unwind = |u: &UnwindAction| match u {
            UnwindAction::Cleanup(b) => J::Int(b.as_usize() as i128),
            _ => J::Null,
        };
        match &t.kind {
            TerminatorKind::Goto { target } => J::obj().put_s("k", "goto").put("target", bbj(*target)).done(),
            TerminatorKind::SwitchInt { discr, targets } => {
                let ty = discr.ty(&body.local_decls, self.tcx);
                let ts: Vec<J> = targets
                    .iter()
                    .map(|(v, b)| J::Arr(vec![J::Int(v as i128), bbj(b)]))
                    .collect();
                J::obj()
                    .put_s("k", "switch")
                    .put("discr", self.operand(owner, body, discr))
                    .put_s("discr_ty", ty.to_string())
                    .put("targets", J::Arr(ts))
                    .put("otherwise", bbj(targets.otherwise()))
                    .put("loc", loc)
                    .done()
            }
            TerminatorKind::Return => J::obj().put_s("k", "return").put("loc", loc).done(),
            TerminatorKind::Unreachable => J::obj().put_s("k", "unreachable").done(),
            TerminatorKind::UnwindResume => J::obj().put_s("k", "resume").done(),
            TerminatorKind::UnwindTerminate(_) => J::obj().put_s("k", "abort").done(),
            TerminatorKind::Drop { place, target, unwind: u, .. } => J::obj()
                .put_s("k", "drop")
                .put("place", self.place(body, place))
                .put("target", bbj(*target))
                .put("unwind", unwind(u))
                .put("loc", loc)
                .done(),
            TerminatorKind::Call { func, args, destination, target, unwind: u, fn_span, .. } => {
                let mut o = J::obj().put_s("k", "call");
                let mut is_fn = false;
                if let Operand::Constant(c) = func {
                    if let ty::FnDef(did, gargs) = c.const_.ty().kind() {
                        o = o.put("callee", self.callee(owner, *did, gargs));
                        is_fn = true;
                    }
                }
                if !is_fn {
                    o = o.put("indirect", self.operand(owner, body, func));
                }
                let aj: Vec<J> = args.iter().map(|a| self.operand(owner, body, &a.node)).collect();
                o = o
                    .put("args", J::Arr(aj))
                    .put("dest", self.place(body, destination))
                    .put("target", target.map(bbj).unwrap_or(J::Null))
                    .put("unwind", unwind(u))
                    .put("loc", self.loc(*fn_span));
                if fn_span.from_expansion() {
                    o = o.put_opt("snip", self.snippet(*fn_span));
                }
                o.done()
            }
            TerminatorKind::Assert { cond, expected, msg, target, unwind: u } => {
                let (kind, ops): (String, Vec<J>) = match &**msg {
                    AssertKind::BoundsCheck { len, index } => (
                        "BoundsCheck".to_string(),
                        vec![self.operand(owner, body, len), self.operand(owner, body, index)],
                    ),
                    AssertKind::Overflow(op, l, r) => (
                        format!("Overflow:{:?}", op),
                        vec![self.operand(owner, body, l), self.operand(owner, body, r)],
                    ),
                    AssertKind::OverflowNeg(x) => ("OverflowNeg".to_string(), vec![self.operand(owner, body, x)]),
                    AssertKind::DivisionByZero(x) => {
                        ("DivisionByZero".to_string(), vec![self.operand(owner, body, x)])
                    }
                    AssertKind::RemainderByZero(x) => {
                        ("RemainderByZero".to_string(), vec![self.operand(owner, body, x)])
                    }
                    other => {
                        let s = format!("{:?}", other);
                        (s.split(|c| c == '(' || c == '{' || c == ' ').next().unwrap_or("").to_string(), vec![])
                    }
                };
                J::obj()
                    .put_s("k", "assert")
                    .put("cond", self.operand(owner, body, cond))
                    .put_b("expected", *expected)
                    .put_s("kind", kind)
                    .put("ops", J::Arr(ops))
                    .put("target", bbj(*target))
                    .put("unwind", unwind(u))
                    .put("loc", loc)
                    .done()
            }
            TerminatorKind::FalseEdge { real_target, .. } => {
                J::obj().put_s("k", "goto").put("target", bbj(*real_target)).done()
            }
            TerminatorKind::FalseUnwind { real_target, .. } => {
                J::obj().put_s("k", "goto").put("target", bbj(*real_target)).done()
            }
            other => J::obj()
                .put_s("k", "other")
                .put_s("dbg", format!("{:?}", other))
                .put("loc", loc)
                .done(),
        }
    }
}

// ---------------------------------------------------------------------------
// HIR visitor: unsafe blocks and literal arrays

struct HirV<'a, 'tcx> {
    d: &'a Dumper<'tcx>,
    owner: String,
    unsafe_blocks: &'a mut Vec<J>,
    lit_arrays: &'a mut Vec<J>,
}

fn lit_tree<'tcx>(e: &hir::Expr<'tcx>) -> Option<J> {
    match &e.kind {
        hir::ExprKind::Lit(l) => match &l.node {
            rustc_ast::LitKind::Str(s, _) => Some(J::obj().put_s("str", s.as_str()).done()),
            rustc_ast::LitKind::Char(c) => Some(
                J::obj()
                    .put_s("char", c.to_string())
                    .put_i("cp", *c as u32 as i128)
                    .done(),
            ),
            rustc_ast::LitKind::Int(i, _) => Some(J::obj().put_i("int", i.get() as i128).done()),
            rustc_ast::LitKind::Bool(b) => Some(J::obj().put_b("bool", *b).done()),
            rustc_ast::LitKind::Byte(b) => Some(J::obj().put_i("int", *b as i128).done()),
            _ => None,
        },
        hir::ExprKind::Tup(es) => {
            let v: Option<Vec<J>> = es.iter().map(lit_tree).collect();
            v.map(|v| J::obj().put("tuple", J::Arr(v)).done())
        }
        hir::ExprKind::Array(es) => {
            let v: Option<Vec<J>> = es.iter().map(lit_tree).collect();
            v.map(|v| J::obj().put("array", J::Arr(v)).done())
        }
        hir::ExprKind::AddrOf(_, _, inner) => lit_tree(inner),
        _ => None,
    }
}

impl<'a, 'tcx> Visitor<'tcx> for HirV<'a, 'tcx> {
    fn visit_block(&mut self, b: &'tcx hir::Block<'tcx>) {
        if let hir::BlockCheckMode::UnsafeBlock(hir::UnsafeSource::UserProvided) = b.rules {
            self.unsafe_blocks.push(
                J::obj()
                    .put_s("owner", self.owner.clone())
                    .put("loc", self.d.loc(b.span))
                    .put_b("exp", b.span.from_expansion())
                    .done(),
            );
        }
        intravisit::walk_block(self, b);
    }

    fn visit_expr(&mut self, e: &'tcx hir::Expr<'tcx>) {
        if let hir::ExprKind::Array(es) = &e.kind {
            if es.len() >= 2 {
                if let Some(t) = lit_tree(e) {
                    self.lit_arrays.push(
                        J::obj()
                            .put_s("owner", self.owner.clone())
                            .put("loc", self.d.loc(e.span))
                            .put("value", t)
                            .done(),
                    );
                    return;
                }
            }
        }
        intravisit::walk_expr(self, e);
    }
}
