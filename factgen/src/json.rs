// Minimal JSON value + writer (no crates available to a rustc_private driver
// without dragging in a second copy of std-linked dependencies).

use std::fmt::Write;

#[derive(Clone, Debug)]
pub enum J {
    Null,
    Bool(bool),
    Int(i128),
    Str(String),
    Arr(Vec<J>),
    Obj(Vec<(String, J)>),
}

impl J {
    pub fn s<S: Into<String>>(s: S) -> J {
        J::Str(s.into())
    }
    pub fn obj() -> ObjB {
        ObjB(Vec::new())
    }
    pub fn write(&self, out: &mut String) {
        match self {
            J::Null => out.push_str("null"),
            J::Bool(b) => out.push_str(if *b { "true" } else { "false" }),
            J::Int(i) => {
                let _ = write!(out, "{}", i);
            }
            J::Str(s) => esc(s, out),
            J::Arr(v) => {
                out.push('[');
                for (i, x) in v.iter().enumerate() {
                    if i > 0 {
                        out.push(',');
                    }
                    x.write(out);
                }
                out.push(']');
            }
            J::Obj(v) => {
                out.push('{');
                for (i, (k, x)) in v.iter().enumerate() {
                    if i > 0 {
                        out.push(',');
                    }
                    esc(k, out);
                    out.push(':');
                    x.write(out);
                }
                out.push('}');
            }
        }
    }
}

pub struct ObjB(Vec<(String, J)>);

impl ObjB {
    pub fn put<K: Into<String>>(mut self, k: K, v: J) -> Self {
        self.0.push((k.into(), v));
        self
    }
    pub fn put_s<K: Into<String>, S: Into<String>>(self, k: K, v: S) -> Self {
        self.put(k, J::Str(v.into()))
    }
    pub fn put_i<K: Into<String>>(self, k: K, v: i128) -> Self {
        self.put(k, J::Int(v))
    }
    pub fn put_b<K: Into<String>>(self, k: K, v: bool) -> Self {
        self.put(k, J::Bool(v))
    }
    pub fn put_opt<K: Into<String>>(self, k: K, v: Option<J>) -> Self {
        match v {
            Some(v) => self.put(k, v),
            None => self,
        }
    }
    pub fn done(self) -> J {
        J::Obj(self.0)
    }
}

fn esc(s: &str, out: &mut String) {
    out.push('"');
    for c in s.chars() {
        match c {
            '"' => out.push_str("\\\""),
            '\\' => out.push_str("\\\\"),
            '\n' => out.push_str("\\n"),
            '\r' => out.push_str("\\r"),
            '\t' => out.push_str("\\t"),
            c if (c as u32) < 0x20 => {
                let _ = write!(out, "\\u{:04x}", c as u32);
            }
            c => out.push(c),
        }
    }
    out.push('"');
}
