// factgen — rustc_private fact extractor for the riti verification harness.
//
// Used as RUSTC_WORKSPACE_WRAPPER (argv[1] = path of the real rustc, dropped).
// For every crate whose name is listed in FACTGEN_CRATES (default "riti") it
// writes one JSON document to FACTGEN_OUT_DIR/<crate>.json after analysis.
// Nothing is executed: the facts are rustc's own type-checked HIR and
// unoptimised MIR, serialised.

#![feature(rustc_private)]
#![allow(clippy::all)]

extern crate rustc_abi;
extern crate rustc_ast;
extern crate rustc_driver;
extern crate rustc_hir;
extern crate rustc_interface;
extern crate rustc_middle;
extern crate rustc_span;
extern crate rustc_type_ir;

mod json;
mod dump;

use rustc_driver::{Callbacks, Compilation};
use rustc_interface::interface::Compiler;
use rustc_middle::ty::TyCtxt;
use rustc_span::def_id::LOCAL_CRATE;

struct Cb;

impl Callbacks for Cb {
    fn after_analysis<'tcx>(&mut self, _c: &Compiler, tcx: TyCtxt<'tcx>) -> Compilation {
        let name = tcx.crate_name(LOCAL_CRATE).to_string();
        let wanted = std::env::var("FACTGEN_CRATES").unwrap_or_else(|_| "riti".to_string());
        if wanted.split(',').any(|w| w == name) {
            if let Ok(dir) = std::env::var("FACTGEN_OUT_DIR") {
                let doc = dump::dump_crate(tcx, &name);
                let path = format!("{}/{}.json", dir, name);
                let tmp = format!("{}.tmp.{}", path, std::process::id());
                std::fs::write(&tmp, doc).expect("factgen: cannot write fact file");
                std::fs::rename(&tmp, &path).expect("factgen: cannot rename fact file");
            }
        }
        Compilation::Continue
    }
}

fn main() {
    let mut args: Vec<String> = std::env::args().collect();
    // As a cargo wrapper we are invoked as `factgen <rustc> <args…>`.
    if args.len() > 1 && (args[1].ends_with("rustc") || args[1].contains("/rustc")) {
        args.remove(1);
    }
    let mut cb = Cb;
    rustc_driver::run_compiler(&args, &mut cb);
}
