#!/bin/sh
# Runs every claimed check (quick tier by default) against /repo; prints one line per property.
cd "$(dirname "$0")"
TIER=${1:-quick}
rc=0
for p in $(python3 -c "import json; print(' '.join(c['property_id'] for c in json.load(open('MANIFEST.json'))['checks']))"); do
  out=$(./check $p --tier $TIER 2>&1); r=$?
  echo "$out" | tail -1
  echo "$out" | grep "^VIOLATION\|^KNOWN-FINDING" | cut -c1-160
  [ $r -ne 0 ] && rc=1
done
exit $rc
