#!/usr/bin/env python3
"""E5 — checker validation: every rule must fire on a seeded variant that breaks
exactly its instance, and stay silent on the untouched copy.

Variants are text edits against /repo's *current* tree applied in a scratch copy
outside /repo and /verif; the scratch copy is removed afterwards.  A variant whose
anchor text no longer exists is reported as skipped, never as failed.  This validates
the checker; property verdicts always come from /repo itself.

usage: selftest.py [--only C04] [--ids id1,id2] [--keep] [--jobs N]
"""
import argparse
import json
import os
import shutil
import subprocess
import sys
import tempfile
from concurrent.futures import ThreadPoolExecutor

HERE = os.path.dirname(os.path.abspath(__file__))
REPO = "/repo"


def load_variants():
    with open(os.path.join(HERE, "variants.json"), encoding="utf-8") as f:
        return json.load(f)


def make_copy(dst):
    subprocess.check_call(["rsync", "-a", "--exclude", "target", "--exclude", ".git", REPO + "/", dst + "/"])


def apply_variant(root, v):
    for ed in v["edits"]:
        p = os.path.join(root, ed["file"])
        s = open(p, encoding="utf-8").read()
        if s.count(ed["find"]) < 1:
            return "anchor text not found in %s" % ed["file"]
        if ed.get("all"):
            s = s.replace(ed["find"], ed["replace"])
        else:
            n = ed.get("nth", 0)
            idx = -1
            for _ in range(n + 1):
                idx = s.find(ed["find"], idx + 1)
                if idx < 0:
                    return "occurrence %d not found in %s" % (n, ed["file"])
            s = s[:idx] + ed["replace"] + s[idx + len(ed["find"]):]
        open(p, "w", encoding="utf-8").write(s)
    return None


def run_check(root, prop):
    env = dict(os.environ, VERIF_REPO=root, VERIF_EVID_DIR=os.path.join(root, ".verif-evidence"))
    r = subprocess.run([os.path.join(HERE, "check"), prop], env=env, stdout=subprocess.PIPE,
                       stderr=subprocess.STDOUT, text=True, cwd=HERE)
    return r.returncode, r.stdout


def one(v, keep=False):
    tmp = tempfile.mkdtemp(prefix="riti-selftest-")
    try:
        make_copy(tmp)
        err = apply_variant(tmp, v)
        if err:
            return v["id"], "skipped", err
        rc, out = run_check(tmp, v["property"])
        if rc == 2:
            return v["id"], "skipped", "variant does not compile / analysis error: " + out[-300:]
        want_rule = v.get("rule")
        fired = [ln for ln in out.splitlines() if "[VIOLATION]" in ln or "[UNDECIDABLE]" in ln]
        if v.get("expect") == "silent":
            if rc == 0:
                return v["id"], "ok", "silent as expected (negative control)"
            return v["id"], "FAILED", "negative control raised: " + "; ".join(fired)[:400]
        if rc != 1:
            return v["id"], "FAILED", "check stayed silent"
        if want_rule and not any((" %s " % want_rule) in ln or (" %s" % want_rule) in ln for ln in fired):
            return v["id"], "FAILED", "fired but not rule %s: %s" % (want_rule, "; ".join(fired)[:400])
        if v.get("mentions") and not any(v["mentions"] in ln for ln in fired):
            return v["id"], "FAILED", "fired but does not name %r: %s" % (v["mentions"], "; ".join(fired)[:400])
        return v["id"], "ok", fired[0][:200] if fired else ""
    finally:
        if not keep:
            shutil.rmtree(tmp, ignore_errors=True)


def main():
    ap = argparse.ArgumentParser()
    ap.add_argument("--only")
    ap.add_argument("--ids")
    ap.add_argument("--keep", action="store_true")
    ap.add_argument("--jobs", type=int, default=8)
    a = ap.parse_args()
    vs = load_variants()
    if a.only:
        vs = [v for v in vs if v["property"] == a.only.upper()]
    if a.ids:
        ids = set(a.ids.split(","))
        vs = [v for v in vs if v["id"] in ids]
    failed = 0
    with ThreadPoolExecutor(max_workers=a.jobs) as ex:
        for vid, status, msg in ex.map(lambda v: one(v, a.keep), vs):
            print("%-34s %-8s %s" % (vid, status, msg))
            if status == "FAILED":
                failed += 1
    print("selftest: %d variants, %d failed" % (len(vs), failed))
    return 1 if failed else 0


if __name__ == "__main__":
    sys.exit(main())
