"""C17 — smart quotes curl only the quotes that wrap a word, and nothing else.

Decided statically: the quoter's decision structure (only bypass = empty word; writes only the two
wrapping parts; the two character maps), and in both builders that the quoter is applied exactly under
the option, once, after split/conversion and before every consumer of the split value; raw-text
candidates bypass it.  Not decided: the list-level equality for all inputs (needs value-level facts
about the splitter)."""
from engine.mir import E, apath, strip_refs, is_const, const_val, callee_name, self_path
from engine.analyses import (peel_conv, guards_of, chain, contains_call, closure_creation)
from engine.report import site_of
from engine.program import AnchorError
from . import common, builders

SPLIT_TY = "utility::SplittedString"


def quoter_fn(prog):
    hits = [k for k, f in prog.fns.items() if len(f.get("inputs") or []) == 1 and f["inputs"][0].startswith(SPLIT_TY)
            and f.get("output", "").startswith(SPLIT_TY) and not f.get("impl")]
    if len(hits) != 1:
        raise AnchorError("quoter: fn(SplittedString) -> SplittedString matched %s" % hits)
    return hits[0]


def quoter_body(prog):
    """The quoter with its private helpers spliced in (accessors stay calls)."""
    from engine.inline import inlined_body
    acc = accessors(prog)
    return inlined_body(prog, quoter_fn(prog), stop=lambda g: g in acc or (prog.fns[g].get("impl") or {}).get("self", "").startswith(SPLIT_TY))


def quoter_outputs(prog):
    """Characters the quoter can put into a wrapping part: character constants it pushes, or that a mapping closure of it yields."""
    q = quoter_fn(prog)
    qb = quoter_body(prog)
    out = set()
    for (bb, t) in qb.calls():
        if callee_name(t).endswith("String::push"):
            v = strip_refs(qb.expr_operand(t["args"][1]))
            if is_const(v, "char"):
                out.add(const_val(v))
    # a character chosen by a `match` and pushed behind it (`part.push(match ch { '\'' => '‘', … })`): the constants the arms assign
    for (i, j, st) in qb.stmts():
        if st["k"] == "assign" and st["rv"]["k"] == "use" and st["rv"]["op"]["k"] == "const" and st["rv"]["op"].get("char") is not None \
                and qb.locals[st["place"]["l"]]["ty"] == "char" and not st["place"]["p"]:
            out.add(st["rv"]["op"]["char"])
    # text the quoter puts in through string-level calls (`part.replace("--", "—")`, push_str of a literal)
    for (bb, t) in qb.calls():
        n_ = callee_name(t)
        if any(n_.endswith(s_) for s_ in ("::replace", "::replacen", "String::push_str", "String::insert_str", "String::insert", "::replace_range")):
            for a_ in t["args"][1:]:
                v = strip_refs(qb.expr_operand(a_))
                if is_const(v, "str"):
                    out.update(const_val(v))
                elif is_const(v, "char"):
                    out.add(const_val(v))
    # characters handed to a private character-map helper (`curve(part, '‘', '“')`), in the quoter or in a closure of it
    for kb_ in [qb, prog.body(q)] + [prog.body(k_) for k_ in prog.closures_of(q)]:
        for (bb, t) in kb_.calls():
            if callee_name(t) not in prog.fns:
                continue
            ops_ = list(t["args"])
            for a_ in ops_:
                v = strip_refs(kb_.expr_operand(a_))
                vs_ = list(v.a[1]) if (v.k == "agg" and v.a[0] == "tuple") else [v]
                for x_ in vs_:
                    x_ = strip_refs(x_)
                    if is_const(x_, "char"):
                        out.add(const_val(x_))
                    # … or a character function handed to it (`curl(part, opening_quote)`): what its arms answer with
                    fk_ = None
                    if x_.k == "const" and isinstance(x_.a[0], tuple) and x_.a[0][0] == "fn":
                        fk_ = x_.a[0][1]
                    elif x_.k == "agg" and str(x_.a[0]).startswith("closure:"):
                        fk_ = x_.a[0][8:]
                    if fk_ in prog.fns:
                        ft_ = char_fn_table(prog, fk_)
                        if ft_ is not None:
                            out.update(v_[1] for v_ in ft_[0].values() if v_[0] == "const")
    for ck in prog.closures_of(q) + [c for g in (qb.fn.get("inlined") or []) for c in prog.closures_of(g)]:
        cb = prog.body(ck)
        if cb.locals[0]["ty"] != "char":
            continue
        for (i, j, st) in cb.stmts():
            if st["k"] == "assign" and st["rv"]["k"] == "use" and st["rv"]["op"]["k"] == "const" and st["rv"]["op"].get("char") is not None:
                out.add(st["rv"]["op"]["char"])
    return out


_ADAPTORS = ("::skip", "::take", "::filter", "::rev", "::step_by", "::skip_while", "::take_while", "::chain", "::filter_map", "::zip", "::peekable", "::scan", "::flat_map")


def _walks_every_char(b, d, depth=0):
    """No iterator adaptor stands between `chars()` and the loop / map (`text.chars().skip(1)` does not visit every character)."""
    for x in d.walk():
        if x.k == "call" and x.a[0].endswith(_ADAPTORS):
            return False
    if depth < 3:
        for x in d.walk():
            if x.k == "local":
                for d_ in b.defs.get(x.a[0], []):
                    if d_[2] == "assign" and not _walks_every_char(b, b.expr_rvalue(d_[3]["rv"]), depth + 1):
                        return False
                    if d_[2] == "call" and callee_name(d_[3]).endswith(_ADAPTORS):
                        return False
    return True


def _chars_arg(b, d, depth=0):
    """The parameter whose characters are iterated (`for ch in text.chars()`): its index, or None."""
    for x in d.walk():
        if x.k == "call" and x.a[0].endswith("str>::chars"):
            src = strip_refs(x.a[1][0])
            while src.k == "call" and src.a[0].endswith("::deref") and len(src.a[1]) == 1:
                src = strip_refs(src.a[1][0])
            if src.k == "arg":
                return src.a[0]
    if depth < 3:
        for x in d.walk():
            if x.k == "local":
                for d_ in b.defs.get(x.a[0], []):
                    if d_[2] == "assign":
                        r = _chars_arg(b, b.expr_rvalue(d_[3]["rv"]), depth + 1)
                        if r:
                            return r
    return None


def char_fn_table(prog, fk):
    """A `fn(char) -> char` (or a closure of that shape, its captures read at its creation site) as a table: ({code point: ('const', c) |
    ('param', i) | ('other', …)}, every other character kept?); None when it is not a match on its argument."""
    from engine.analyses import sym_paths, PathLimit, subst_upvars
    f = prog.fns.get(fk)
    if f is None:
        return None
    cb = prog.body(fk)
    p = 2 if f.get("kind") == "Closure" else 1
    if cb.arg_count != p or cb.locals[p]["ty"] != "char" or cb.locals[0]["ty"] != "char":
        return None
    try:
        paths = sym_paths(cb, 0, 64)
    except PathLimit:
        return None
    table = {}
    for path, env, conds in paths:
        sel = None
        for (dd, vals, allv, ty, bb) in conds:
            dd = strip_refs(dd)
            if not (dd.k == "arg" and dd.a[0] == p):
                return None
            sel = vals
        r_ = env.get(0)
        if r_ is None:
            return None
        r_ = strip_refs(peel_conv(r_))
        if r_.k == "arg" and r_.a[0] == p:
            v = ("same",)
        elif is_const(r_, "char"):
            v = ("const", const_val(r_))
        elif f.get("kind") == "Closure":
            x_ = strip_refs(peel_conv(subst_upvars(prog, fk, r_)))
            v = ("param", x_.a[0]) if x_.k == "arg" else ("other", repr(x_)[:80])
        else:
            v = ("other", repr(r_)[:80])
        if sel is None or sel == "otherwise":
            table["otherwise"] = v
        else:
            for x_ in sel:
                table[x_] = v
    return {k: v for k, v in table.items() if k != "otherwise"}, table.get("otherwise") == ("same",)


def charmap_helper(prog, hk):
    """A private function or closure that rebuilds a text character by character — `fn curve(text: &str, single: char, double: char) -> String`
    written as a loop of pushes or as `text.chars().map(|ch| …).collect()` — summarised as (index of the text parameter,
    {code point: ('const', c) | ('param', i) | ('other', repr)}, every other character kept?); None when it is not of that shape."""
    from engine.analyses import sym_paths, PathLimit, subst_upvars
    f = prog.fns.get(hk)
    if f is None:
        return None
    hb = prog.body(hk)
    if not (f.get("output") or hb.locals[0]["ty"] or "").startswith("std::string::String"):
        return None

    def classify(val, ch_e):
        val = strip_refs(peel_conv(val))
        if is_const(val, "char"):
            return ("const", const_val(val))
        if val.k == "arg":
            return ("param", val.a[0])
        if ch_e is not None and val == ch_e:
            return ("same",)
        return ("other", repr(val)[:80])
    # (i) a loop of pushes under a match on the character
    for s_ in hb.rblocks:
        t = hb.blocks[s_]["term"]
        if t["k"] != "switch" or t["discr_ty"] != "char":
            continue
        d = strip_refs(hb.expr_operand(t["discr"]))
        src = _chars_arg(hb, d)
        if src is None or not _walks_every_char(hb, d):
            return None
        table, dests = {}, set()
        for (node, vals, tgt) in hb.switch_edges(s_):
            ch = chain(hb, tgt)
            hit = None
            for k_, cb_ in enumerate(ch):
                tt = hb.blocks[cb_]["term"]
                if tt["k"] == "call" and callee_name(tt).endswith("String::push"):
                    env = hb.eval_path(ch[:k_ + 1], upto=(cb_, len(hb.blocks[cb_]["stmts"])))
                    hit = (classify(hb.expr_operand(tt["args"][1], 0, env), d), _ref_target_local(hb, tt["args"][0]))
                    break
                if tt["k"] == "switch":
                    break
            if hit is None:
                return None
            dests.add(hit[1])
            if vals == "otherwise":
                table["otherwise"] = hit[0]
            else:
                for v in vals:
                    table[v] = hit[0]
        if len(dests) != 1 or None in dests:
            return None
        dest = next(iter(dests))
        returned = set()
        for d_ in hb.defs.get(0, []):
            if d_[2] == "assign":
                returned |= _moved_locals(hb, d_[3]["rv"])
        if dest not in returned:
            return None
        other_pushes = [bb for (bb, tt) in hb.calls() if callee_name(tt).endswith(("String::push", "String::push_str", "String::insert", "String::insert_str"))
                        and _ref_target_local(hb, tt["args"][0]) == dest]
        n_in_match = len({cb_ for (node, vals, tgt) in hb.switch_edges(s_) for cb_ in chain(hb, tgt)
                          if hb.blocks[cb_]["term"]["k"] == "call" and callee_name(hb.blocks[cb_]["term"]).endswith("String::push")})
        if len(set(other_pushes)) != n_in_match:
            return None                     # something else is written into the rebuilt text
        return src, {k: v for k, v in table.items() if k != "otherwise"}, table.get("otherwise") == ("same",)
    # (iii) a loop that pushes `f(ch)` for a function handed in (`fn curl(part: &str, curved: impl Fn(char) -> char)`): the table is f's
    pushes = [(bb, tt) for (bb, tt) in hb.calls() if callee_name(tt).endswith("String::push")]
    if len(pushes) == 1 and hb.loops():
        bb, tt = pushes[0]
        val = strip_refs(peel_conv(hb.expr_operand(tt["args"][1])))
        dest = _ref_target_local(hb, tt["args"][0])
        returned = set()
        for d_ in hb.defs.get(0, []):
            if d_[2] == "assign":
                returned |= _moved_locals(hb, d_[3]["rv"])
        if val.k == "call" and val.a[0].endswith(("Fn<Args>>::call", "FnMut<Args>>::call_mut", "FnOnce<Args>>::call_once", "ops::Fn::call", "ops::FnMut::call_mut",
                                                  "ops::FnOnce::call_once")) and len(val.a[1]) == 2 \
                and strip_refs(val.a[1][0]).k == "arg" and dest in returned:
            tup = strip_refs(val.a[1][1])
            if tup.k == "agg" and tup.a[0] == "tuple" and len(tup.a[1]) == 1:
                src = _chars_arg(hb, tup.a[1][0])
                if src is not None and _walks_every_char(hb, tup.a[1][0]):
                    return src, {"@fn": strip_refs(val.a[1][0]).a[0]}, True
    # (ii) text.chars().map(|ch| …).collect()
    ret = strip_refs(peel_conv(hb.expr_local(0)))
    if ret.k == "call" and ret.a[0].endswith("::collect") and ret.a[1]:
        mp = strip_refs(ret.a[1][0])
        if mp.k == "call" and mp.a[0].endswith("Iterator::map") and len(mp.a[1]) == 2:
            src = _chars_arg(hb, mp.a[1][0])
            clo = strip_refs(mp.a[1][1])
            if not (strip_refs(mp.a[1][0]).k == "call" and strip_refs(mp.a[1][0]).a[0].endswith("str>::chars")):
                return None                 # an adaptor between chars() and map(): not every character is visited
            if src is None or not (clo.k == "agg" and str(clo.a[0]).startswith("closure:")):
                return None
            ck = clo.a[0][8:]
            cb = prog.body(ck)
            try:
                paths = sym_paths(cb, 0, 64)
            except PathLimit:
                return None
            table = {}
            for path, env, conds in paths:
                sel = None
                for (dd, vals, allv, ty, bb) in conds:
                    dd = strip_refs(dd)
                    if not (dd.k == "arg" and dd.a[0] == 2):
                        return None
                    sel = vals
                r_ = env.get(0)
                if r_ is None:
                    return None
                r_ = strip_refs(peel_conv(r_))
                if r_.k == "arg" and r_.a[0] == 2:
                    v = ("same",)
                elif is_const(r_, "char"):
                    v = ("const", const_val(r_))
                else:
                    v = classify(subst_upvars(prog, ck, r_), None)
                if sel is None or sel == "otherwise":
                    table["otherwise"] = v
                else:
                    for x_ in sel:
                        table[x_] = v
            return src, {k: v for k, v in table.items() if k != "otherwise"}, table.get("otherwise") == ("same",)
    return None


def helper_call_map(prog, body, e, part_of):
    """`e` = a call of a character-map helper: (source part, {code point: replacement character}, others kept?) with the helper's
    character parameters bound to the call's arguments; `part_of(E)` names the part an argument expression stands for."""
    e = strip_refs(peel_conv(e))
    if e.k != "call" or e.a[0] not in prog.fns:
        return None
    hk = e.a[0]
    summ = charmap_helper(prog, hk)
    if summ is None:
        return None
    src, table, keeps = summ
    if prog.fns[hk].get("kind") == "Closure":
        tup = strip_refs(e.a[1][1]) if len(e.a[1]) == 2 else None
        if tup is None or tup.k != "agg" or tup.a[0] != "tuple":
            return None
        actual = {i + 2: a for i, a in enumerate(tup.a[1])}
    else:
        actual = {i + 1: a for i, a in enumerate(e.a[1])}
    if src not in actual:
        return None
    if "@fn" in table:
        fa = strip_refs(peel_conv(actual.get(table["@fn"]))) if table["@fn"] in actual else None
        fk = None
        if fa is not None and fa.k == "const" and isinstance(fa.a[0], tuple) and fa.a[0][0] == "fn":
            fk = fa.a[0][1]
        elif fa is not None and fa.k == "agg" and str(fa.a[0]).startswith("closure:"):
            fk = fa.a[0][8:]
        ft = char_fn_table(prog, fk) if fk in prog.fns else None
        if ft is None:
            return None
        table, keeps = ft
    out = {}
    for cp, v in table.items():
        if v[0] == "const":
            out[cp] = v[1]
        elif v[0] == "param" and v[1] in actual and is_const(strip_refs(actual[v[1]]), "char"):
            out[cp] = const_val(strip_refs(actual[v[1]]))
        else:
            out[cp] = repr(v)
    return part_of(actual[src]), out, keeps



def _rebuild_method(prog, mk):
    """A method of the split value `fn(&mut self, f)` that calls `f(preceding, trailing)` once and stores the returned pair as the new
    preceding / trailing parts and writes nothing else: {'params': {callback parameter index: part}, 'results': {pair index: part}}; else None."""
    from engine.analyses import direct_writes
    f = prog.fns[mk]
    if len(f.get("inputs") or []) != 2 or not f["inputs"][0].startswith("&mut "):
        return None
    b = prog.body(mk)
    writes = [w for w in direct_writes(b) if w["root"].k == "arg" and w["root"].a[0] == 1]
    results, call_e = {}, None
    for w in writes:
        if w["op"] != "assign" or len(w["fields"]) != 1 or w["fields"][0] not in ("preceding", "trailing"):
            return None
        st = b.blocks[w["bb"]]["stmts"][w["idx"]]
        v = strip_refs(peel_conv(b.expr_rvalue(st["rv"])))
        while v.k == "agg" and len(v.a[1]) == 1 and str(v.a[0]).endswith("Cow::Owned"):
            v = strip_refs(peel_conv(v.a[1][0]))
        if not (v.k == "field" and str(v.a[1]) in ("0", "1")):
            return None
        c = strip_refs(v.a[0])
        if c.k != "call" or not c.a[0].endswith(("FnOnce>::call_once", "FnMut>::call_mut", "Fn>::call")) and "call" not in c.a[0].rsplit("::", 1)[-1]:
            return None
        if call_e is not None and c != call_e:
            return None
        call_e = c
        if w["fields"][0] in results.values():
            return None
        results[int(str(v.a[1]))] = w["fields"][0]
    if call_e is None or sorted(results.values()) != ["preceding", "trailing"]:
        return None
    a0 = strip_refs(call_e.a[1][0])
    tup = strip_refs(call_e.a[1][1]) if len(call_e.a[1]) == 2 else None
    if not (a0.k == "arg" and a0.a[0] == 2) or tup is None or tup.k != "agg" or tup.a[0] != "tuple" or len(tup.a[1]) != 2:
        return None
    params = {}
    for i, a in enumerate(tup.a[1]):
        x = strip_refs(peel_conv(a))
        while x.k == "call" and x.a[0].endswith("::deref") and len(x.a[1]) == 1:
            x = strip_refs(x.a[1][0])
        r_, f_ = apath(x)
        if not (r_.k == "arg" and r_.a[0] == 1 and len(f_) == 1 and f_[0] in ("preceding", "trailing")):
            return None
        params[i + 2] = f_[0]
    if sorted(params.values()) != ["preceding", "trailing"]:
        return None
    return {"params": params, "results": results}


def _wfield(place):
    """The split value's part a field place names: the field itself, or — when the wrapping parts are grouped in a helper struct embedded in
    the split value (`splitted.wrapping.preceding`) — the helper's field, as the dissolved view names it."""
    from engine import mir as _mir
    p = place["p"]
    if not p or not isinstance(p[0], dict):
        return None
    n0 = p[0].get("n")
    d = _mir.DISSOLVE.get(n0)
    if d and str(d.get("owner", "")).startswith(SPLIT_TY.rstrip("<")) and len(p) >= 2 and isinstance(p[1], dict) and p[1].get("n") in d["rename"]:
        return d["rename"][p[1]["n"]]
    return n0


def part_writes(body):
    """[(block, index, part name, rvalue)] — every assignment to a part of the by-value split value (local 1).  An assignment of the whole
    embedded helper struct (`splitted.wrapping = Wrapping { preceding: a, trailing: b }`) counts as one assignment per helper field, each
    with its own operand."""
    from engine import mir as _mir
    out = []
    for (i, j, s) in body.stmts():
        if not (s["k"] == "assign" and s["place"]["l"] == 1 and s["place"]["p"] and isinstance(s["place"]["p"][0], dict) and "f" in s["place"]["p"][0]):
            continue
        n0 = s["place"]["p"][0].get("n")
        d = _mir.DISSOLVE.get(n0)
        if d and str(d.get("owner", "")).startswith(SPLIT_TY) and len(s["place"]["p"]) == 1:
            rv = s["rv"]
            src = None
            if rv["k"] == "aggregate" and rv.get("agg") == "adt" and rv.get("adt") == d["helper"]:
                src = rv
            else:
                cur = rv
                for _hop in range(5):
                    if not (cur["k"] == "use" and cur["op"]["k"] in ("move", "copy") and not cur["op"]["place"]["p"]):
                        break
                    defs = body.defs.get(cur["op"]["place"]["l"], [])
                    if len(defs) != 1 or defs[0][2] != "assign" or defs[0][3]["place"]["p"]:
                        break
                    cur = defs[0][3]["rv"]
                    if cur["k"] == "aggregate" and cur.get("agg") == "adt" and cur.get("adt") == d["helper"]:
                        src = cur
                        break
            if src is not None and len(src.get("fields") or []) == len(src["ops"]):
                for fn_, op_ in zip(src["fields"], src["ops"]):
                    out.append((i, j, d["rename"].get(fn_, fn_), {"k": "use", "op": op_}))
                continue
            out.append((i, j, n0, s["rv"]))
            continue
        out.append((i, j, _wfield(s["place"]), s["rv"]))
    return out


def split_fn(prog):
    hits = [k for k, f in prog.fns.items() if (f.get("impl") or {}).get("self", "").startswith(SPLIT_TY)
            and f.get("inputs") == ["&str", "bool"]]
    if len(hits) > 1:
        # a private stage of the splitter has the same signature: the splitter is the one that is called from outside the type
        cg = prog.callgraph()
        outer = [h for h in hits if any(h in cg[k] for k in prog.fns
                                        if not ((prog.fns[k].get("impl") or {}).get("self") or "").startswith(SPLIT_TY)
                                        and not ((prog.fns.get(prog.fns[k].get("root") or "") or {}).get("impl") or {}).get("self", "").startswith(SPLIT_TY))]
        if len(outer) == 1:
            hits = outer
    if len(hits) != 1:
        raise AnchorError("splitter: SplittedString fn(&str, bool) matched %s" % hits)
    return hits[0]


def accessors(prog):
    """{fn key: field name} for SplittedString methods returning (a deref of) one field."""
    out = {}
    for k, f in prog.fns.items():
        if not (f.get("impl") or {}).get("self", "").startswith(SPLIT_TY) or (f.get("impl") or {}).get("trait"):
            continue
        if len(f.get("inputs") or []) != 1 or f.get("output") != "&str":
            continue
        b = prog.body(k)
        r = peel_conv(b.expr_local(0))
        sp = self_path(r)
        if sp and len(sp) == 1:
            out[k] = sp[0]
    return out


def run(ctx):
    prog, chk = ctx.prog, ctx.check
    chk.explanation = (
        "Structure of the quoter on MIR (bypass decision points, who-may-write on the split value's fields, the two per-character "
        "switch tables) and dominance ordering of the quoter call relative to the option guard and to every consumer of the split "
        "value in both list builders, including closures that capture it.")
    chk.not_decided = ["equality of the on/off lists after un-curling for every input (needs value-level facts about the splitter and okkhor)"]
    q = quoter_fn(prog)
    acc = accessors(prog)
    qb = quoter_body(prog)

    # ---------------- R1
    r1 = chk.rule("C17.R1", "quoter: only bypass is an empty word; writes only the two wrapping parts; character maps",
                  "straight quotes directly before a non-empty word become opening, those after it closing curly quotes; nothing else changes")
    # field writes on the by-value parameter
    wblocks = {}
    for (i, j, fname, rv_) in part_writes(qb):
        wblocks.setdefault(fname, set()).add(i)
    map_form = None
    if not wblocks:
        # the two parts rebuilt through the split value's own rebuilding method: `splitted.map(|preceding, trailing| (.., ..))`
        for (bb_, t_) in qb.calls():
            mk_ = callee_name(t_)
            mf_ = prog.fns.get(mk_)
            if not mf_ or not ((mf_.get("impl") or {}).get("self") or "").startswith(SPLIT_TY) or len(t_["args"]) != 2:
                continue
            clo_ = strip_refs(qb.expr_operand(t_["args"][1]))
            if not (clo_.k == "agg" and str(clo_.a[0]).startswith("closure:")) or _ref_target_local(qb, t_["args"][0]) != 1:
                continue
            sem_ = _rebuild_method(prog, mk_)
            if sem_ is None:
                r1.undecidable("frame", "the quoter hands the split value to %s, which is not shown to set the two wrapping parts from its callback's pair" % mk_.split("::")[-1],
                               site_of(qb, bb_))
                continue
            map_form = (bb_, clo_.a[0][8:], sem_)
            wblocks = {"preceding": {bb_}, "trailing": {bb_}}
    written = set(wblocks)
    if written == {"preceding", "trailing"}:
        r1.ok("frame", "writes exactly {preceding, trailing}")
    else:
        r1.violation("frame", "the quoter writes fields %s of the split value; it may only rebuild the two wrapping parts" % sorted(written),
                     common.fn_line(prog, q))
    allw = set().union(*wblocks.values()) if wblocks else set()
    rets = set(qb.return_blocks)
    # bypass decision points
    def can_reach(start, targets, avoid):
        seen = qb.reachable_from(start, avoid)
        return bool(seen & targets)
    ndec = 0
    for s in qb.rblocks:
        t = qb.blocks[s]["term"]
        if t["k"] != "switch":
            continue
        edges = qb.switch_edges(s)
        info = []
        for (node, vals, tgt) in edges:
            if qb.blocks[tgt]["term"]["k"] == "unreachable":
                continue
            to_w = can_reach(tgt, allw, ())
            bypass = can_reach(tgt, rets, allw) and tgt not in allw
            info.append((vals, tgt, to_w, bypass))
        if any(i[3] for i in info) and any(i[2] and not i[3] for i in info):
            ndec += 1
            d = strip_refs(qb.expr_operand(t["discr"]))
            okd = (d.k == "call" and d.a[0].endswith("str>::is_empty") and strip_refs(d.a[1][0]).k == "call"
                   and acc.get(strip_refs(d.a[1][0]).a[0]) == "word")
            if not okd and d.k == "call" and d.a[0].endswith("str>::is_empty") and len(d.a[1]) == 1:
                # the word part read as the field itself (`splitted.word.is_empty()`)
                w_ = strip_refs(peel_conv(d.a[1][0]))
                while w_.k == "call" and w_.a[0].endswith("::deref") and len(w_.a[1]) == 1:
                    w_ = strip_refs(w_.a[1][0])
                r_w, f_w = apath(w_)
                okd = r_w.k == "arg" and r_w.a[0] == 1 and tuple(f_w) == ("word",)
            byp_vals = [i[0] for i in info if i[3]]
            pol_true = byp_vals == ["otherwise"] or byp_vals == [(1,)]
            key = "bypass@%s" % ("word-empty" if okd else repr(d)[:60])
            if okd and pol_true:
                r1.ok(key, "returns its argument untouched iff word().is_empty()")
            else:
                r1.violation(key, "the quoter can return without curling when %r is %s — the only allowed bypass is an empty word"
                             % (d, byp_vals), site_of(qb, s))
    if ndec == 0:
        r1.violation("bypass", "the quoter has no empty-word bypass (text that is only punctuation must be left untouched)", common.fn_line(prog, q))
    # character maps
    want = {"preceding": {0x27: 0x2018, 0x22: 0x201C}, "trailing": {0x27: 0x2019, 0x22: 0x201D}}
    maps = {}
    for s in qb.rblocks:
        t = qb.blocks[s]["term"]
        if t["k"] != "switch" or t["discr_ty"] != "char":
            continue
        d = strip_refs(qb.expr_operand(t["discr"]))
        # source of the iteration
        src = None
        for x in d.walk():
            if x.k == "call" and x.a[0].endswith("Iterator>::next"):
                pass
        it_src = _chars_source(qb, d, acc)
        table = {}
        dest = None
        dest_local = None
        okshape = _walks_every_char(qb, d)
        for (node, vals, tgt) in qb.switch_edges(s):
            ch = chain(qb, tgt)
            pushes = []
            pushes_ops = []
            for k_c, cb in enumerate(ch):
                tt = qb.blocks[cb]["term"]
                if tt["k"] == "call" and callee_name(tt).endswith("String::push"):
                    # the pushed value as this arm computes it (`part.push(match ch { '\'' => '‘', … })`: one push behind the match)
                    env_c = qb.eval_path(ch[:k_c + 1], upto=(cb, len(qb.blocks[cb]["stmts"])))
                    pushes.append((strip_refs(qb.expr_operand(tt["args"][0])), strip_refs(qb.expr_operand(tt["args"][1], 0, env_c))))
                    pushes_ops.append(tt["args"][0])
                    break
                if tt["k"] == "switch":
                    break
            if len(pushes) != 1:
                okshape = False
                continue
            dst, val = pushes[0]
            dest = dst
            dest_local = _ref_target_local(qb, pushes_ops[0])
            if vals == "otherwise":
                table["otherwise"] = "same" if val == d else repr(val)
            else:
                for v in vals:
                    table[v] = const_val(val) if is_const(val, "char") else repr(val)
        # which field receives the built string
        field = None
        if dest is not None and dest_local is not None:
            for (i, j, fname, rv_) in part_writes(qb):
                if dest_local in _moved_locals(qb, rv_):
                    field = fname
        maps[s] = (it_src, field, table, okshape)
    # the same per-character map written as  part.extend(source.chars().map(|ch| …))
    from engine.analyses import PredEval
    pe_ = PredEval(prog)
    for (bb_, t_) in qb.calls():
        n_ = callee_name(t_)
        if not (n_.endswith("::extend") and "String" in t_["args"][0]["place"]["ty"]):
            continue
        it_ = strip_refs(qb.expr_operand(t_["args"][1]))
        mp_ = it_ if (it_.k == "call" and it_.a[0].endswith("Iterator::map")) else None
        if mp_ is None:
            continue
        clo_ = strip_refs(mp_.a[1][1])
        if not (clo_.k == "agg" and str(clo_.a[0]).startswith("closure:")):
            continue
        ck_ = clo_.a[0][8:]
        table = {}
        okshape = True
        same = True
        for cp in [0x27, 0x22] + list(range(0x20, 0x7f)) + [0x0995, 0x09BE, 0x0964, 0x2018, 0x201C]:
            r_ = pe_.call(ck_, [("env",), cp])
            if r_ is None or isinstance(r_, bool):
                okshape = False
                break
            if cp in (0x27, 0x22):
                table[cp] = chr(r_) if r_ != cp else chr(cp)
            elif r_ != cp:
                same = False
        table["otherwise"] = "same" if same else "changed"
        # drop identity rows so that the comparison below sees only real replacements
        table = {k: v for k, v in table.items() if k == "otherwise" or ord(v) != k}
        dest_local = _ref_target_local(qb, t_["args"][0])
        field = None
        if dest_local is not None:
            for (i, j, fname, rv_) in part_writes(qb):
                if dest_local in _moved_locals(qb, rv_):
                    field = fname
        maps[bb_] = (_chars_source(qb, mp_.a[1][0], acc), field, table, okshape)
    # the same two maps made by one private helper called once per part (`curve(part, '‘', '“')`), handed over directly or through the
    # split value's rebuilding method
    def _as_table(hm):
        src_, out_, keeps_ = hm
        tb_ = dict(out_)
        tb_["otherwise"] = "same" if keeps_ else "changed"
        return src_, tb_
    have_ = {m_[1] for m_ in maps.values() if m_[1]}
    if map_form is not None:
        bb_, ck_, sem_ = map_form
        cb_ = prog.body(ck_)
        ret_ = strip_refs(peel_conv(cb_.expr_local(0)))

        def part_of2(e_):
            e_ = strip_refs(peel_conv(e_))
            return sem_["params"].get(e_.a[0]) if e_.k == "arg" else None
        if ret_.k == "agg" and ret_.a[0] == "tuple" and len(ret_.a[1]) == 2:
            for idx_, comp_ in enumerate(ret_.a[1]):
                fname = sem_["results"].get(idx_)
                hm = helper_call_map(prog, cb_, comp_, part_of2)
                if fname and hm is not None:
                    src_, tb_ = _as_table(hm)
                    maps[-(idx_ + 1)] = (src_, fname, tb_, True)
                elif fname:
                    maps[-(idx_ + 1)] = (None, fname, {}, False)
    else:
        qb0 = prog.body(q)          # the quoter as written: a helper the spliced view has dissolved into the quoter is still a call here
        for fname in sorted(wblocks):
            if fname in have_:
                continue
            for (i, j, fname_, rv_) in part_writes(qb0):
                if fname_ != fname:
                    continue
                for l_ in sorted(_moved_locals(qb0, rv_)):
                    for d_ in qb0.defs.get(l_, []):
                        if d_[2] != "call":
                            continue
                        e_ = E("call", callee_name(d_[3]), tuple(qb0.expr_operand(a_) for a_ in d_[3]["args"]), d_[0], t=d_[3])

                        def part_of1(x_):
                            x_ = strip_refs(peel_conv(x_))
                            while x_.k == "call" and x_.a[0].endswith("::deref") and len(x_.a[1]) == 1:
                                x_ = strip_refs(x_.a[1][0])
                            if x_.k == "call" and x_.a[0] in acc:
                                return acc[x_.a[0]]
                            r__, f__ = apath(x_)
                            return f__[-1] if f__ else None
                        hm = helper_call_map(prog, qb0, e_, part_of1)
                        if hm is not None:
                            src_, tb_ = _as_table(hm)
                            maps[min(d_[0], len(qb.blocks) - 1)] = (src_, fname, tb_, True)
    seen_fields = set()
    for s, (it_src, field, table, okshape) in sorted(maps.items()):
        key = "map:%s" % (field or "bb%d" % s)
        if s < 0 and map_form is not None:
            s = map_form[0]
        if not okshape or field is None:
            r1.undecidable(key, "cannot summarise the per-character match at bb%d as a table of pushes (source %s, dest %s)" % (s, it_src, field), site_of(qb, s))
            continue
        seen_fields.add(field)
        got = {k: (ord(v) if isinstance(v, str) and len(v) == 1 else v) for k, v in table.items() if k != "otherwise"}
        if it_src != field:
            r1.violation(key, "the rebuilt %s part is computed from the %s part" % (field, it_src), site_of(qb, s))
        elif got != want.get(field) or table.get("otherwise") != "same":
            r1.violation(key, "character map for the %s part is %s / otherwise %s; expected %s / otherwise unchanged"
                         % (field, {chr(k): "U+%04X" % v if isinstance(v, int) else v for k, v in got.items()}, table.get("otherwise"),
                            {chr(k): "U+%04X" % v for k, v in want[field].items()}), site_of(qb, s))
        else:
            r1.ok(key, "%s: ' → U+%04X, \" → U+%04X, others unchanged" % (field, want[field][0x27], want[field][0x22]))
    for f in ("preceding", "trailing"):
        if f not in seen_fields and ("map:%s" % f) not in [i["key"] for i in r1.instances]:
            r1.violation("map:%s" % f, "no per-character map found that rebuilds the %s part" % f, common.fn_line(prog, q))
    # nothing but the two per-character maps edits the parts
    edits = [(bb_, callee_name(t_)) for (bb_, t_) in qb.calls()
             if any(callee_name(t_).endswith(s_) for s_ in ("str>::replace", "str>::replacen", "::replace_range", "::to_uppercase", "::to_lowercase", "::to_ascii_uppercase",
                                                           "::to_ascii_lowercase", "String::retain", "String::remove", "String::insert", "String::insert_str", "String::truncate",
                                                           "str>::trim", "str>::trim_start", "str>::trim_end", "str>::trim_matches", "str>::trim_start_matches", "str>::trim_end_matches"))]
    if edits:
        r1.violation("other-edit", "besides the two per-character maps the quoter edits the text with %s — smart quotes change the quotes that wrap a word and nothing else"
                     % edits[0][1].split("::")[-1], site_of(qb, edits[0][0]))
    else:
        r1.ok("other-edit", "no string-level edit (replace / trim / case / insert / remove) in the quoter")
    r1.floor(5, "frame, bypass, two character maps, other-edit")

    # ---------------- R2 / R3 in the builders
    r2 = chk.rule("C17.R2", "quoter applied exactly under the option, once, after split/conversion and before every consumer",
                  "turning smart quotes on changes every non-raw candidate in exactly that way, in both methods (candidates, emoji wrapping, selection look-up)")
    r3 = chk.rule("C17.R3", "raw typed-text candidates do not pass through the quoter",
                  "the raw typed text itself is never curled")
    sp = split_fn(prog)
    ctors = builders.rank_ctors(prog)
    callers = [k for k in prog.fns if q in prog.callgraph()[k]]
    roles = builders.method_roles(prog)
    entry = [roles[t]["get_suggestion"] for t in roles] + [prog.method_impl(t, "backspace_event") for t in roles]
    reach = prog.reach(entry, foreign_trait_impls=False)
    callers = [k for k in callers if k in reach]
    from . import roles as _roles17
    for fk in sorted(callers):
        b = prog.body(fk)
        staged_body = None
        root17, climbed17 = builders.builder_root(prog, fk)
        if climbed17 and not builders.push_events(prog, fk, ctors) and not any(callee_name(t) == q for (_, t) in prog.body(root17).calls()):
            # the quoter call sits in a private stage split off the builder: look at the builder with its stages spliced in
            fk = root17
            b = staged_body = _roles17.ib(prog, fk)
        short = fk.split("::")[-1]
        qcalls = [(bb, t) for (bb, t) in b.calls() if callee_name(t) == q]
        if len(qcalls) != 1:
            r2.violation("%s:once" % short, "the quoter is called %d times in %s" % (len(qcalls), fk), common.fn_line(prog, fk))
            continue
        qbb, qt = qcalls[0]
        g = guards_of(b, qbb)
        gdesc = []
        good_guard = False
        extra = []
        for (d, pol, s) in g:
            if d.k == "call" and d.a[0].endswith("Config::get_smart_quote") and pol is True:
                good_guard = True
                gsw = s
            else:
                extra.append((d, pol))
        if not good_guard:
            r2.violation("%s:guard" % short, "the quoter call is not dominated by the true edge of get_smart_quote()", site_of(b, qbb))
            continue
        # once the option is on, every path must run the quoter: the call post-dominates the target of the option's true edge
        # (a condition joined with `||` dominates nothing, so dominance of the guards alone would not see it)
        t_edges = []
        for (node, vals, tgt) in b.switch_edges(gsw):
            from engine.analyses import bool_switch_polarity
            if bool_switch_polarity(b, gsw).get(node) is True:
                t_edges.append(tgt)
        bypass = [tgt for tgt in t_edges if tgt != qbb and not b.postdominates(qbb, tgt)]
        if extra:
            r2.violation("%s:guard" % short, "the quoter is applied only under an additional condition: %s" % ", ".join("%r=%s" % (d, p) for d, p in extra)[:300],
                         site_of(b, qbb))
        elif bypass or not t_edges:
            r2.violation("%s:guard" % short, "with the option on some path skips the quoter (it is applied only under an additional condition)", site_of(b, bypass[0] if bypass else gsw))
        else:
            r2.ok("%s:guard" % short, "quoter call guarded by exactly get_smart_quote() == true")
        # the guard itself must be unconditional in the builder (dominates every return)
        if all(b.dominates(gsw, rb) for rb in b.return_blocks):
            r2.ok("%s:reached" % short, "the option test is on every path of the builder")
        else:
            r2.violation("%s:reached" % short, "some path through %s never tests get_smart_quote()" % fk, site_of(b, gsw))
        # argument: the split value; result stored back into the same local
        arg = strip_refs(b.expr_operand(qt["args"][0]))
        split_local = qt["args"][0]["place"]["l"] if qt["args"][0]["k"] != "const" else None
        # find the user variable: follow `_17 = move _6`
        src_local = None
        for d_ in b.defs.get(split_local, []):
            if d_[2] == "assign" and d_[3]["rv"]["k"] == "use" and d_[3]["rv"]["op"]["k"] in ("move", "copy"):
                src_local = d_[3]["rv"]["op"]["place"]["l"]
        var = src_local if src_local is not None else split_local
        if not any(x.k == "call" and x.a[0] == sp for x in b.expr_local(var).walk()):
            r2.violation("%s:arg" % short, "the quoter is not applied to the value produced by the splitter", site_of(b, qbb))
            continue
        # result assigned back to var
        back = any(d_[2] == "assign" and b.pos_dominates((qbb, 0), (d_[0], d_[1])) and
                   any(x.k == "call" and x.a[0] == q for x in b.expr_rvalue(d_[3]["rv"]).walk())
                   for d_ in b.defs.get(var, []))
        if not back:
            r2.violation("%s:result" % short, "the quoter's result is not stored back into the split value that the consumers read", site_of(b, qbb))
        else:
            r2.ok("%s:result" % short, "split value := quoter(split value)")
        # consumers: every use of var outside {split, conversion map} must be dominated by the guard switch
        bad_uses = []
        n_uses = 0
        for (bb, t) in b.calls():
            if bb == qbb:
                continue
            uses = False
            for a in t["args"]:
                if a["k"] == "const":
                    continue
                e = b.expr_operand(a)
                r, f = apath(e)
                if (r.k == "local" and r.a[0] == var) or _mentions_local(b, a, var):
                    uses = True
            if not uses:
                continue
            n = callee_name(t)
            if n == sp:
                continue
            n_uses += 1
            if b.dominates(gsw, bb):
                continue
            # allowed before the guard: the conversion of the wrapping parts (SplittedString::map)
            if n.startswith(SPLIT_TY) and n.endswith("::map") and b.dominates(bb, gsw):
                continue
            bad_uses.append((bb, n))
        # closures capturing the split value
        for ck in prog.closures_of(fk):
            cc = closure_creation(prog, ck)
            if not cc:
                continue
            pb, i, j, s, ups = cc
            if pb.key != fk:
                continue
            if any(_e_mentions_local(u, var) for u in ups):
                n_uses += 1
                if not b.dominates(gsw, i):
                    # conversion closure handed to map() before the guard is fine
                    cons = [t for (bb2, t) in b.calls() if bb2 == i or True]
                    bad_uses.append((i, "closure " + ck))
        # the statement-level reads (as_tuple etc.) are calls, covered above
        if bad_uses:
            bb0, n0 = bad_uses[0]
            r2.violation("%s:order" % short, "%s reads the split value before the quoter could be applied (not dominated by the option test)" % n0,
                         site_of(b, bb0))
        else:
            r2.ok("%s:order" % short, "all %d consumers of the split value come after the option test" % n_uses)
        # R3: raw-text pushes
        for p in builders.push_events(prog, fk, ctors, body=staged_body):
            if p.item is None:
                continue
            pe = peel_conv(p.item)
            cv_ = builders.creator_value(prog, p)
            if cv_ is not None and cv_[0].k == "arg" and cv_[1].key == fk and b.locals[cv_[0].a[0]]["ty"] == "&str":
                pe = cv_[0]             # built inside a closure of the builder from the captured text parameter
            is_raw = (pe.k == "arg" and b.locals[pe.a[0]]["ty"] == "&str" and (p.body.key == fk or cv_ is not None)) or \
                     (self_path(pe) is not None and self_path(pe)[:1] and any(self_path(pe)[0] in roles[t]["raw"] and roles[t]["buffer"] not in roles[t]["raw"] for t in roles))
            if not is_raw:
                continue
            key = "%s:raw@bb%d" % (short, p.bb)
            through = any(x.k == "call" and (x.a[0] == q or x.a[0] in acc) for x in p.item.walk())
            if through:
                r3.violation("%s:raw#%s" % (short, p.variant), "a raw typed-text candidate is built from the (curled) split value", site_of(b, p.bb))
            elif p.kind == "push_checked":
                r3.violation("%s:raw#%s" % (short, p.variant), "the raw typed-text candidate is added through the duplicate-dropping helper: whether it equals the "
                             "candidate before it depends on that candidate being curled or not, so the lists with the option on and off differ in length "
                             "(a word the conversion leaves unchanged: one entry with the option off, two with it on)", site_of(b, p.bb))
            else:
                r3.ok("%s:raw#%s/%s" % (short, p.variant, const_val(strip_refs(p.rankval)) if p.rankval is not None and strip_refs(p.rankval).k == "const" else "?"),
                      "raw text pushed from %r" % (pe,))
    # one split value per builder: a private stage of a list builder that splits the text again works with parts the quoter (and the
    # conversion) never saw — its candidates are wrapped in straight / unconverted punctuation while the word candidates are curled
    for fk in sorted(callers):
        root_s, extra_splits = builders.second_splits(prog, fk, sp, ctors)
        short_s = root_s.split("::")[-1]
        if extra_splits:
            r2.violation("%s:single-split" % short_s, "%s splits the text again and builds candidates from that second split value, which never passes the quoter: "
                         "those candidates keep straight quotes while the others are curled" % extra_splits[0].split("::")[-1], common.fn_line(prog, extra_splits[0]))
        else:
            r2.ok("%s:single-split" % short_s, "no stage of the builder builds candidates from a second split of the text")
    # ---------------- R4 the curled quotes stay punctuation for the splitter (same preselection with the option on and off)
    r4 = chk.rule("C17.R4", "the quotes the quoter produces are punctuation for the splitter",
                  "same preselection with the option on and off (a committed curled candidate must be stripped like a straight one)")
    sets = common.splitter_sets(prog, sp)
    meta = set("".join(s_ for s_, bb in sets))
    qout = quoter_outputs(prog)
    for ch in sorted(qout):
        if ch in meta:
            r4.ok("U+%04X" % ord(ch), "in the splitter's punctuation set")
        else:
            r4.violation("U+%04X" % ord(ch), "the quoter emits U+%04X but the splitter does not treat it as punctuation: with the option on a learned choice for a "
                         "quoted word is stored with the quote and the preselection differs from the option-off run" % ord(ch), common.fn_line(prog, sp))
    r4.floor(4, "four curly quotes")
    r2.floor(10, "two builders × (guard, reached, result, order, single-split)")
    r3.floor(3, "emoticon literal, phonetic English, fixed English")
    r5 = chk.rule("C17.R5", "the smart-quote option is a plain stored value", "turning smart quotes on changes a suggestion in exactly one way — 'on' is the value the front end set")
    common.plain_options(r5, prog, ["get_smart_quote"])
    r5.floor(1, "the option")


def _chars_source(b, d, acc):
    """Which accessor/field the iterated chars come from: 'preceding' | 'trailing' | 'word' | None."""
    for x in d.walk():
        if x.k == "call" and x.a[0].endswith("str>::chars"):
            src = strip_refs(x.a[1][0])
            while src.k == "call" and src.a[0].endswith("::deref") and len(src.a[1]) == 1:
                src = strip_refs(src.a[1][0])
            if src.k == "call" and src.a[0] in acc:
                return acc[src.a[0]]
            r, f = apath(src)
            if f:
                return f[-1]
    # the loop variable resolves through the iterator local: look for the into_iter(chars(..)) feeding it
    for x in d.walk():
        if x.k == "local":
            for d_ in b.defs.get(x.a[0], []):
                if d_[2] == "assign":
                    e = b.expr_rvalue(d_[3]["rv"])
                    r = _chars_source(b, e, acc)
                    if r:
                        return r
    return None


def _mentions_local(b, op, var):
    if op["k"] == "const":
        return False
    return _e_mentions_local(b.expr_operand(op), var)


def _e_mentions_local(e, var):
    for x in e.walk():
        if x.k == "local" and x.a[0] == var:
            return True
        if x.k == "phi":
            pass
    return False


def _ref_target_local(b, op):
    """For an operand that is (a move of) `&mut _N`: N."""
    if op["k"] == "const":
        return None
    l = op["place"]["l"]
    for _ in range(6):
        defs = b.defs.get(l, [])
        if len(defs) != 1 or defs[0][2] != "assign":
            return None
        rv = defs[0][3]["rv"]
        if rv["k"] == "ref" and not rv["place"]["p"]:
            return rv["place"]["l"]
        if rv["k"] == "ref" and rv["place"]["p"] == ["*"]:
            l = rv["place"]["l"]
            continue
        if rv["k"] == "use" and rv["op"]["k"] in ("move", "copy") and not rv["op"]["place"]["p"]:
            l = rv["op"]["place"]["l"]
            continue
        return None
    return None


def _moved_locals(b, rv, depth=0):
    """Locals whose value is moved (through use / single-field aggregates) into rvalue rv."""
    out = set()
    ops = []
    if rv["k"] == "use":
        ops = [rv["op"]]
    elif rv["k"] == "aggregate":
        ops = rv["ops"]
    for op in ops:
        if op["k"] in ("move", "copy") and not op["place"]["p"]:
            l = op["place"]["l"]
            out.add(l)
            if depth < 6:
                for d_ in b.defs.get(l, []):
                    if d_[2] == "assign":
                        out |= _moved_locals(b, d_[3]["rv"], depth + 1)
                    elif d_[2] == "call" and len(d_[3]["args"]) == 1 and any(callee_name(d_[3]).endswith(sfx) for sfx in ("::into", "::from", "::to_owned", "::into_owned")):
                        # a value-preserving conversion (`s.into()` for `Cow::Owned(s)`)
                        a0 = d_[3]["args"][0]
                        if a0["k"] in ("move", "copy") and not a0["place"]["p"]:
                            out |= _moved_locals(b, {"k": "use", "op": a0}, depth + 1)
    return out
