"""C13 — old-style reph is moved in front of the final conjunct and loses nothing.

Decided statically: the reph path has no undischarged panic site on any text including the empty one;
the tail removed and the tail re-appended are the same `step` code points of the same text
(value identity), followed by exactly র ্ tail; the byte arithmetic of the internal back-space is the
suffix-bytes idiom; the feature is gated by exactly `value == "র্" ∧ option`.
Not decided: *where* the reph lands (the right-to-left scan is value-level)."""
from engine.mir import E, apath, strip_refs, is_const, const_val, callee_name, self_path
from engine.analyses import (peel_conv, guards_of, contains_call, ModSets, closure_creation)
from engine.report import site_of
from . import common, builders, phonetic

REPH = "র্"
ZOFOLA = "্য"
PANIC_CALLS = ("Option::<T>::unwrap", "Option::<T>::expect", "Result::<T, E>::unwrap", "Result::<T, E>::expect", "::index", "::index_mut",
               "::split_at", "::remove", "::insert", "::drain", "::split_off", "panicking::panic", "rt::panic_fmt", "::unwrap_unchecked")


def operand_local(b, op):
    """Follow `copy/move` chains of a MIR operand back to a user-level local id."""
    if op["k"] == "const":
        return None
    l = op["place"]["l"]
    if op["place"]["p"]:
        return None
    for _ in range(8):
        defs = b.defs.get(l, [])
        if len(defs) == 1 and defs[0][2] == "assign" and defs[0][3]["rv"]["k"] == "use" and defs[0][3]["rv"]["op"]["k"] in ("copy", "move") \
                and not defs[0][3]["rv"]["op"]["place"]["p"]:
            l = defs[0][3]["rv"]["op"]["place"]["l"]
            continue
        break
    return l


def key_value_processor(prog):
    fx = builders.fixed_ty(prog)
    roles = builders.method_roles(prog)
    gs = prog.body(roles[fx]["get_suggestion"])
    lt = common.layout_table_fn(prog)
    for (bb, t) in gs.calls():
        n = callee_name(t)
        if n in prog.fns and (prog.fns[n].get("impl") or {}).get("self") == fx:
            for a in gs.call_args(t):
                if contains_call(a, lambda m: m == lt):
                    return n
    return None


def run(ctx):
    prog, chk = ctx.prog, ctx.check
    chk.explanation = (
        "Panic-site census of the three reph functions with specialised discharge rules (loop-counter, counted subtraction, suffix-bytes), "
        "value-identity dataflow between the removed and re-appended tail, ordered who-may-write on the buffer after the scan, and guard "
        "dominance for the gate.")
    chk.not_decided = ["the position the right-to-left scan (four flags) stops at for each text: value-level — *whether* the reph moves is decided (R7), how far it "
                       "moves is not; the two misplacements the property text mentions are outside static reach"]
    mods = ctx.memo("modsets", lambda: ModSets(prog))
    fx = builders.fixed_ty(prog)
    roles = builders.method_roles(prog)
    buf = roles[fx]["buffer"]
    kvp = key_value_processor(prog)
    if not kvp:
        chk.rule("C13.anchor", "anchors").undecidable("kvp", "key-value processor (callee of the fixed key handler that receives the layout value) not found")
        return
    kb = prog.body(kvp)

    # ---------------- R3 gate
    r3 = chk.rule("C13.R3", "reph routine gated by exactly value == \"র্\" ∧ old-reph option; otherwise the value is appended",
                  "with the option off the reph key simply appends its value")
    reph_calls = []
    for (bb, t) in kb.calls():
        n = callee_name(t)
        if n in prog.fns and (prog.fns[n].get("impl") or {}).get("self") == fx and n != kvp:
            g = guards_of(kb, bb)
            if any(d.k == "call" and d.a[0].endswith("get_fixed_old_reph") for (d, pol, s) in g):
                reph_calls.append((bb, t, g))
    if len(reph_calls) != 1:
        r3.violation("site", "expected one call guarded by the old-reph option in the key-value processor, found %d" % len(reph_calls), common.fn_line(prog, kvp))
        return
    rbb, rt, g = reph_calls[0]
    reph_fn = callee_name(rt)
    okv = oko = False
    extra = []
    for (d, pol, s) in g:
        if d.k == "call" and d.a[0].endswith("get_fixed_old_reph"):
            oko = pol is True
            continue
        if d.k == "call" and (d.a[0].endswith("::eq") or d.a[0].endswith("::ne")):
            lits = [const_val(peel_conv(x)) for x in d.a[1] if is_const(peel_conv(x), "str")]
            args = [peel_conv(x) for x in d.a[1] if peel_conv(x).k == "arg"]
            if lits == [REPH] and args and pol == d.a[0].endswith("::eq"):
                okv = True
                continue
            if lits == [ZOFOLA] and pol != d.a[0].endswith("::eq"):
                continue          # not the zo-fola value (tested first)
        extra.append((d, pol))
    if okv and oko and not extra:
        r3.ok("gate", "insert-reph ⇐ value == \"র্\" ∧ get_fixed_old_reph() (after the zo-fola test)")
    else:
        r3.violation("gate", "the reph routine is reached under %s%s — the gate must be exactly value == \"র্\" ∧ the option"
                     % ("value==reph " if okv else "", "∧ extra conditions %s" % (extra,) if extra else "(option/value test missing)"), site_of(kb, rbb))
    # it returns right after (nothing else is appended)
    nxt = kb.blocks[rbb]["term"].get("target")
    after = kb.reachable_from(nxt) if nxt is not None else set()
    w_after = [(f, op) for (f, op, bb2, w) in phonetic.field_writes(prog, kvp, mods) if bb2 in after and f[:1] == (buf,)]
    if w_after:
        r3.violation("gate-return", "after the reph routine the key-value processor still writes the buffer (%s)" % (w_after[0][1],), site_of(kb, rbb))
    else:
        r3.ok("gate-return", "returns right after the reph routine")
    r3.floor(2, "gate + return")

    # ---------------- R2 conservation
    r2 = chk.rule("C13.R2", "the tail removed and the tail re-appended are the same `step` code points of the same text, then exactly র ্ tail",
                  "pressing the reph key turns p into p with র্ inserted at one position and nothing else changed")
    # the reph routine with its private helpers (scan, mobility test) spliced in; the internal back-space stays a call
    from . import roles as _roles
    rb = _roles.ib(prog, reph_fn)        # including the internal back-space helper, which may also be written in place
    inl = set(rb.fn.get("inlined") or [])
    # len = chars().count() of the buffer
    cnt = [(bb, t) for (bb, t) in rb.calls() if callee_name(t).endswith("::count")]
    skip = [(bb, t) for (bb, t) in rb.calls() if callee_name(t).endswith("::skip")]
    # the removal of the tail: the one truncate of the composition buffer
    bsp = [(bb, t) for (bb, t) in rb.calls() if callee_name(t).endswith("String::truncate") and self_path(rb.expr_operand(t["args"][0])) == (buf,)]
    spo = [(bb, t) for (bb, t) in rb.calls() if callee_name(t).endswith("String::split_off") and self_path(rb.expr_operand(t["args"][0])) == (buf,)]
    bs_fn = None
    ok_idiom, why = False, "internal back-space not identified"
    split_form = len(spo) == 1 and not bsp
    if split_form:
        # the tail is *taken off* the text in one operation (`tail = text.split_off(at)`): what is removed is what is kept, whatever `at` is
        bbb, bt = spo[0]
        cbb = bbb
        ok_idiom, why, take_local = suffix_bytes_idiom(prog, rb, buf)
        writes = [(f, op, bb2) for (f, op, bb2, w) in phonetic.field_writes(prog, reph_fn, mods, body=rb) if f[:1] == (buf,)]
        r2.ok("tail", "tail = text.split_off(at): the removed tail is the saved tail by construction")
    if not split_form and (len(cnt) != 1 or len(skip) != 1 or len(bsp) != 1):
        r2.undecidable("shape", "expected one chars().count(), one skip(), one truncate of the text in the reph routine (found %d/%d/%d)" % (len(cnt), len(skip), len(bsp)),
                       common.fn_line(prog, reph_fn))
    else:
        if not split_form:
            cbb, ct = cnt[0]
            sbb, st = skip[0]
            bbb, bt = bsp[0]
            bs_fn = None
            ok_idiom, why, take_local = suffix_bytes_idiom(prog, rb, buf)
            len_src = peel_conv(rb.expr_operand(ct["args"][0]))
            len_on_buf = contains_call(len_src, lambda n: n.endswith("str>::chars")) is not None and any(self_path(x) == (buf,) for x in len_src.walk())
            len_local = ct["dest"]["l"]
            skip_src = peel_conv(rb.expr_operand(st["args"][0]))
            skip_on_buf = contains_call(skip_src, lambda n: n.endswith("str>::chars")) is not None and any(self_path(x) == (buf,) for x in skip_src.walk())
            # skip argument = len - step
            sk = strip_refs(rb.expr_operand(st["args"][1]))
            sub = None
            for x in sk.walk():
                if x.k == "bin" and x.a[0] in ("Sub", "SubWithOverflow"):
                    sub = x
            step_skip = step_bs = None
            if sub is not None:
                # operand locals straight from the MIR statement
                for (i, j, s) in rb.stmts():
                    if s["k"] == "assign" and s["rv"]["k"] == "binop" and s["rv"]["op"] in ("Sub", "SubWithOverflow"):
                        l_ = operand_local(rb, s["rv"]["l"])
                        r_ = operand_local(rb, s["rv"]["r"])
                        if l_ == len_local:
                            step_skip = r_
            step_bs = take_local
            same_step = step_skip is not None and step_skip == step_bs
            # no buffer write between count and the back-space
            writes = [(f, op, bb2) for (f, op, bb2, w) in phonetic.field_writes(prog, reph_fn, mods, body=rb) if f[:1] == (buf,)]
            early = [w for w in writes if w[2] != bbb and rb.dominates(cbb, w[2]) and not rb.dominates(bbb, w[2]) and bbb in rb.reachable_from(w[2])]
            sk_core = sk
            if sk_core.k == "field" and str(sk_core.a[1]) == "0":
                sk_core = strip_refs(sk_core.a[0])
            exact_sub = sk_core.k == "bin" and sk_core.a[0] in ("Sub", "SubWithOverflow")
            if sub is not None and not exact_sub:
                r2.violation("tail", "the number of code points skipped is %r, not exactly len − step: the saved tail and the removed tail differ" % (sk_core.a[0] if sk_core.k == "bin" else sk_core.k,),
                             site_of(rb, sbb))
            elif not (len_on_buf and skip_on_buf and sub is not None):
                r2.violation("tail", "the saved tail is not chars().skip(len − step) of the buffer with len = chars().count() of the buffer", site_of(rb, sbb))
            elif not same_step:
                r2.violation("tail", "the number of code points saved (skip(len − _%s)) and removed (back-space(_%s)) are different values" % (step_skip, step_bs), site_of(rb, bbb))
            elif early:
                r2.violation("tail", "the buffer is modified (%s) between measuring it and removing the tail" % early[0][1], site_of(rb, early[0][2]))
            elif not rb.dominates(sbb, bbb):
                r2.violation("tail", "the tail is removed before it is saved", site_of(rb, bbb))
            else:
                r2.ok("tail", "temp = chars().skip(len − step); back-space(step) — same step, same text")
        # after the back-space: push R, push HASANTA, push_str(temp)
        seq = []
        x = rb.blocks[bbb]["term"].get("target")
        seen = set()
        while x is not None and x not in seen:
            seen.add(x)
            t = rb.blocks[x]["term"]
            if t["k"] == "call":
                n = callee_name(t)
                if t["args"] and t["args"][0]["k"] != "const" and self_path(rb.expr_operand(t["args"][0])) == (buf,) and t["args"][0]["place"]["ty"].startswith("&mut"):
                    a1 = peel_conv(rb.expr_operand(t["args"][1])) if len(t["args"]) > 1 else None
                    seq.append((n.split("::")[-1], const_val(a1) if a1 is not None and a1.k == "const" else a1))
            if t["k"] in ("goto", "call", "drop") and t.get("target") is not None:
                x = t["target"]
            else:
                break
        temp_local = rb.blocks[[bb for (bb, t) in rb.calls() if callee_name(t).endswith("::collect")][0]]["term"]["dest"]["l"] \
            if any(callee_name(t).endswith("::collect") for (bb, t) in rb.calls()) else None
        # literal appends side by side are one literal: push(র) push(্) is push_str("র্")
        nseq = _join_literals(seq)
        good_seq = len(nseq) == 2 and nseq[0] == "র্" and not isinstance(nseq[1], str) and nseq[1][0] == "push_str"
        if good_seq:
            e3 = nseq[1][1]
            src_ok = e3 is not None and (contains_call(e3, lambda n: n.endswith("::collect")) is not None
                                         or (split_form and contains_call(e3, lambda n: n.endswith("String::split_off")) is not None))
            if src_ok:
                r2.ok("reinsert", "push(র) push(্) push_str(temp)")
            else:
                r2.violation("reinsert", "what is re-appended after র্ is %r, not the saved tail" % (e3,), site_of(rb, bbb))
        else:
            r2.violation("reinsert", "after removing the tail the routine performs %s; expected exactly push(র), push(্), push_str(saved tail)" % ([s_[0] for s_ in seq],), site_of(rb, bbb))
        # non-moveable branch: exactly two pushes
        nm = None
        for s in rb.rblocks:
            t = rb.blocks[s]["term"]
            if t["k"] == "switch" and t["discr_ty"] == "bool" and rb.dominates(s, bbb):
                away = [tgt for (node, vals, tgt) in rb.switch_edges(s) if bbb not in rb.reachable_from(tgt)]
                if len(away) == 1:
                    nm = away[0]
        if nm is None:
            r2.undecidable("append", "non-moveable branch not found")
        else:
            reg = rb.reachable_from(nm)
            ws = [(op.split("::")[-1], bb2) for (f, op, bb2, w) in phonetic.field_writes(prog, reph_fn, mods, body=rb) if bb2 in reg and f[:1] == (buf,)]
            lits = []
            # values as this branch computes them (`let tail = if moveable { cut() } else { String::new() }; … push_str(&tail)`: on the
            # not-moveable side the tail is the empty string)
            from engine.analyses import chain as _chain
            try:
                env_nm = rb.eval_path(_chain(rb, nm))
            except Exception:
                env_nm = {}
            for (opn, bb2) in sorted(ws, key=lambda w_: (0 if w_[1] == nm or w_[1] not in rb.reachable_from(nm) else 1, len(rb.reachable_from(w_[1])) * -1)):
                t2 = rb.blocks[bb2]["term"]
                a1 = peel_conv(rb.expr_operand(t2["args"][1])) if t2["k"] == "call" and len(t2["args"]) > 1 else None
                if a1 is not None and a1.k != "const" and bb2 in _chain(rb, nm):
                    a1p = strip_refs(peel_conv(rb.expr_operand(t2["args"][1], 0, env_nm)))
                    while a1p.k == "call" and a1p.a[0].endswith(("::deref", "String::as_str")) and len(a1p.a[1]) == 1:
                        a1p = strip_refs(peel_conv(a1p.a[1][0]))
                    if a1p.k == "call" and a1p.a[0].endswith("String::new") and not a1p.a[1]:
                        lits.append((opn, ""))
                        continue
                lits.append((opn, const_val(a1) if a1 is not None and a1.k == "const" else a1))
            if _join_literals(lits) == ["র্"]:
                r2.ok("append", "not moveable: exactly র্ is appended")
            else:
                r2.violation("append", "the not-moveable branch performs %s instead of appending র্" % [w[0] for w in ws], site_of(rb, nm))
        # frame: nothing else touches the text — apart from a character taken off and put back under the same condition on every path
        allowed_bbs = {bbb}
        x = rb.blocks[bbb]["term"].get("target")
        seen2 = set()
        n_after = 0
        while x is not None and x not in seen2 and n_after < 3:
            seen2.add(x)
            t = rb.blocks[x]["term"]
            if t["k"] == "call" and t["args"] and t["args"][0]["k"] != "const" and self_path(rb.expr_operand(t["args"][0])) == (buf,) \
                    and t["args"][0]["place"]["ty"].startswith("&mut"):
                allowed_bbs.add(x)
                n_after += 1
            x = t["target"] if t["k"] in ("goto", "call", "drop") and t.get("target") is not None else None
        if nm is not None:
            allowed_bbs |= {bb2 for (f, op, bb2, w) in phonetic.field_writes(prog, reph_fn, mods, body=rb) if bb2 in rb.reachable_from(nm) and f[:1] == (buf,)}
        extra = [w for w in writes if w[2] not in allowed_bbs]
        pops = [w for w in extra if w[1].endswith("pop")]
        pushes = [w for w in extra if w[1].endswith("::push") or w[1] == "push"]
        other = [w for w in extra if w not in pops and w not in pushes]
        bad_frame = None
        if other:
            bad_frame = ("the routine also performs %s on the text" % other[0][1].split("::")[-1], other[0][2])
        else:
            used = set()
            for pw in pops:
                gp = {(repr(d), pol) for (d, pol, s_) in guards_of(rb, pw[2])}
                mate = None
                for qw in pushes:
                    if qw[2] in used or pw[2] not in [pw[2]] or qw[2] not in rb.reachable_from(pw[2]):
                        continue
                    gq_full = guards_of(rb, qw[2])
                    gq = {(repr(d), pol) for (d, pol, s_) in gq_full}
                    if gp != gq:
                        continue
                    anchor = max((s_ for (d, pol, s_) in gq_full), default=None, key=lambda s_: sum(1 for y in rb.rblocks if rb.dominates(y, s_))) if gq_full else qw[2]
                    if anchor is not None and rb.postdominates(anchor, pw[2]):
                        mate = qw
                        break
                if mate is None:
                    bad_frame = ("a character is popped off the text and not put back under the same condition on every path to the return (some path loses it)", pw[2])
                    break
                used.add(mate[2])
            if bad_frame is None and len(used) != len(pushes):
                qw = [q for q in pushes if q[2] not in used][0]
                bad_frame = ("the routine pushes an additional character onto the text", qw[2])
        if bad_frame is not None:
            r2.violation("frame", bad_frame[0], site_of(rb, bad_frame[1]))
        else:
            r2.ok("frame", "no other write to the text (%d paired pop/push)" % len(pops))
        # the internal back-space is the suffix-bytes idiom
        if ok_idiom:
            r2.ok("backspace-n", "removes exactly the last n code points: truncate(len() − Σ len_utf8 over chars().rev().take(n))")
        else:
            r2.violation("backspace-n", "the internal back-space does not remove exactly n code points: %s" % why, site_of(rb, bbb))
    r2.floor(5, "tail, reinsert, append, backspace-n, frame")

    # ---------------- R1 no panic on any text
    r1 = chk.rule("C13.R1", "no undischarged panic site in the reph functions (any text, including empty)",
                  "the reph key works on every composed text, including the empty one")
    fns = prog.reach([reph_fn], foreign_trait_impls=False)
    fns = {k for k in fns if (prog.fns[k].get("impl") or {}).get("self") == fx or prog.fns[k].get("kind") == "Closure"}
    n_ob = 0
    for fk in sorted(fns - inl):
        b = rb if fk == reph_fn else prog.body(fk)
        short = fk.split("::")[-1] if prog.fns[fk].get("kind") != "Closure" else fk.split("::")[-2] + "::closure"
        for (bb, t) in b.calls():
            n = callee_name(t)
            if any(n.endswith(s) for s in PANIC_CALLS) and not n.endswith("String::split_off"):
                n_ob += 1
                r1.violation("%s@%s" % (n.split("::")[-1], short), "%s in the reph path can panic (e.g. on an empty text)" % n.split("::")[-1], site_of(b, bb))
            if n.endswith("String::truncate") or n.endswith("String::split_off"):
                n_ob += 1
                if fk == reph_fn and ok_idiom:
                    r1.ok("truncate@%s" % short, "char-boundary and range by the suffix-bytes idiom")
                else:
                    r1.violation("truncate@%s" % short, "String::truncate with an offset not shown to be a char boundary ≤ len", site_of(b, bb))
        for i in b.rblocks:
            t = b.blocks[i]["term"]
            if t["k"] != "assert":
                continue
            n_ob += 1
            kind = t["kind"]
            key = "%s@%s#%d" % (kind, short, sum(1 for j in b.rblocks if j < i and b.blocks[j]["term"]["k"] == "assert" and b.blocks[j]["term"]["kind"] == kind))
            if kind == "Overflow:Add":
                ok_, why_ = loop_counter(b, i) if fk == reph_fn else closure_sum(prog, b, i)
                if not ok_ and fk == reph_fn:
                    ok2_, why2_ = closure_sum(prog, b, i)          # n += c.len_utf8() written as a loop
                    if ok2_:
                        ok_, why_ = ok2_, why2_
                if ok_:
                    r1.ok(key, why_)
                else:
                    r1.violation(key, "addition may overflow: %s" % why_, site_of(b, i))
            elif kind == "Overflow:Sub":
                if fk == reph_fn:
                    ok_, why_ = counted_sub(b, i, buf)
                    if not ok_ and _is_len_minus(b, i, buf):
                        ok_, why_ = (ok_idiom, "len() − Σ len_utf8 of a suffix of the same string" if ok_idiom else why)
                else:
                    ok_, why_ = False, "unknown subtraction"
                if ok_:
                    r1.ok(key, why_)
                else:
                    r1.violation(key, "subtraction may underflow: %s" % why_, site_of(b, i))
            else:
                r1.violation(key, "assert %s in the reph path is not covered by a discharge rule" % kind, site_of(b, i))
    # ---------------- R4 character classes the scan relies on
    from . import classes
    r4 = chk.rule("C13.R4", "the consonant / vowel classes the scan relies on are the Unicode ones",
                  "the final conjunct is recognised for every consonant (placement needs the classes to be right)")
    classes.check_classes(r4, prog, ["is_pure_consonant", "is_vowel"], common.fn_line)
    r4.floor(3, "two classes + disjointness")
    # ---------------- R5 the mobility test only accepts characters the scan classifies
    r5 = chk.rule("C13.R5", "every character class the mobility test accepts is classified (and counted) by the scan",
                  "the reph lands in front of the final conjunct: a character the scan does not know is stepped over uncounted and the reph lands inside the cluster")
    sets5, _pe5 = classes.class_sets(prog)
    by_key = {k: (name, cs) for name, (k, cs) in sets5.items()}
    heads5 = rb.loops()
    def _counts_by_one(x):
        return any(st_["k"] == "assign" and st_["rv"]["k"] == "binop" and st_["rv"]["op"] == "AddWithOverflow" and st_["rv"]["r"]["k"] == "const"
                   and st_["rv"]["r"].get("int") == 1 for st_ in rb.blocks[x]["stmts"])
    scan = [(h, tl) for h, tl in heads5.items() if any(_counts_by_one(x) for x in rb.loop_body(h, tl))]
    if len(scan) != 1:
        r5.undecidable("scan", "expected one counting loop in the reph routine, found %d" % len(scan), common.fn_line(prog, reph_fn))
    else:
        body5 = rb.loop_body(*scan[0])
        in_loop, out_loop, in_eq = set(), set(), set()
        for x in rb.rblocks:
            t = rb.blocks[x]["term"]
            if t["k"] != "switch":
                continue
            d = strip_refs(rb.expr_operand(t["discr"]))
            while d.k == "un" and d.a[0] == "Not":
                d = strip_refs(d.a[1])
            for y in d.walk():
                if y.k == "call" and y.a[0] in by_key:
                    (in_loop if x in body5 else out_loop).add(y.a[0])
                if y.k == "bin" and y.a[0] in ("Eq", "Ne") and x in body5:
                    for o in (strip_refs(y.a[1]), strip_refs(y.a[2])):
                        if is_const(o, "char"):
                            in_eq.add(const_val(o))
        classified = set(in_eq)
        unknown_set = False
        for k5 in in_loop:
            if by_key[k5][1] is None:
                unknown_set = True
            else:
                classified |= by_key[k5][1]
        if not in_loop or not out_loop or unknown_set:
            r5.undecidable("classes", "class predicates of the scan (%d) / the mobility test (%d) not found or not evaluable" % (len(in_loop), len(out_loop)), common.fn_line(prog, reph_fn))
        else:
            for k5 in sorted(out_loop):
                name5, cs5 = by_key[k5]
                if cs5 is None:
                    r5.undecidable("accepts:%s" % name5, "cannot evaluate %s as a set" % name5)
                    continue
                extra5 = cs5 - classified
                if extra5:
                    r5.violation("accepts:%s" % name5, "the mobility test uses %s, which is true for %s, but the scan classifies none of them (it tests %s%s): with such a "
                                 "character at the end the reph is declared moveable, the character is stepped over uncounted and the reph lands inside the cluster"
                                 % (name5, " ".join("U+%04X" % ord(c) for c in sorted(extra5)), ", ".join(sorted(by_key[k][0] for k in in_loop)),
                                    " and " + " ".join("U+%04X" % ord(c) for c in sorted(in_eq)) if in_eq else ""), common.fn_line(prog, k5))
                else:
                    r5.ok("accepts:%s" % name5, "%s ⊆ characters the scan classifies" % name5)
            # conversely: "optionally followed by one vowel (sign)" — the classes the mobility test accepts must cover the consonants and
            # every independent vowel and vowel sign (the minimum sets of the class rule R4)
            acc5 = set()
            for k5 in out_loop:
                if by_key[k5][1] is not None:
                    acc5 |= by_key[k5][1]
            need5 = (classes.INDEP11 | classes.SIGNS10 | classes.CONSONANTS) - acc5
            if need5:
                r5.violation("covers", "the mobility test (%s) accepts none of %s: a text ending in a conjunct followed by one of them is declared immovable and the "
                             "reph is appended at the end instead of being placed in front of the final conjunct"
                             % (", ".join(sorted(by_key[k][0] for k in out_loop)), " ".join("U+%04X" % ord(c) for c in sorted(need5))), common.fn_line(prog, sorted(out_loop)[0]))
            else:
                r5.ok("covers", "the mobility test's classes cover every consonant, independent vowel and vowel sign")
    r5.floor(3, "two classes used by the mobility test + coverage")
    if len(scan) == 1:
        mobility_rule(chk, prog, rb, buf, scan[0][0], reph_fn)
    else:
        chk.rule("C13.R7", "the mobility test as a decision table over the last three characters").undecidable("scan", "the scan loop was not identified")
    r6 = chk.rule("C13.R6", "the old-style reph option is a plain stored value", "with old-style reph on / off — 'the option' is the value the front end set")
    common.plain_options(r6, prog, ["get_fixed_old_reph"])
    r6.floor(1, "the option")
    r1.table("obligations", n_ob)
    # (today's tree has nine sites; increments shared by several arms and a tail taken with split_off are the same algorithm with fewer)
    r1.floor(3, "at least a counter increment, len − step, and the cut of the tail (truncate / split_off)")


def _loop_sum_form(ib, sub, buf):
    """n_bytes accumulated by a loop: `let mut n = 0; for c in buf.chars().rev().take(k) { n += c.len_utf8(); }`.
    Returns (ok, why, take local) or None when the subtrahend is not a loop accumulator at all."""
    # the MIR statement of the subtraction
    st = None
    for (i, j, s_) in ib.stmts():
        if s_["k"] == "assign" and s_["rv"]["k"] == "binop" and s_["rv"]["op"] in ("Sub", "SubWithOverflow"):
            l_ = strip_refs(ib.expr_operand(s_["rv"]["l"]))
            if l_.k == "call" and l_.a[0].endswith("String::len") and self_path(l_.a[1][0]) == (buf,):
                st = s_
    if st is None:
        return None
    acc = operand_local(ib, st["rv"]["r"])
    if acc is None:
        return None
    defs = ib.defs.get(acc, [])
    inits = [d for d in defs if d[2] == "assign" and d[3]["rv"]["k"] == "use" and d[3]["rv"]["op"].get("int") == 0]
    others = [d for d in defs if d not in inits]
    if len(inits) != 1 or not others:
        return None
    heads = ib.loops()
    loop = None
    for h, tails in heads.items():
        body = ib.loop_body(h, tails)
        if all(d[0] in body for d in others):
            loop = (h, body)
    if loop is None:
        return False, "the byte count is accumulated outside a loop", None
    h, body = loop
    t = ib.blocks[h]["term"]
    if not (t["k"] == "call" and callee_name(t).endswith("Iterator>::next") and "Take<std::iter::Rev<std::str::Chars" in t["args"][0]["place"]["ty"]):
        return False, "the accumulating loop is not over chars().rev().take(n)", None
    it = strip_refs(ib.expr_operand(t["args"][0]))
    names = []
    x = it
    while x.k == "call":
        names.append(x.a[0].split("::")[-1])
        x = strip_refs(x.a[1][0])
    if names[:4] != ["into_iter", "take", "rev", "chars"] and names[:3] != ["take", "rev", "chars"]:
        return False, "iterator chain is %s, expected chars().rev().take(n)" % "·".join(reversed(names)), None
    if not any(self_path(y) == (buf,) for y in it.walk()):
        return False, "the loop does not iterate the composition buffer", None
    take_local = None
    for (bb2, t2) in ib.calls():
        if callee_name(t2).endswith("Iterator::take") and "Rev<std::str::Chars" in t2["args"][0]["place"]["ty"] and ib.dominates(bb2, h):
            take_local = operand_local(ib, t2["args"][1])
    if take_local is None:
        return False, "take() count not found", None
    # every other definition is  acc = (acc + len_utf8(c)).0  once per iteration
    n_add = 0
    for (i, j, s_) in ib.stmts():
        if i in body and s_["k"] == "assign" and s_["rv"]["k"] == "binop" and s_["rv"]["op"] in ("Add", "AddWithOverflow"):
            l_, r_ = operand_local(ib, s_["rv"]["l"]), strip_refs(ib.expr_operand(s_["rv"]["r"]))
            if l_ == acc:
                n_add += 1
                if not (r_.k == "call" and r_.a[0].endswith("len_utf8")):
                    return False, "the loop adds %r, not len_utf8 of the character" % (r_,), None
    if n_add != 1:
        return False, "the loop adds to the byte count %d times per iteration" % n_add, None
    inner = [hh for hh in heads if hh != h and hh in body]
    if inner:
        return False, "nested loop inside the accumulating loop", None
    return True, "", take_local


def _join_literals(seq):
    """[(op, value)] of appends to the text → the same with adjacent literal appends (push of a char, push_str of a str) joined into one str."""
    out, cur = [], None
    for (op, v) in seq:
        if op in ("push", "push_str") and isinstance(v, str):
            cur = (cur or "") + v
            continue
        if cur is not None:
            out.append(cur)
            cur = None
        out.append((op, v))
    if cur is not None:
        out.append(cur)
    return out


def _is_len_minus(b, abb, buf):
    """The checked subtraction before assert block abb is `buffer.len() − x`."""
    for st in b.blocks[abb]["stmts"]:
        if st["k"] == "assign" and st["rv"]["k"] == "binop" and st["rv"]["op"] == "SubWithOverflow":
            l = strip_refs(b.expr_operand(st["rv"]["l"]))
            return l.k == "call" and l.a[0].endswith("String::len") and self_path(l.a[1][0]) == (buf,)
    return False


def loop_counter(b, abb):
    """D-loop-counter: x = x + 1 where x starts at constant 0 and the addition sits inside a loop driven by an in-memory iterator."""
    s = None
    for st in b.blocks[abb]["stmts"]:
        if st["k"] == "assign" and st["rv"]["k"] == "binop" and st["rv"]["op"] == "AddWithOverflow":
            s = st
    if s is None:
        return False, "no checked addition before the assert"
    if not (s["rv"]["r"]["k"] == "const" and s["rv"]["r"].get("int") == 1):
        return False, "increment is not the constant 1"
    cl = operand_local(b, s["rv"]["l"])
    inits = [d for d in b.defs.get(cl, []) if d[2] == "assign" and d[3]["rv"]["k"] == "use" and d[3]["rv"]["op"].get("int") == 0]
    others = [d for d in b.defs.get(cl, []) if d not in inits]
    if len(inits) != 1:
        return False, "counter is not initialised to the constant 0 exactly once"
    heads = b.loops()
    inloop = [h for h, tails in heads.items() if abb in b.loop_body(h, tails)]
    if not inloop:
        return False, "increment is not inside a loop"
    h = inloop[0]
    t = b.blocks[h]["term"]
    if not (t["k"] == "call" and callee_name(t).endswith("Iterator>::next") and any(x in t["args"][0]["place"]["ty"] for x in ("Chars", "slice::Iter", "Range<usize>"))):
        return False, "loop is not driven by an in-memory iterator"
    # all other defs are `counter = (counter + 1).0` inside the loop
    for d in others:
        if d[0] not in b.loop_body(h, heads[h]):
            return False, "counter is also assigned outside the loop"
    return True, "counter from 0, +1 inside a loop over an in-memory iterator (≤ its length < 2^63)"


def counted_sub(b, abb, buf):
    """D-counted-sub: len − step where len = chars().count() of the buffer and step is incremented at most once per
    iteration of a loop over chars() of the same buffer."""
    s = None
    for st in b.blocks[abb]["stmts"]:
        if st["k"] == "assign" and st["rv"]["k"] == "binop" and st["rv"]["op"] == "SubWithOverflow":
            s = st
    if s is None:
        return False, "no checked subtraction before the assert"
    ll, rl = operand_local(b, s["rv"]["l"]), operand_local(b, s["rv"]["r"])
    ld = b.defs.get(ll, [])
    if not (len(ld) == 1 and ld[0][2] == "call" and callee_name(ld[0][3]).endswith("::count")):
        return False, "minuend is not chars().count()"
    src = b.expr_operand(ld[0][3]["args"][0])
    if not any(self_path(x) == (buf,) for x in src.walk()):
        return False, "count is not taken over the composition buffer"
    # step: counter local incremented in a loop over chars() of the buffer
    heads = b.loops()
    incs = [d for d in b.defs.get(rl, []) if d[2] == "assign" and not (d[3]["rv"]["k"] == "use" and d[3]["rv"]["op"].get("int") == 0)]
    inits = [d for d in b.defs.get(rl, []) if d[2] == "assign" and d[3]["rv"]["k"] == "use" and d[3]["rv"]["op"].get("int") == 0]
    if len(inits) != 1 or not incs:
        return False, "subtrahend is not a counter initialised to 0"
    loop = None
    for h, tails in heads.items():
        body = b.loop_body(h, tails)
        if all(d[0] in body for d in incs):
            loop = (h, body)
    if not loop:
        return False, "counter increments are not all inside one loop"
    h, body = loop
    t = b.blocks[h]["term"]
    it_src = b.expr_operand(t["args"][0])
    it_ok = callee_name(t).endswith("Iterator>::next") and "Chars" in t["args"][0]["place"]["ty"]
    if not it_ok:
        return False, "loop is not over chars() of a string"
    # the iterator's source: find the chars() call feeding the iterator local
    feeds_buf = False
    for (bb2, t2) in b.calls():
        if callee_name(t2).endswith("str>::chars") and b.dominates(bb2, h) and bb2 not in body:
            if any(self_path(x) == (buf,) for x in b.expr_operand(t2["args"][0]).walk()):
                feeds_buf = True
    if not feeds_buf:
        return False, "loop does not iterate the composition buffer"
    # at most one increment per iteration: no path inside the body passes two increment blocks
    inc_blocks = sorted({d[0] for d in incs})
    for x in inc_blocks:
        for y in inc_blocks:
            if x != y and y in b.reachable_from(x, avoid=[h]):
                return False, "two increments on one iteration"
    # every increment block executes once per iteration trivially (no inner loop)
    inner = [hh for hh in heads if hh != h and hh in body]
    if inner:
        return False, "nested loop inside the counting loop"
    # no write to the buffer inside the loop or between count and here
    for (bb2, t2) in b.calls():
        if bb2 in body and t2["args"] and t2["args"][0]["k"] != "const" and t2["args"][0]["place"]["ty"].startswith("&mut") \
                and self_path(b.expr_operand(t2["args"][0])) is not None and self_path(b.expr_operand(t2["args"][0]))[:1] == (buf,):
            return False, "buffer modified inside the counting loop"
    return True, "step ≤ iterations ≤ chars().count() of the same, unmodified buffer"


def closure_sum(prog, b, abb):
    """acc + len_utf8(x) inside a fold closure: bounded by the byte length of an in-memory string."""
    for st in b.blocks[abb]["stmts"]:
        if st["k"] == "assign" and st["rv"]["k"] == "binop" and st["rv"]["op"] == "AddWithOverflow":
            r = b.expr_operand(st["rv"]["r"])
            l = b.expr_operand(st["rv"]["l"])
            if contains_call(r, lambda n: n.endswith("len_utf8")) or contains_call(l, lambda n: n.endswith("len_utf8")):
                return True, "sum of len_utf8 over characters of an in-memory string (≤ its byte length)"
    return False, "not the Σ len_utf8 idiom"


def suffix_bytes_idiom(prog, ib, buf):
    """truncate(buf, buf.len() − fold(take(rev(chars(buf)), n), 0, |a, c| a + c.len_utf8()))"""
    tr = [(bb, t) for (bb, t) in ib.calls() if callee_name(t).endswith("String::truncate") or callee_name(t).endswith("String::split_off")]
    if len(tr) != 1:
        return False, "expected one String::truncate / split_off", None
    bb, t = tr[0]
    if self_path(ib.expr_operand(t["args"][0])) != (buf,):
        return False, "truncate is not applied to the composition buffer", None
    new_len = strip_refs(ib.expr_operand(t["args"][1]))
    sub = None
    for x in new_len.walk():
        if x.k == "bin" and x.a[0] in ("Sub", "SubWithOverflow"):
            sub = x
    if sub is None:
        # the same cut found by position: `if let Some((at, _)) = buf.char_indices().rev().take(n).last() { buf.truncate(at) }` — the byte index
        # where the n-th character from the end begins (a character boundary of this very string; with fewer than n characters it is 0, with
        # none taken nothing is cut)
        nl = new_len
        while nl.k in ("ref", "deref"):
            nl = nl.a[0]
        if nl.k == "field" and str(nl.a[1]) in ("0",) or (nl.k == "field" and nl.a[1] == 0):
            src = strip_refs(nl.a[0])
            if src.k == "field" and str(src.a[1]) == "0":
                src = strip_refs(src.a[0])
            if src.k == "downcast":
                src = strip_refs(src.a[0])
            if src.k == "call" and src.a[0].endswith("Iterator>::last") or (src.k == "call" and src.a[0].endswith("Iterator::last")):
                names = []
                x = strip_refs(src.a[1][0])
                itx = x
                while x.k == "call":
                    names.append(x.a[0].split("::")[-1])
                    x = strip_refs(x.a[1][0])
                if names[:3] == ["take", "rev", "char_indices"] and any(self_path(y) == (buf,) for y in itx.walk()):
                    take_local = None
                    for (bb2, t2) in ib.calls():
                        if callee_name(t2).endswith("Iterator::take") and "Rev<std::str::CharIndices" in t2["args"][0]["place"]["ty"]:
                            take_local = operand_local(ib, t2["args"][1])
                    if take_local is not None:
                        return True, "", take_local
        return False, "new length is not `len − n_bytes`", None
    l, r = strip_refs(sub.a[1]), strip_refs(sub.a[2])
    if not (l.k == "call" and l.a[0].endswith("String::len") and self_path(l.a[1][0]) == (buf,)):
        return False, "minuend is not buffer.len()", None
    loop_form = _loop_sum_form(ib, sub, buf) if r.k != "call" else None
    if loop_form is not None:
        ok_l, why_l, tl_ = loop_form
        return (True, "", tl_) if ok_l else (False, why_l, None)
    is_fold = r.k == "call" and r.a[0].endswith("::fold")
    is_sum = r.k == "call" and r.a[0].endswith("Iterator::sum") and strip_refs(r.a[1][0]).k == "call" and strip_refs(r.a[1][0]).a[0].endswith("Iterator::map")
    if not (is_fold or is_sum):
        return False, "subtrahend is %s, not a fold / sum over the removed characters' len_utf8" % (r.a[0] if r.k == "call" else r.k), None
    mp = strip_refs(r.a[1][0]) if is_sum else None
    it = strip_refs(mp.a[1][0]) if is_sum else strip_refs(r.a[1][0])
    names = []
    x = it
    while x.k == "call":
        names.append(x.a[0].split("::")[-1])
        x = strip_refs(x.a[1][0])
    if names[:3] != ["take", "rev", "chars"]:
        return False, "iterator chain is %s, expected chars().rev().take(n)" % "·".join(reversed(names)), None
    if not any(self_path(y) == (buf,) for y in it.walk()):
        return False, "the fold does not iterate the composition buffer", None
    # how many characters are taken: the MIR local behind take()'s argument (compared with the scan's step by the caller)
    take_local = None
    for (bb2, t2) in ib.calls():
        if callee_name(t2).endswith("Iterator::take") and "Rev<std::str::Chars" in t2["args"][0]["place"]["ty"]:
            take_local = operand_local(ib, t2["args"][1])
    if take_local is None:
        return False, "take() count not found", None
    if is_sum:
        # Σ over map(f) with f = char::len_utf8 (by name, or a closure returning exactly len_utf8 of its argument)
        f = strip_refs(mp.a[1][1])
        if f.k == "const" and isinstance(f.a[0], tuple) and f.a[0][0] == "fn" and f.a[0][1].endswith("len_utf8"):
            return True, "", take_local
        if f.k == "agg" and str(f.a[0]).startswith("closure:"):
            cb = prog.body(f.a[0][8:])
            ret = strip_refs(peel_conv(cb.expr_local(0)))
            if ret.k == "call" and ret.a[0].endswith("len_utf8") and strip_refs(ret.a[1][0]).k == "arg" and not [y for y in ret.walk() if y.k == "bin"]:
                return True, "", take_local
        return False, "the summed map function is not char::len_utf8", None
    init = strip_refs(r.a[1][1])
    if not is_const(init, "int", 0):
        return False, "fold does not start at 0", None
    clo = strip_refs(r.a[1][2])
    if not (clo.k == "agg" and clo.a[0].startswith("closure:")):
        return False, "fold function is not a local closure", None
    cb = prog.body(clo.a[0][8:])
    ret = strip_refs(cb.expr_local(0))
    adds = [y for y in ret.walk() if y.k == "bin" and y.a[0] in ("Add", "AddWithOverflow")]
    if len(adds) != 1 or contains_call(ret, lambda n: n.endswith("len_utf8")) is None:
        return False, "fold closure is %r, expected acc + c.len_utf8()" % (ret,), None
    a_ = adds[0]
    ops = [strip_refs(a_.a[1]), strip_refs(a_.a[2])]
    if not any(o.k == "arg" and o.a[0] == 2 for o in ops):
        return False, "fold closure does not add to the accumulator", None
    other = [y for y in ret.walk() if y.k == "bin" and y.a[0] not in ("Add", "AddWithOverflow")]
    if other:
        return False, "fold closure does more than acc + len_utf8", None
    return True, "", take_local


# ---------------------------------------------------------------------------------------------------------------------------
# C13.R7 — the mobility test as a decision table over the last three characters

_CLS = ("C", "VI", "VS", "H", "O", "N")     # consonant, independent vowel, vowel sign, chandrabindu, anything else, no character


def mobility_paths(prog, rb, buf, head, cls_keys, limit=4000):
    """Every path of the reph routine from its entry to the scan loop's head (the reph is moved) or to a return that avoids the loop (it is
    appended), with what the path tests about the k-th character from the end of the text.  Successive `next()` reads of one reversed
    iterator over the text are numbered along the path.  Returns [(atoms, moved?)]; raises _Undecided(where, why)."""
    from engine.analyses import known_switch_value, bool_switch_polarity
    from engine.mir import mk_call
    out = []

    def pos_of(e):
        """k when e is the k-th character from the end as an Option<char>."""
        e = strip_refs(e)
        if e.k == "index" and strip_refs(e.a[0]).k == "agg" and strip_refs(e.a[0]).a[0] == "array" and is_const(strip_refs(e.a[1]), "int"):
            e = strip_refs(strip_refs(e.a[0]).a[1][const_val(strip_refs(e.a[1]))])
        if e.k == "call" and e.a[0] == "@from_end":
            return const_val(e.a[1][0])
        return None

    def char_at(e):
        """k when e is the k-th character from the end as a char (NUL when there is none: unwrap_or_default; or the payload of Some)."""
        e = strip_refs(peel_conv(e))
        if e.k == "call" and e.a[0].endswith(("unwrap_or_default", "unwrap_or")) and e.a[1]:
            if e.a[0].endswith("unwrap_or") and not (len(e.a[1]) == 2 and is_const(strip_refs(e.a[1][1]), "char") and const_val(strip_refs(e.a[1][1])) == "\x00"):
                return None
            return pos_of(e.a[1][0])
        if e.k == "field" and str(e.a[1]) == "0" and strip_refs(e.a[0]).k == "downcast":
            return pos_of(strip_refs(e.a[0]).a[0])
        return None

    def cursor(blk, t, name, args, st, peek_only=False):
        if not args or t["args"][0]["k"] == "const" or not (name.endswith("Iterator>::next") and len(args) == 1 or peek_only):
            return None
        it = strip_refs(args[0])
        if it.k == "call" and it.a[0].endswith("Iterator::peekable") and len(it.a[1]) == 1:
            it = strip_refs(it.a[1][0])         # a peekable reader reads the same characters in the same order
        skipped = 0
        if it.k == "call" and it.a[0].endswith("Iterator::skip") and len(it.a[1]) == 2 and is_const(strip_refs(it.a[1][1]), "int"):
            skipped = const_val(strip_refs(it.a[1][1]))
            it = strip_refs(it.a[1][0])
        if not (it.k == "call" and it.a[0].endswith(("Iterator::rev", "Iterator>::rev")) and len(it.a[1]) == 1):
            return None
        chars = strip_refs(it.a[1][0])
        if not (chars.k == "call" and chars.a[0].endswith("::chars") and len(chars.a[1]) == 1):
            return None

        def is_buf(x):
            x = strip_refs(peel_conv(x))
            while x.k == "call" and x.a[0].endswith(("::deref", "String::as_str", "::as_ref", "::borrow")) and len(x.a[1]) == 1:
                x = strip_refs(peel_conv(x.a[1][0]))
            return self_path(x) == (buf,)
        src = strip_refs(peel_conv(chars.a[1][0]))
        cut = None          # a mark taken off the end before reading: `text.strip_suffix(c).unwrap_or(text)`
        if not is_buf(src):
            if src.k == "call" and src.a[0].endswith("unwrap_or") and len(src.a[1]) == 2 and is_buf(src.a[1][1]):
                ss = strip_refs(peel_conv(src.a[1][0]))
                if ss.k == "call" and ss.a[0].endswith("::strip_suffix") and len(ss.a[1]) == 2 and is_buf(ss.a[1][0]) and is_const(strip_refs(ss.a[1][1]), "char"):
                    cut = const_val(strip_refs(ss.a[1][1]))
            if cut is None:
                return None         # not the text itself: positions from the end of something else
        tmp = t["args"][0]["place"]
        owner = [s["rv"]["place"] for s in blk["stmts"] if s["k"] == "assign" and s["place"]["l"] == tmp["l"] and not s["place"]["p"] and s["rv"]["k"] == "ref"]
        if tmp["p"] or len(owner) != 1 or owner[0]["p"]:
            return None
        seen = dict(st)
        if cut is not None:
            if ("cut", owner[0]["l"]) not in seen:
                return ("fork", owner[0]["l"], cut)
            skipped += seen[("cut", owner[0]["l"])]
        k = seen.get(owner[0]["l"], 0)
        if peek_only:
            return (owner[0]["l"], skipped + k + 1)
        seen[owner[0]["l"]] = k + 1
        st.clear()
        st.update(seen)
        return E("call", "@from_end", (E("const", ("int", skipped + k + 1)),), t=t)

    def rec(bb, env, st, atoms, onpath):
        if len(out) > limit:
            raise _Undecided(bb, "too many paths in the mobility test")
        if bb == head:
            out.append((atoms, True))
            return
        if bb in onpath:
            raise _Undecided(bb, "a loop before the scan")
        env, st = dict(env), dict(st)
        blk = rb.blocks[bb]
        for s in blk["stmts"]:
            if s["k"] == "assign":
                if not s["place"]["p"]:
                    env[s["place"]["l"]] = rb.expr_rvalue(s["rv"], 0, s, env)
                elif s["place"]["p"][0] != "*":
                    env[s["place"]["l"]] = E("local", s["place"]["l"])
        t = blk["term"]
        if t["k"] == "return":
            out.append((atoms, False))
            return
        if t["k"] == "call":
            name = callee_name(t)
            args = tuple(rb.expr_operand(a, 0, env) for a in t["args"])
            if name.endswith("::next_if_eq") and "Peekable" in name and len(args) == 2 and not t["dest"]["p"] and t.get("target") is not None:
                # `it.next_if_eq(&c)`: the next character is consumed iff it is c — the path forks on that test
                pk = cursor(blk, t, name, args, st, peek_only=True)
                cv = strip_refs(args[1])
                if pk is not None and is_const(cv, "char"):
                    owner_l, k_ = pk
                    st_yes = dict(st)
                    st_yes[owner_l] = st_yes.get(owner_l, 0) + 1
                    env_yes, env_no = dict(env), dict(env)
                    env_yes[t["dest"]["l"]] = E("call", "@from_end", (E("const", ("int", k_)),), t=t)
                    env_no[t["dest"]["l"]] = E("agg", "adt:std::option::Option::None", (), t={"k": "aggregate", "agg": "adt", "adt": "std::option::Option",
                                                                                                "variant": "None", "vidx": 0, "fields": [], "ops": []})
                    rec(t["target"], env_yes, st_yes, atoms + [("eq", k_, const_val(cv), True)], onpath | {bb})
                    rec(t["target"], env_no, st, atoms + [("eq", k_, const_val(cv), False)], onpath | {bb})
                    return
            if not t["dest"]["p"]:
                cr = cursor(blk, t, name, args, st)
                if isinstance(cr, tuple) and cr and cr[0] == "fork":
                    # the first read of a text whose last character was taken off if it is c: two cases, each with its own numbering
                    for took in (True, False):
                        st2 = dict(st)
                        st2[("cut", cr[1])] = 1 if took else 0
                        env2 = dict(env)
                        env2[t["dest"]["l"]] = cursor(blk, t, name, args, st2)
                        if t.get("target") is not None:
                            rec(t["target"], env2, st2, atoms + [("eq", 1, cr[2], took)], onpath | {bb})
                    return
                env[t["dest"]["l"]] = cr or mk_call(name, args, bb, t)
            if t.get("target") is not None:
                rec(t["target"], env, st, atoms, onpath | {bb})
            return
        if t["k"] in ("goto", "drop", "assert"):
            if t.get("target") is not None:
                rec(t["target"], env, st, atoms, onpath | {bb})
            return
        if t["k"] != "switch":
            return
        d = strip_refs(rb.expr_operand(t["discr"], 0, env))
        neg = False
        while d.k == "un" and d.a[0] == "Not":
            d = strip_refs(d.a[1])
            neg = not neg
        kv = known_switch_value(d if not neg else E("un", "Not", d))
        allv = tuple(v for v, _ in t["targets"])
        pols = bool_switch_polarity(rb, bb) if t["discr_ty"] == "bool" else {}
        for (node, vals, tgt) in rb.switch_edges(bb):
            if rb.blocks[tgt]["term"]["k"] == "unreachable":
                continue
            if kv is not None:
                if (kv in vals) if vals != "otherwise" else (kv not in allv):
                    rec(tgt, env, st, atoms, onpath | {bb})
                continue
            atom = None
            if t["discr_ty"] == "bool":
                pol = pols.get(node)
                if pol is None:
                    raise _Undecided(bb, "a bool switch with an unusual shape")
                if neg:
                    pol = not pol
                if d.k == "call" and d.a[0] in cls_keys and len(d.a[1]) == 1 and char_at(d.a[1][0]) is not None:
                    atom = ("cls", char_at(d.a[1][0]), cls_keys[d.a[0]], pol)
                elif d.k == "bin" and d.a[0] in ("Eq", "Ne"):
                    l_, r_ = strip_refs(d.a[1]), strip_refs(d.a[2])
                    for a_, b_ in ((l_, r_), (r_, l_)):
                        if char_at(a_) is not None and is_const(b_, "char"):
                            atom = ("eq", char_at(a_), const_val(b_), pol == (d.a[0] == "Eq"))
                elif d.k == "call" and d.a[0].endswith(("Option::<T>::is_some", "Option::<T>::is_none")) and pos_of(d.a[1][0]) is not None:
                    atom = ("some", pos_of(d.a[1][0]), None, pol == d.a[0].endswith("is_some"))
            elif d.k == "discr" and pos_of(d.a[0]) is not None:
                some = (1 in vals) if vals != "otherwise" else (1 not in allv)
                atom = ("some", pos_of(d.a[0]), None, some)
            elif t["discr_ty"] == "char" and char_at(d) is not None:
                if vals == "otherwise":
                    atom = ("in", char_at(d), tuple(chr(v) for v in allv), False)
                else:
                    atom = ("in", char_at(d), tuple(chr(v) for v in vals), True)
            if atom is None:
                raise _Undecided(bb, "the mobility test branches on %s, which is not a test of one of the last characters of the text" % (repr(d)[:160],))
            rec(tgt, env, st, atoms + [atom], onpath | {bb})

    rec(0, {}, {}, [], frozenset())
    return out


class _Undecided(Exception):
    def __init__(self, bb, why):
        Exception.__init__(self, why)
        self.bb, self.why = bb, why


def _atom_holds(atom, tail, sets):
    """tail: classes of the last three characters (index 0 = last).  None when the atom cannot be decided on classes alone."""
    kind, k, x, want = atom
    c = tail[k - 1] if 1 <= k <= len(tail) else "N"
    if kind == "some":
        return (c != "N") == want
    if kind == "cls":
        members = {"is_pure_consonant": {"C"}, "is_vowel": {"VI", "VS"}, "is_kar": {"VS"}}.get(x)
        if members is None:
            return None
        return (c in members) == want
    chars = (x,) if kind == "eq" else x
    hit = False
    for ch in chars:
        if ch == "ঁ":
            hit = hit or c == "H"
        elif ch == "\x00":
            hit = hit or c == "N"
        elif ch in sets["C"] or ch in sets["VI"] or ch in sets["VS"]:
            return None          # a single letter singled out: the table over classes cannot tell
        else:
            if c == "O":
                return None      # one particular other character: classes cannot tell
    return hit == want


def mobility_rule(chk, prog, rb, buf, head, reph_fn):
    from . import classes
    r7 = chk.rule("C13.R7", "the mobility test as a decision table over the last three characters",
                  "immediately before the final conjunct when p ends in that conjunct optionally followed by one vowel (sign) and an optional chandrabindu, "
                  "and the end of p otherwise")
    fns = classes.class_fns(prog)
    cls_keys = {k: n for n, k in fns.items()}
    try:
        paths = mobility_paths(prog, rb, buf, head, cls_keys)
    except _Undecided as e:
        r7.undecidable("paths", e.why, site_of(rb, e.bb))
        r7.floor(1, "the table")
        return
    sets = {"C": classes.CONSONANTS, "VI": classes.INDEP11, "VS": classes.SIGNS10}
    import itertools
    bad, n_rows, undec = None, 0, None
    for tail in itertools.product(_CLS, repeat=3):
        if any(tail[i] == "N" and tail[i + 1] != "N" for i in range(2)):
            continue
        # orthographically well-formed endings only: a chandrabindu sits on a consonant or a vowel (sign), a sign on a consonant, one chandrabindu
        i = 0
        ok = True
        if tail[0] == "H":
            i = 1
            ok = tail[1] in ("C", "VI", "VS")
        if ok and tail[i] == "VS":
            ok = i + 1 < 3 and tail[i + 1] == "C"
        if not ok or "H" in tail[i:]:
            continue
        want = tail[i] == "C" or (tail[i] in ("VI", "VS") and i + 1 < 3 and tail[i + 1] == "C")
        got = set()
        for atoms, moved in paths:
            verdicts = [_atom_holds(a, tail, sets) for a in atoms]
            if any(v is False for v in verdicts):
                continue
            if any(v is None for v in verdicts):
                undec = (tail, [a for a, v in zip(atoms, verdicts) if v is None][0])
                continue
            got.add(moved)
        if len(got) != 1:
            if undec is None:
                undec = (tail, "no single outcome: %s" % sorted(got))
            continue
        n_rows += 1
        if got != {want} and bad is None:
            bad = (tail, want)
    names = {"C": "consonant", "VI": "independent vowel", "VS": "vowel sign", "H": "chandrabindu", "O": "another character", "N": "nothing"}
    if bad is not None:
        tail, want = bad
        r7.violation("table", "for a text ending (read from the end) in %s the reph is %s; the statement %s"
                     % (" ‹ ".join(names[c] for c in tail if c != "N") or "nothing (empty text)", "appended at the end" if want else "moved in front of the final conjunct",
                        "places it in front of the final conjunct" if want else "appends it at the end"), common.fn_line(prog, reph_fn))
    elif undec is not None:
        r7.undecidable("table", "the mobility test cannot be tabulated over character classes (ending %s: %s)" % (undec[0], undec[1]), common.fn_line(prog, reph_fn))
    else:
        r7.ok("table", "%d well-formed endings over {consonant, independent vowel, vowel sign, chandrabindu, other, none}³ agree with the statement (%d paths)"
              % (n_rows, len(paths)))
    r7.floor(1, "the table")
