"""C19 — the C interface hands out valid, independently owned, leak-free objects.

Decided statically: header ⇔ the 33 exported signatures and constants; into_raw / from_raw pairing per
handle type with the null guard; every wrapper calls exactly its paired Rust method with its own
parameters in order (one frozen pairing table keyed by the public C symbols); returned strings are
fresh owned CStrings of the paired accessor's value; string free returns before from_raw only on null;
Suggestion owns its data; the unsafe census; NUL-freedom of riti's own alphabet.
Not decided: absence of leaks / invalid accesses over all call sequences (needs a memory-error
detector — another family) and aliasing of the one `&mut *ptr` against outstanding borrows."""
from engine.mir import E, apath, strip_refs, is_const, const_val, callee_name, self_path
from engine.analyses import (peel_conv, guards_of, contains_call, direct_writes)
from engine.report import site_of
from engine import tables
from . import common, builders

# public C symbol → (Rust owner type, method, how many of the wrapper's non-handle parameters are forwarded)
PAIR = {
    "riti_context_new_with_config": ("context::RitiContext", "new_with_config", "ctor"),
    "riti_get_suggestion_for_key": ("context::RitiContext", "get_suggestion_for_key", "boxed"),
    "riti_context_candidate_committed": ("context::RitiContext", "candidate_committed", "plain"),
    "riti_context_update_engine": ("context::RitiContext", "update_engine", "plain"),
    "riti_context_ongoing_input_session": ("context::RitiContext", "ongoing_input_session", "plain"),
    "riti_context_finish_input_session": ("context::RitiContext", "finish_input_session", "plain"),
    "riti_context_backspace_event": ("context::RitiContext", "backspace_event", "boxed"),
    "riti_suggestion_get_suggestion": ("suggestion::Suggestion", "get_suggestions", "string-indexed"),
    "riti_suggestion_get_lonely_suggestion": ("suggestion::Suggestion", "get_lonely_suggestion", "string"),
    "riti_suggestion_get_auxiliary_text": ("suggestion::Suggestion", "get_auxiliary_text", "string"),
    "riti_suggestion_get_pre_edit_text": ("suggestion::Suggestion", "get_pre_edit_text", "string"),
    "riti_suggestion_previously_selected_index": ("suggestion::Suggestion", "previously_selected_index", "plain"),
    "riti_suggestion_get_length": ("suggestion::Suggestion", "len", "plain"),
    "riti_suggestion_is_lonely": ("suggestion::Suggestion", "is_lonely", "plain"),
    "riti_suggestion_is_empty": ("suggestion::Suggestion", "is_empty", "plain"),
    "riti_config_set_layout_file": ("config::Config", "set_layout_file_path", "cstr"),
    "riti_config_set_database_dir": ("config::Config", "set_database_dir", "cstr"),
    "riti_config_set_suggestion_include_english": ("config::Config", "set_suggestion_include_english", "plain"),
    "riti_config_set_phonetic_suggestion": ("config::Config", "set_phonetic_suggestion", "plain"),
    "riti_config_set_fixed_suggestion": ("config::Config", "set_fixed_suggestion", "plain"),
    "riti_config_set_fixed_auto_vowel": ("config::Config", "set_fixed_automatic_vowel", "plain"),
    "riti_config_set_fixed_auto_chandra": ("config::Config", "set_fixed_automatic_chandra", "plain"),
    "riti_config_set_fixed_traditional_kar": ("config::Config", "set_fixed_traditional_kar", "plain"),
    "riti_config_set_fixed_old_reph": ("config::Config", "set_fixed_old_reph", "plain"),
    "riti_config_set_fixed_numpad": ("config::Config", "set_fixed_numpad", "plain"),
    "riti_config_set_fixed_old_kar_order": ("config::Config", "set_fixed_old_kar_order", "plain"),
    "riti_config_set_ansi_encoding": ("config::Config", "set_ansi_encoding", "plain"),
    "riti_config_set_smart_quote": ("config::Config", "set_smart_quote", "plain"),
}
FREE = {"riti_context_free": "context::RitiContext", "riti_suggestion_free": "suggestion::Suggestion", "riti_config_free": "config::Config"}
OTHER = {"riti_config_new": "config::Config", "riti_string_free": None}
ALLOWED_UNSAFE = ("std::boxed::Box::<T>::from_raw", "std::ffi::CString::from_raw", "std::ffi::CString::from_vec_unchecked", "std::ffi::CStr::from_ptr")


def run(ctx):
    prog, chk = ctx.prog, ctx.check
    chk.explanation = (
        "Signature agreement between the 33 `#[no_mangle] extern C` items and riti.h's prototypes and constants; an ownership/escape rule on "
        "the wrappers' MIR (what is returned, what reaches from_raw, under which guard, what a raw pointer parameter is used for); a pairing table "
        "keyed by the public C symbols against which each wrapper's resolved callees and argument order are checked; setter/getter field "
        "agreement in Config; a census of unsafe operations; table checks for NUL-freedom.")
    chk.not_decided = ["absence of leaks and invalid memory accesses over all call sequences (needs a memory-error detector: a different technique family)",
                       "aliasing of the `&mut *ptr` formed in update-engine against borrows still held by the caller"]
    defines, protos = common.header(ctx)
    exported = prog.exported()
    by_sym = {prog.fns[k]["name"]: k for k in exported}

    # ---------------- R1
    r1 = chk.rule("C19.R1", "header ⇔ exported signatures and constants",
                  "a C caller compiled against riti.h passes exactly what the implementation expects")
    for sym in sorted(set(by_sym) | set(protos)):
        if sym not in by_sym:
            r1.violation("sig:%s" % sym, "riti.h declares %s but the library exports no such symbol" % sym, None)
            continue
        f = prog.fns[by_sym[sym]]
        if sym not in protos:
            r1.violation("sig:%s" % sym, "the library exports %s but riti.h does not declare it" % sym, common.fn_line(prog, by_sym[sym]))
            continue
        ret, params = protos[sym]
        want_ret = tables.rust_to_c(f["output"])
        want_params = [tables.rust_to_c(t) for t in f["inputs"]]
        got_params = [p[0] for p in params]
        if ret != want_ret or got_params != want_params:
            r1.violation("sig:%s" % sym, "riti.h: %s(%s) -> %s; implementation: (%s) -> %s" % (sym, ", ".join(got_params), ret, ", ".join(want_params), want_ret),
                         common.fn_line(prog, by_sym[sym]))
        else:
            r1.ok("sig:%s" % sym, "%s(%s)" % (ret, ", ".join(got_params)))
    consts = {c["name"]: c["val"].get("int") for c in prog.consts if "int" in c["val"]}
    n_c = 0
    for name, v in sorted(defines.items()):
        if name == "RITI_H":
            continue
        n_c += 1
        if consts.get(name) != v:
            r1.violation("const:%s" % name, "riti.h: %s = %s, Rust: %s" % (name, v, consts.get(name)), None)
    for name, v in consts.items():
        if (name.startswith("VC_") or name.startswith("MODIFIER_")) and name not in defines:
            r1.violation("const:%s" % name, "constant %s is not published in riti.h" % name, None)
    if not any(i["key"].startswith("const:") for i in r1.instances):
        r1.ok("consts", "%d #define values agree with the Rust constants" % n_c)
    r1.floor(34, "33 signatures + constants")

    # ---------------- R2 handles
    r2 = chk.rule("C19.R2", "handle pairing: fresh boxes out, exactly one from_raw per type under a null check, nothing derived from a handle escapes",
                  "every pointer returned is valid until its matching free and unaffected by later calls; a full life cycle frees everything once")
    from . import roles as _roles

    def wbody(k):
        # the wrapper with the C shim's private helpers (free helper, string hand-over helper) spliced in
        return _roles.ib(prog, k)
    for sym, ty in FREE.items():
        if sym not in by_sym:
            r2.violation("free:%s" % sym, "exported free function %s missing" % sym, None)
            continue
        k = by_sym[sym]
        b = wbody(k)
        fr = [(bb, t) for (bb, t) in b.calls() if callee_name(t).endswith("Box::<T>::from_raw")]
        if prog.fns[k]["inputs"] != ["*mut " + ty]:
            r2.violation("free:%s" % sym, "%s takes %s, expected one *mut %s" % (sym, prog.fns[k]["inputs"], ty), common.fn_line(prog, k))
        elif len(fr) != 1:
            r2.violation("free:%s" % sym, "%s reaches Box::from_raw %d times (expected once)" % (sym, len(fr)), common.fn_line(prog, k))
        else:
            bb, t = fr[0]
            a_ = _norm_ptr(b.expr_operand(t["args"][0]))
            if not (a_.k == "arg" and a_.a[0] == 1):
                r2.violation("free:%s" % sym, "%s applies Box::from_raw to %r, not to exactly its parameter" % (sym, a_), site_of(b, bb))
            elif not _null_guarded(b, bb, 1):
                r2.violation("free:%s" % sym, "%s applies Box::from_raw to its parameter without a null check" % sym, site_of(b, bb))
            else:
                extra = [(d, pol) for (d, pol, s_) in guards_of(b, bb) if not _is_null_test(d) and not _is_ub_check(d)]
                if extra:
                    r2.violation("free:%s" % sym, "%s frees its handle only under %s" % (sym, extra[0]), site_of(b, bb))
                else:
                    r2.ok("free:%s" % sym, "%s(ptr): drop(Box::<%s>::from_raw(ptr)) iff ptr is non-null" % (sym, ty.split("::")[-1]))
    # who else reaches from_raw
    for sym, k in by_sym.items():
        if sym in FREE or sym == "riti_string_free":
            continue
        rch = prog.reach([k], foreign_trait_impls=False)
        bad = [x for x in rch if any(callee_name(t).endswith("::from_raw") or callee_name(t).endswith("drop_in_place") or callee_name(t).endswith("ptr::read")
                                     for (bb, t) in prog.body(x).calls())]
        if bad:
            r2.violation("no-free:%s" % sym, "%s can reach from_raw / drop_in_place / ptr::read (in %s): the handle would be freed or duplicated outside its free function" % (sym, bad[0]),
                         common.fn_line(prog, k))
    # constructors return fresh boxes; nothing derived from a handle escapes
    for sym, k in sorted(by_sym.items()):
        f = prog.fns[k]
        b = wbody(k)
        out = f["output"]
        if out.startswith("*mut ") and not out.endswith("i8") and "c_char" not in out:
            ret = strip_refs(b.expr_local(0))
            fresh = ret.k == "call" and ret.a[0].endswith("Box::<T>::into_raw") and (
                (strip_refs(ret.a[1][0]).k == "call" and (strip_refs(ret.a[1][0]).a[0].endswith("Box::<T>::new") or "Default" in strip_refs(ret.a[1][0]).a[0])))
            if fresh:
                r2.ok("fresh:%s" % sym, "returns Box::into_raw(fresh box)")
            else:
                r2.violation("fresh:%s" % sym, "%s returns %r, not a freshly boxed value" % (sym, ret), common.fn_line(prog, k))
        # uses of raw pointer parameters
        for pi, ty in enumerate(f["inputs"], start=1):
            if not (ty.startswith("*mut ") or ty.startswith("*const ")):
                continue
            for (bb, t) in b.calls():
                for ai, a in enumerate(t["args"]):
                    if a["k"] == "const":
                        continue
                    e = b.expr_operand(a)
                    while e.k == "cast":
                        e = e.a[1]
                    if e.k == "arg" and e.a[0] == pi:          # the raw pointer value itself (not a reference formed from it)
                        n = callee_name(t)
                        if not (n.endswith("is_null") or n.endswith("CStr::from_ptr") or n.endswith("CString::from_raw")
                                or n.endswith("Box::<T>::from_raw") or n.endswith("NonNull::<T>::new")):
                            r2.violation("escape:%s" % sym, "%s passes its raw handle to %s" % (sym, n), site_of(b, bb))
            # dereference must be dominated by the null assert
            for (i, j, s) in b.stmts():
                if s["k"] == "assign" and s["rv"]["k"] == "ref" and s["rv"]["place"]["p"] == ["*"]:
                    base = _norm_ptr(b.expr_local(s["rv"]["place"]["l"]) if s["rv"]["place"]["l"] != pi else E("arg", pi))
                    while base.k == "cast":
                        base = strip_refs(base.a[1])
                    if not (base.k == "arg" and base.a[0] == pi):
                        continue
                    ok_null = _null_guarded(b, i, pi)
                    if ok_null:
                        r2.ok("deref:%s:%d" % (sym, pi), "&*ptr after the null assert")
                    else:
                        r2.violation("deref:%s:%d" % (sym, pi), "%s dereferences parameter %d without a dominating null assert" % (sym, pi), site_of(b, i))
    r2.floor(8, "3 frees, 3 constructors, derefs")

    # ---------------- R3 pairing / strings
    r3 = chk.rule("C19.R3", "each wrapper calls exactly its paired Rust method with its own parameters in order; strings are fresh owned copies of that value",
                  "every returned string equals the value the Rust API reports; freeing a null string is a no-op")
    for sym, (owner, meth, kind) in sorted(PAIR.items()):
        if sym not in by_sym:
            r3.violation("pair:%s" % sym, "exported function %s missing" % sym, None)
            continue
        k = by_sym[sym]
        f = prog.fns[k]
        b = wbody(k)
        local_calls = [(bb, t) for (bb, t) in b.calls() if callee_name(t) in prog.fns]
        want = [x for x in prog.fns if prog.fns[x].get("name") == meth and (prog.fns[x].get("impl") or {}).get("self") == owner and not (prog.fns[x].get("impl") or {}).get("trait")]
        if len(want) != 1:
            r3.undecidable("pair:%s" % sym, "paired method %s::%s not found uniquely" % (owner, meth))
            continue
        names = [callee_name(t) for (bb, t) in local_calls]
        if names != [want[0]]:
            r3.violation("pair:%s" % sym, "%s calls %s; it must call exactly %s::%s" % (sym, [n.split("::")[-1] for n in names] or "nothing", owner.split("::")[-1], meth),
                         common.fn_line(prog, k))
            continue
        bb, t = local_calls[0]
        args = [peel_conv(a) for a in b.call_args(t)]
        # receiver / first argument derives from parameter 1 (the handle)
        recv_ok = any(x.k == "arg" and x.a[0] == 1 for x in args[0].walk())
        rest = args[1:]
        own = list(range(2, len(f["inputs"]) + 1))
        if kind == "string-indexed":
            forwarded = []          # the index is applied to the returned slice
        elif kind == "cstr":
            forwarded = []
            cs = contains_call(args[1], lambda n: n.endswith("CStr::from_ptr")) if len(args) > 1 else None
            recv_ok = recv_ok and cs is not None and strip_refs(cs.a[1][0]).k == "arg" and strip_refs(cs.a[1][0]).a[0] == 2
        else:
            forwarded = [x.a[0] if x.k == "arg" else (strip_refs(x).a[0] if strip_refs(x).k == "arg" else repr(x)) for x in rest]
            # pointer params forwarded as references
            forwarded = []
            for x in rest:
                roots = [y.a[0] for y in x.walk() if y.k == "arg"]
                forwarded.append(roots[0] if len(roots) == 1 else repr(x))
        if not recv_ok:
            r3.violation("pair:%s" % sym, "%s does not apply %s to its own handle / path parameter" % (sym, meth), site_of(b, bb))
            continue
        if kind not in ("string-indexed", "cstr") and forwarded != own:
            r3.violation("pair:%s" % sym, "%s forwards parameters %s to %s, expected its own parameters %s in order" % (sym, forwarded, meth, own), site_of(b, bb))
            continue
        ret = strip_refs(b.expr_local(0))
        if kind in ("string", "string-indexed"):
            shape = ret.k == "call" and ret.a[0].endswith("CString::into_raw") and strip_refs(ret.a[1][0]).k == "call" \
                and strip_refs(ret.a[1][0]).a[0].endswith("CString::from_vec_unchecked")
            if not shape:
                r3.violation("pair:%s" % sym, "%s returns %r, not CString::from_vec_unchecked(owned bytes).into_raw()" % (sym, ret), common.fn_line(prog, k))
                continue
            v = strip_refs(ret.a[1][0]).a[1][0]
            owned = contains_call(v, lambda n: any(n.endswith(s_) for s_ in ("::clone", "::into", "::into_bytes", "::to_owned", "::to_string", "::to_vec", "::from", "::into_owned", "::into_vec"))) is not None \
                or prog.fns[want[0]].get("output") in ("std::string::String", "std::vec::Vec<u8>")
            src = contains_call(v, lambda n: n == want[0])
            idx_ok = True
            if kind == "string-indexed":
                idx_ok = any(x.k == "index" and strip_refs(x.a[1]).k == "arg" and strip_refs(x.a[1]).a[0] == 2 for x in v.walk()) or \
                    any(x.k == "call" and "Index" in x.a[0] and strip_refs(x.a[1][1]).k == "arg" and strip_refs(x.a[1][1]).a[0] == 2 for x in v.walk())
            # nothing else happens to the bytes: the wrapper consists of the accessor, value-preserving conversions and the hand-over
            other_ops = []
            for (bb2, t2) in b.calls():
                n2 = callee_name(t2)
                if n2 == want[0] or n2.endswith("is_null") or n2.startswith("core::panicking::") or n2.startswith("std::rt::") or _is_conv_call(n2) \
                        or n2.endswith("CString::from_vec_unchecked") or n2.endswith("CString::into_raw") or "NonNull::<T>::" in n2 or "ub_checks" in n2 \
                        or "precondition_check" in n2 or n2.endswith("::index") or n2.endswith("intrinsics::size_of") or n2.endswith("::fmt::Arguments::<'a>::new") \
                        or "panicking::assert_failed" in n2:
                    continue
                other_ops.append((bb2, n2))
            if other_ops:
                r3.violation("pair:%s" % sym, "%s also applies %s between reading %s and handing the bytes out — the returned string is no longer the value the Rust API reports"
                             % (sym, other_ops[0][1], meth), site_of(b, other_ops[0][0]))
                continue
            if src is None or not owned or not idx_ok:
                r3.violation("pair:%s" % sym, "the returned string is built from %r, not from an owned copy of %s(%s)" % (peel_conv(v), meth, "index" if kind == "string-indexed" else ""),
                             common.fn_line(prog, k))
                continue
        elif kind == "boxed":
            if not (ret.k == "call" and ret.a[0].endswith("Box::<T>::into_raw") and contains_call(ret, lambda n: n == want[0]) is not None):
                r3.violation("pair:%s" % sym, "%s does not return the boxed result of %s" % (sym, meth), common.fn_line(prog, k))
                continue
        elif kind == "plain" and f["output"] != "()":
            if not (ret.k == "call" and ret.a[0] == want[0]):
                r3.violation("pair:%s" % sym, "%s returns %r instead of %s's result" % (sym, ret, meth), common.fn_line(prog, k))
                continue
        # a single path: no early return around the paired call (other than the null asserts)
        extra_guards = [(d, pol) for (d, pol, s) in guards_of(b, bb) if not _is_null_test(d) and not _is_ub_check(d)]
        if extra_guards:
            r3.violation("pair:%s" % sym, "%s reaches %s only under %s" % (sym, meth, extra_guards[0]), site_of(b, bb))
            continue
        r3.ok("pair:%s" % sym, "%s ↔ %s::%s" % (sym, owner.split("::")[-1], meth))
    # string free
    if "riti_string_free" in by_sym:
        k = by_sym["riti_string_free"]
        b = wbody(k)
        fr = [(bb, t) for (bb, t) in b.calls() if callee_name(t).endswith("CString::from_raw")]
        if len(fr) != 1:
            r3.violation("string-free", "riti_string_free calls CString::from_raw %d times" % len(fr), common.fn_line(prog, k))
        else:
            bb, t = fr[0]
            g = [(d, pol) for (d, pol, s) in guards_of(b, bb) if not _is_ub_check(d)]
            a = _norm_ptr(b.expr_operand(t["args"][0]))
            nullg = _null_guarded(b, bb, 1)
            extra = [x for x in g if not _is_null_test(x[0])]
            if a.k == "arg" and a.a[0] == 1 and nullg and not extra:
                r3.ok("string-free", "no-op on null, otherwise drop(CString::from_raw(ptr)) — and on nothing else")
            else:
                r3.violation("string-free", "riti_string_free reclaims the string only under %s (every non-null string returned by the library must be reclaimed)"
                             % (extra or "no null check"), site_of(b, bb))
    # setters write the field their getter reads
    n_sg = 0
    for k, f in prog.fns.items():
        if (f.get("impl") or {}).get("self") != "config::Config" or not f.get("name", "").startswith("set_") or (f.get("impl") or {}).get("trait"):
            continue
        g = prog.fn_named("get_" + f["name"][4:], self_ty="config::Config", required=False)
        if g is None:
            continue
        sb = prog.body(k)
        ws = {w["fields"] for w in direct_writes(sb) if w["op"] == "assign" and w["root"].k == "arg" and w["root"].a[0] == 1}
        gb = prog.body(g)
        reads = {apath(x)[1] for x in gb.expr_local(0).walk() if x.k == "field" and apath(x)[0].k == "arg"}
        for (i, j, s) in gb.stmts():
            if s["k"] == "assign":
                for x in gb.expr_rvalue(s["rv"]).walk():
                    if x.k == "field" and apath(x)[0].k == "arg" and apath(x)[0].a[0] == 1:
                        reads.add(apath(x)[1])
        n_sg += 1
        if ws and ws <= reads and len(ws) == 1:
            r3.ok("field:%s" % f["name"], "writes self.%s, which %s reads" % (".".join(list(ws)[0]), "get_" + f["name"][4:]))
        else:
            r3.violation("field:%s" % f["name"], "%s writes %s but %s reads %s" % (f["name"], sorted(ws), "get_" + f["name"][4:], sorted(reads)), common.fn_line(prog, k))
    r3.floor(28 + 1 + 10, "28 pairings + string free + ≥10 setter/getter pairs")

    # ---------------- R4 independence
    r4 = chk.rule("C19.R4", "a Suggestion owns all its data",
                  "a suggestion is unaffected by later calls on the context it came from (also after the context is freed)")
    adt = prog.adts[builders.SUGG]
    bad = []
    n_f = 0
    for v in adt["variants"]:
        for fld in v["fields"]:
            n_f += 1
            if any(x in fld["ty"] for x in ("&", "*const", "*mut", "Rc<", "Arc<", "Cow<", "RefCell<")):
                bad.append("%s.%s: %s" % (v["name"], fld["name"], fld["ty"]))
    if bad:
        r4.violation("owned-fields", "Suggestion holds borrowed/shared data: %s" % bad, None)
    else:
        r4.ok("owned-fields", "%d fields, all owned (String, Vec<String>, usize, bool)" % n_f)
    r4.floor(1, "owned fields")

    # ---------------- R5 unsafe census
    r5 = chk.rule("C19.R5", "unsafe code only in the C shim and only the enumerated operations",
                  "no invalid memory access: the only unsafe operations are the handle/string conversions the ownership rules cover")
    outside = [u for u in prog.unsafe_blocks if not u["owner"].startswith("ffi::")]
    if outside:
        r5.violation("location", "unsafe block outside ffi: %s" % outside[0]["owner"], {"file": outside[0]["loc"]["file"], "line": outside[0]["loc"]["line"], "function": outside[0]["owner"]})
    else:
        r5.ok("location", "%d unsafe blocks, all in ffi" % len(prog.unsafe_blocks))
    n_ops = 0
    for k, f in prog.fns.items():
        b = prog.body(k)
        for (bb, t) in b.calls():
            c = t.get("callee") or {}
            if c.get("unsafe") and not t["loc"].get("exp"):
                n_ops += 1
                if c.get("local") and c["path"] in prog.fns and c["path"].startswith("ffi::") and not prog.fns[c["path"]].get("no_mangle"):
                    continue                    # a private unsafe helper of the shim: its own body is examined by this same loop
                if c["path"] not in ALLOWED_UNSAFE:
                    r5.violation("op:%s@%s" % (c["path"].split("::")[-1], k.split("::")[-1]), "unsafe operation %s is not one of the enumerated handle/string conversions" % c["path"],
                                 site_of(b, bb))
                elif not k.startswith("ffi::"):
                    r5.violation("op:%s@%s" % (c["path"].split("::")[-1], k.split("::")[-1]), "unsafe call outside the C shim", site_of(b, bb))
    r5.ok("ops", "%d unsafe calls, all in {Box::from_raw, CString::from_raw, CString::from_vec_unchecked, CStr::from_ptr}" % n_ops)
    r5.floor(2, "location + ops")

    # ---------------- R6 NUL-freedom
    r6 = chk.rule("C19.R6", "riti's own alphabet contains no NUL (strings are handed to from_vec_unchecked)",
                  "every returned string is NUL-terminated valid UTF-8 equal to the Rust value")
    kfn, table, default = common.key_char_table(prog)
    nul = [v for v, leaf in table.items() if leaf is not None and "\\x00" in repr(leaf)]
    leaves_ok = True
    for v, leaf in table.items():
        l = strip_refs(leaf) if leaf is not None else None
        if l is not None and l.k == "agg":
            l = strip_refs(l.a[1][0]) if l.a[1] else None
        if l is not None and is_const(l, "char") and const_val(l) == "\x00":
            leaves_ok = False
    if leaves_ok:
        r6.ok("key-table", "no key types NUL")
    else:
        r6.violation("key-table", "a key types NUL", common.fn_line(prog, kfn))
    for fname in ("Probhat.json", "dictionary.json", "suffix.json", "autocorrect.json"):
        d = tables.load_json(fname)
        txt = repr(d)
        if "\\x00" in txt:
            r6.violation("data:%s" % fname, "bundled %s contains NUL" % fname, None)
        else:
            r6.ok("data:%s" % fname, "no NUL")
    # user auto-correct values are the one user-file text that is shown: the filter they pass must reject NUL
    from . import phonetic as _ph
    fck, ftt = _ph.autocorrect_filter(prog)
    if ftt is None:
        r6.undecidable("user-autocorrect", "the filter user auto-correct values pass could not be summarised")
    elif any(kept for (asc, nul), kept in ftt.items() if nul):
        r6.violation("user-autocorrect", "a user auto-correct value containing NUL passes the look-up's filter (NUL is ASCII): the candidate handed to from_vec_unchecked has an "
                     "interior NUL — the C string is cut short, differs from the Rust value, and riti_string_free rebuilds the CString with the wrong length",
                     common.fn_line(prog, fck))
    else:
        r6.ok("user-autocorrect", "user auto-correct values with a NUL are rejected before use")
    r6.assume("layout files supplied at run time contain no NUL in their key values")
    r6.floor(6, "key table + 4 data files + user auto-correct filter")


CONV_SUFFIXES = ("::clone", "::into", "::into_bytes", "::to_owned", "::to_string", "::to_vec", "::as_bytes", "::as_str", "::from", "::deref", "::as_ref",
                 "::borrow", "::into_boxed_str", "::into_string", "::into_vec", "::to_bytes", "::as_slice", "::into_owned", "::as_mut_vec")


def _is_conv_call(n):
    """std calls that hand a string / byte value on unchanged (possibly copying it)."""
    if not (n.startswith("std::") or n.startswith("core::") or n.startswith("alloc::") or n.startswith("<")):
        return False
    return any(n.endswith(s_) for s_ in CONV_SUFFIXES) and "::as_mut_vec" not in n


def _norm_ptr(e):
    """The raw pointer an expression denotes: looks through NonNull::new(p) … Some(nn) … nn.as_ptr() (the same address by definition)."""
    e = strip_refs(e)
    for _ in range(4):
        if e.k == "call" and e.a[0].endswith("NonNull::<T>::as_ptr"):
            x = strip_refs(e.a[1][0])
            if x.k == "field" and strip_refs(x.a[0]).k == "downcast":
                src = strip_refs(strip_refs(x.a[0]).a[0])
                if src.k == "call" and src.a[0].endswith("NonNull::<T>::new"):
                    e = strip_refs(src.a[1][0])
                    continue
        break
    return e


def _null_guarded(b, bb, pi):
    """Block bb runs only when parameter pi is non-null: !is_null() edge, or the Some edge of NonNull::new(param)."""
    for (d, pol, s_) in guards_of(b, bb):
        if d.k == "call" and d.a[0].endswith("is_null") and pol is False:
            x = _norm_ptr(d.a[1][0])
            if pi is None or (x.k == "arg" and x.a[0] == pi):
                return True
        if d.k == "discr":
            src = strip_refs(d.a[0])
            if src.k == "call" and src.a[0].endswith("NonNull::<T>::new"):
                x = strip_refs(src.a[1][0])
                explicit = {v for v, _ in b.blocks[s_]["term"]["targets"]}
                some_edge = pol == (1,) or (pol == "otherwise" and explicit == {0})
                if some_edge and (pi is None or (x.k == "arg" and x.a[0] == pi)):
                    return True
    return False


def _is_null_test(d):
    d = strip_refs(d)
    if d.k == "call" and d.a[0].endswith("is_null"):
        return True
    return d.k == "discr" and strip_refs(d.a[0]).k == "call" and strip_refs(d.a[0]).a[0].endswith("NonNull::<T>::new")


def _is_ub_check(d):
    """Debug-build pointer checks (alignment / null) inserted by rustc are not program guards."""
    t = repr(d)
    return "Transmute" in t or "PtrToPtr" in t
