"""C10 — damaged or missing user files never stop the keyboard from working.

Decided statically: no panic sink consumes a value derived from user-file I/O or parsing (R1), file
bytes are not indexed/sliced without a length guard (R1b), strings that come out of the user maps
(directly or through the memo) are not dereferenced as non-empty nor handed to the ASCII-only parser
unguarded (R2), and a failed save affects nothing but the file (R3).
Not decided: behaviour after a tolerated failure beyond 'the error arm builds the empty map'."""
from engine.mir import E, apath, strip_refs, is_const, const_val, callee_name, self_path
from engine.analyses import (peel_conv, guards_of, contains_call, direct_writes, ModSets, closure_creation)
from engine.report import site_of
from . import common, builders, phonetic, c09

IO_SOURCES = ("std::fs::read", "std::fs::read_to_string", "std::fs::write", "std::fs::File::open", "std::fs::File::create", "std::fs::File::metadata",
              "std::fs::Metadata::modified", "std::fs::metadata", "<std::fs::File as std::io::Read>::read_to_end", "std::io::Read::read_to_end",
              "std::io::Read::read_to_string", "std::io::Read::read", "std::io::Read::read_exact", "std::io::Write::write_all",
              "serde_json::from_slice", "serde_json::from_str", "serde_json::from_reader", "serde_json::from_value", "serde_json::to_string",
              "serde_json::to_vec", "serde_json::to_writer", "std::fs::OpenOptions::open", "std::fs::File::sync_all", "std::fs::create_dir_all",
              "std::fs::rename", "std::fs::remove_file", "std::time::SystemTime::duration_since")
PANIC_SINKS = ("Result::<T, E>::unwrap", "Result::<T, E>::expect", "Result::<T, E>::unwrap_err", "Result::<T, E>::expect_err",
               "Option::<T>::unwrap", "Option::<T>::expect", "Result::<T, E>::unwrap_unchecked", "Option::<T>::unwrap_unchecked")
INDEX_SINKS = ("::index", "::index_mut", "::split_at", "::split_at_mut", "::copy_from_slice", "::drain", "::split_off", "::remove",
               "::swap_remove", "::truncate_front", "::split_first", "::first_chunk")


def is_source(name):
    return any(name == s or name.endswith(s.split("::", 1)[-1]) and name.startswith(s.split("::")[0]) for s in IO_SOURCES)


def run(ctx):
    prog, chk = ctx.prog, ctx.check
    chk.explanation = (
        "May-reach taint on MIR: results of file I/O / JSON (de)serialisation and the bytes read from user files are sources; unwrap/expect "
        "family, indexing/slicing without a dominating length guard, and the ASCII-only parser are sinks. Strings that come out of the two user "
        "maps or the memo are followed into the joining code. Unknown callees propagate and do not sanitise.")
    chk.not_decided = ["that a tolerated failure is observably identical to an absent file, beyond 'the error arm constructs the empty map'",
                       "crash-point atomicity of the rewrite (the loader's tolerance to every prefix is what R1 establishes: any parse error is absorbed)"]
    mods = ctx.memo("modsets", lambda: ModSets(prog))
    R = phonetic.roles(prog)
    entry = [R["new"], R["update"], R["commit"], R["get_suggestion"], R["backspace"]]
    reach = prog.reach(entry, foreign_trait_impls=False)
    reach = {k for k in reach if not k.startswith("data::Data::new")}

    # ---------------- R1
    r1 = chk.rule("C10.R1", "no value derived from user-file I/O or parsing reaches an unwrap/expect",
                  "absent / empty / truncated / wrong-shape files and a missing or unwritable directory never stop construction, typing, commit or reload")
    n_src = 0
    n_sink = 0
    for fk in sorted(reach):
        b = prog.body(fk)
        for (bb, t) in b.calls():
            n = callee_name(t)
            if is_source(n) or is_source(t.get("callee", {}).get("path", "")):
                n_src += 1
            if any(n.endswith(s) for s in PANIC_SINKS):
                n_sink += 1
                recv = b.expr_operand(t["args"][0])
                src = contains_call(recv, lambda m: is_source(m))
                if src is None:
                    # closure parameters fed by an I/O result (map/and_then closures)
                    src = _closure_param_source(prog, fk, recv)
                if src is not None:
                    key = "%s@%s:%s" % (n.split("::")[-1], fk.split("::")[-1] if "<" not in fk else fk.split(">::")[-1], (src.a[0] if isinstance(src, E) else src).split("::")[-1])
                    r1.violation(key, "%s() on a value derived from %s — a damaged/missing user file or directory aborts the host here"
                                 % (n.split("::")[-1], src.a[0] if isinstance(src, E) else src), site_of(b, bb))
    r1.table("io_sources_seen", n_src)
    r1.table("unwrap_sites_examined", n_sink)
    if n_src >= 10:
        r1.ok("sources", "%d I/O / parse call sites in the user-file code, none flows into an unwrap/expect" % n_src)
    else:
        r1.undecidable("sources", "only %d I/O sources found in the user-file code (expected ≥ 10: read, open, metadata×2, modified, read_to_end, from_slice×2, to_string, write)" % n_src)
    # each source's result must be consumed by an accepted idiom (not ignored silently is fine; but must not be matched with a panicking arm)
    for fk in sorted(reach):
        b = prog.body(fk)
        for (bb, t) in b.calls():
            n = callee_name(t)
            if not (is_source(n)):
                continue
            key = "src:%s@%s" % (n.split("::")[-1], fk.split("::")[-1] if "<" not in fk else fk.split(">::")[-1])
            # does a path from the Err/None arm of a match on this result reach a diverging panic?
            dest = t["dest"]["l"]
            bad = None
            for s in b.rblocks:
                tt = b.blocks[s]["term"]
                if tt["k"] != "switch":
                    continue
                d = strip_refs(b.expr_operand(tt["discr"]))
                if d.k == "discr" and contains_call(d, lambda m: m == n) is not None:
                    for (node, vals, tgt) in b.switch_edges(s):
                        # diverging panic directly in the arm's chain
                        from engine.analyses import chain
                        for cb_ in chain(b, tgt):
                            ct = b.blocks[cb_]["term"]
                            if ct["k"] == "call" and ct.get("target") is None and ("panic" in callee_name(ct) or "unwrap_failed" in callee_name(ct)):
                                bad = (cb_, callee_name(ct))
            if bad:
                r1.violation(key, "an arm of the match on %s's result panics (%s)" % (n, bad[1]), site_of(b, bad[0]))
            else:
                r1.ok(key + "#%d" % bb, "result handled without a panicking arm")
    r1.floor(11, "≥ 10 source sites + summary")

    # ---------------- R1b file bytes are not sliced unguarded
    r1b = chk.rule("C10.R1b", "bytes read from a user file are never indexed or sliced without a dominating length check",
                   "a file truncated at any byte (also 0, 1, 2 bytes) is tolerated")
    n_ix = 0
    # functions that return the bytes of a file, and parameters that receive such bytes at some call site (followed through local calls)
    def _local_taint(b_):
        tl = set()
        for (bb_, t_) in b_.calls():
            n_ = callee_name(t_)
            if n_.endswith("read_to_end") or n_.endswith("read_to_string") or n_.endswith("Read::read"):
                if len(t_["args"]) > 1 and t_["args"][1]["k"] != "const":
                    tl.add(repr(apath(b_.expr_operand(t_["args"][1]))[0]))
        return tl
    file_fns = set()
    for fk in sorted(reach):
        b_ = prog.body(fk)
        if prog.fns[fk].get("kind") == "Closure":
            continue
        ret_ = b_.expr_local(0)
        if contains_call(ret_, lambda m: m in ("std::fs::read", "std::fs::read_to_string")) is not None or repr(apath(ret_)[0]) in _local_taint(b_) \
                or any(repr(x) in _local_taint(b_) for x in ret_.walk()):
            file_fns.add(fk)
    tainted_params = set()
    prog.callgraph()
    for _round in range(3):
        for fk in sorted(reach):
            b_ = prog.body(fk)
            tl_ = _local_taint(b_)
            for (bb_, t_) in b_.calls():
                n_ = callee_name(t_)
                if n_ not in prog.fns:
                    continue
                for ai_, a_ in enumerate(t_["args"], start=1):
                    if a_["k"] == "const":
                        continue
                    e_ = b_.expr_operand(a_)
                    root_ = apath(e_)[0]
                    if contains_call(e_, lambda m: m in file_fns or m in ("std::fs::read", "std::fs::read_to_string")) is not None or repr(root_) in tl_ \
                            or (root_.k == "arg" and (fk, root_.a[0]) in tainted_params):
                        tainted_params.add((n_, ai_))
    for fk in sorted(reach):
        b = prog.body(fk)
        # tainted buffers: locals passed as &mut to read_to_end / results of fs::read
        tainted_locals = set()
        for (bb, t) in b.calls():
            n = callee_name(t)
            if n.endswith("read_to_end") or n.endswith("read_to_string") or n.endswith("Read::read"):
                if len(t["args"]) > 1 and t["args"][1]["k"] != "const":
                    e = b.expr_operand(t["args"][1])
                    r, f = apath(e)
                    tainted_locals.add(repr(r))
        for (bb, t) in b.calls():
            n = callee_name(t)
            if not any(n.endswith(s) for s in INDEX_SINKS):
                continue
            if "HashMap" in n or "serde_json::value" in n:
                continue
            recv = b.expr_operand(t["args"][0])
            root0 = apath(recv)[0]
            is_file = contains_call(recv, lambda m: m in ("std::fs::read", "std::fs::read_to_string") or m in file_fns) is not None or repr(root0) in tainted_locals \
                or (root0.k == "arg" and (fk, root0.a[0]) in tainted_params)
            if not is_file:
                continue
            n_ix += 1
            g = guards_of(b, bb)
            guarded = any((d.k == "bin" and d.a[0] in ("Ge", "Gt", "Le", "Lt") and "len" in repr(d)) or
                          (d.k == "call" and (d.a[0].endswith("::starts_with") or d.a[0].endswith("::is_empty"))) for (d, pol, s) in g)
            key = "%s@%s" % (n.split("::")[-1], fk.split("::")[-1])
            if guarded:
                r1b.ok(key, "guarded by a length / prefix test")
            else:
                r1b.violation(key, "the bytes of a user file are indexed/sliced with %s without a dominating length check — a shorter file panics" % n.split(">::")[-1],
                              site_of(b, bb))
    r1b.ok("scan", "%d indexing sites on file bytes examined" % n_ix)
    r1b.floor(1, "scan")

    # ---------------- R2 contents are not trusted
    r2 = chk.rule("C10.R2", "strings from the user maps / memo are never assumed non-empty, and reach the ASCII-only parser only behind an ASCII filter",
                  "entries with empty strings (or unexpected content) are tolerated while typing")
    user_sources = (R["store"], R["user_autocorrect"], R["memo"])
    n_sites = 0
    for fk in sorted(reach):
        b = prog.body(fk)
        for (bb, t) in b.calls():
            n = callee_name(t)
            if not any(n.endswith(s) for s in PANIC_SINKS):
                continue
            recv = b.expr_operand(t["args"][0])
            # chars().last()/next()/nth() of a string …
            inner = contains_call(recv, lambda m: m.endswith("str>::chars") or m.endswith("::char_indices") or m.endswith("::bytes"))
            if inner is None:
                continue
            n_sites += 1
            s_e = inner.a[1][0]
            origin = _string_origin(prog, b, s_e, R)
            key = "%s@%s#%s" % (n.split("::")[-1], fk.split("::")[-1], origin or "other")
            if origin in ("store", "memo", "user_autocorrect"):
                r2.violation(key, "a string that comes from the %s (user-controlled file content) is assumed non-empty: chars()…unwrap()" % origin, site_of(b, bb))
            elif origin == "bundled-suffix":
                # bundled data: non-empty by table check
                from engine import tables as T
                sfx = T.load_json("suffix.json")
                if all(v for v in sfx.values()):
                    r2.ok(key, "suffix values come from the bundled suffix table, all %d non-empty" % len(sfx))
                else:
                    r2.violation(key, "bundled suffix table has an empty value", site_of(b, bb))
            else:
                r2.ok(key, "not a user-file string (%s)" % (origin or "local text"))
    # byte slicing of user strings
    n_slice = 0
    for fk in sorted(reach):
        b = prog.body(fk)
        for (bb, t) in b.calls():
            n = callee_name(t)
            if not (n.endswith("for str>::index") or n.endswith("str>::split_at") or n.endswith("String::truncate") or n.endswith("String::remove")
                    or n.endswith("String::insert") or n.endswith("String::drain") or n.endswith("String::split_off")):
                continue
            origin = _string_origin(prog, b, b.expr_operand(t["args"][0]), R)
            if origin in ("store", "memo", "user_autocorrect"):
                n_slice += 1
                r2.violation("%s@%s#%s" % (n.split("::")[-1], fk.split("::")[-1], origin),
                             "a string from the %s is sliced by byte offset (%s) — user-file content of unexpected length/encoding panics" % (origin, n.split(">::")[-1]),
                             site_of(b, bb))
    r2.ok("scan", "%d unwrap-on-chars sites and %d byte-slicing sites on user strings examined in the event code" % (n_sites, n_slice))
    # ASCII filter in front of the parser for user auto-correct values
    lookups = phonetic.autocorrect_lookup(prog)
    sc = [k for (k, b_, e_) in lookups]
    if len(sc) != 1:
        r2.undecidable("ascii-filter", "auto-correct look-up not found uniquely: %s" % sc)
    else:
        scb = lookups[0][1]
        ret = strip_refs(lookups[0][2])
        user_branch = ret.a[1][0] if ret.k == "call" and ret.a[0].endswith("::or_else") else ret
        filt = None
        fck, ftt = phonetic.autocorrect_filter(prog)
        if ftt is not None and all((not kept) or asc for (asc, nul), kept in ftt.items()) and any(kept for kept in ftt.values()):
            filt = fck          # whatever else it tests, a kept value is ASCII
        # also accept validation at load time *and* at reload time (every assignment of the map filtered) — not the case today
        if filt:
            r2.ok("ascii-filter", "user auto-correct value passes `.filter(is_ascii)` before the phonetic parser (which slices by byte)")
        else:
            # is the value converted at all?
            r2.violation("ascii-filter", "a user auto-correct value reaches okkhor's parser without an is_ascii filter on the look-up path "
                         "(okkhor panics on non-ASCII input)", common.fn_line(prog, sc[0]))
    r2.floor(2, "scan + ascii filter")

    # ---------------- R3 failed save
    r3 = chk.rule("C10.R3", "a failed save affects nothing but the file: in-memory insert first, result not branched on",
                  "a failed save loses at most that one learned choice; commit keeps working")
    cc = R["commit"]
    from . import roles as _roles
    b = _roles.ib(prog, cc)
    def _is_write(t):
        return callee_name(t) in ("std::fs::write",) or callee_name(t).endswith("OpenOptions::open") or callee_name(t).endswith("File::create") \
            or callee_name(t).endswith("write_all")
    wr = [(bb, t) for (bb, t) in b.calls() if _is_write(t)]
    write_closures = set()
    for ck in [x for g in [cc] + list(b.fn.get("inlined", [])) for x in prog.closures_of(g)]:
        if any(_is_write(t) for (bb, t) in prog.body(ck).calls()):
            crt = closure_creation(prog, ck)
            if crt:
                write_closures.add(ck)
                # position = the call that consumes the closure
                from engine.analyses import closure_consumer
                cons = closure_consumer(prog, ck)
                if cons:
                    wr.append((cons[1], cons[2]))
    ins = [(bb, t) for (bb, t) in b.calls() if callee_name(t).endswith("HashMap::<K, V, S, A>::insert") and self_path(b.expr_operand(t["args"][0])) == (R["store"],)]
    if not wr or not ins:
        r3.undecidable("order", "commit's insert / file write not found (%d / %d)" % (len(ins), len(wr)))
    else:
        if all(b.dominates(ins[0][0], wbb) for wbb, _ in wr):
            r3.ok("order", "map insert dominates the file write")
        else:
            r3.violation("order", "the file is written before / without the in-memory insert", site_of(b, wr[0][0]))
        # the write's result must not guard any write to self or an early return
        bad = None
        for (wbb, wt) in wr:
            n = callee_name(wt)
            for s in b.rblocks:
                tt = b.blocks[s]["term"]
                if tt["k"] != "switch":
                    continue
                d = strip_refs(b.expr_operand(tt["discr"]))
                c = contains_call(d, lambda m: m == n)
                via_closure = any(x.k == "agg" and x.a[0].startswith("closure:") and x.a[0][8:] in write_closures for x in d.walk())
                if (c is None or c.a[2] != wbb) and not via_closure:
                    continue
                # any self write or return reachable on only one side?
                sides = []
                for (node, vals, tgt) in b.switch_edges(s):
                    region = b.reachable_from(tgt)
                    ws = [(f, op) for (f, op, bb2, w) in phonetic.field_writes(prog, cc, mods, body=b) if bb2 in region]
                    sides.append((vals, frozenset(ws), tgt))
                if len({x[1] for x in sides}) > 1:
                    bad = (s, [sorted(x[1]) for x in sides])
        # every normal return must be post-dominated… the session reset must not depend on the write
        clears = [bb for (f, op, bb, w) in phonetic.field_writes(prog, cc, mods, body=b) if op.endswith("::clear") and f == (builders.method_roles(prog)[R["method_ty"]]["buffer"],)]
        reset_always = bool(clears) and any(b.postdominates(cb_, 0) for cb_ in clears)
        # after the in-memory insert the save is attempted whatever the method's own state is: the only condition allowed between the
        # insert and the write is the outcome of serialising the map; and the outcome of the write is not kept in the method's state
        cond_bad = None
        for (wbb, wt) in wr:
            for (d, pol, s_) in guards_of(b, wbb):
                if not b.dominates(ins[0][0], s_):
                    continue
                if contains_call(d, lambda m: "serde_json" in m) is not None:
                    continue
                cond_bad = (s_, d)
        kept = None
        for (i_, j_, st_) in b.stmts():
            if st_["k"] == "assign" and st_["place"]["p"]:
                lhs = self_path(b.expr_place(st_["place"]))
                if lhs:
                    v_ = b.expr_rvalue(st_["rv"])
                    if any(x.k == "call" and any(x.a[2] == wbb and x.a[0] == callee_name(wt) for (wbb, wt) in wr) for x in v_.walk()):
                        kept = (i_, ".".join(lhs))
        if cond_bad is not None:
            r3.violation("result", "after the choice was learned the save is attempted only under %r: once that is false every later learned choice stays in memory "
                         "only (more than the one choice of a failed save is lost)" % (cond_bad[1],), site_of(b, cond_bad[0]))
        elif kept is not None:
            r3.violation("result", "the outcome of the save is kept in the method's state (self.%s): a failed save changes how later commits behave" % kept[1], site_of(b, kept[0]))
        elif bad:
            r3.violation("result", "the outcome of the save decides what is written to the method's state: %s" % (bad[1],), site_of(b, bad[0]))
        elif not reset_always:
            r3.violation("result", "the composition is not reset on every path of commit (a path — e.g. after a failed save — returns before clearing it)",
                         common.fn_line(prog, cc))
        else:
            r3.ok("result", "the save's result guards no state change; the composition is reset on every path")
    r3.floor(2, "order, result")


def _closure_param_source(prog, fk, recv):
    """If recv mentions a parameter of closure fk that is fed by an I/O source through and_then/map: the source name."""
    f = prog.fns.get(fk)
    if not f or f.get("kind") != "Closure":
        return None
    uses_param = any(x.k == "arg" and x.a[0] >= 2 for x in recv.walk())
    if not uses_param:
        return None
    from engine.analyses import closure_consumer
    cc = closure_consumer(prog, fk)
    if not cc:
        return None
    pb, bb, t, ai = cc
    r = pb.expr_operand(t["args"][0])
    src = contains_call(r, lambda m: is_source(m))
    return src


def _string_origin(prog, b, s_e, R):
    """Where a string whose chars are unwrapped comes from: 'store' | 'memo' | 'user_autocorrect' | 'bundled-suffix' | None."""
    e = peel_conv(s_e)
    txt = repr(e)
    # payload of HashMap::get on a map
    for x in e.walk():
        if x.k == "call" and x.a[0].endswith("HashMap::<K, V, S, A>::get"):
            m = x.a[1][0]
            sp = self_path(m)
            mty = ""
            if sp and sp[-1] in (R["store"], R["user_autocorrect"], R["memo"]):
                return {R["store"]: "store", R["user_autocorrect"]: "user_autocorrect", R["memo"]: "memo"}[sp[-1]]
            # map passed as a parameter: which caller field binds to it
            r, f = apath(m)
            if r.k == "arg":
                ty = b.locals[r.a[0]]["ty"]
                if phonetic.STRMAP_TY in ty:
                    return "store"
                if phonetic.MEMO_TY in ty:
                    return "memo"
        if x.k == "call" and x.a[0].endswith("Data::find_suffix"):
            return "bundled-suffix"
        if x.k == "call" and x.a[0].endswith("Rank::to_string"):
            # a Rank out of an iteration over a memo entry
            inner = x.a[1][0]
            if any(y.k == "call" and y.a[0].endswith("HashMap::<K, V, S, A>::get") and (self_path(y.a[1][0]) or ("",))[-1] == R["memo"] for y in inner.walk()):
                return "memo"
            for y in inner.walk():
                if y.k == "local" or y.k == "phi":
                    pass
            # loop variable: look at what the iterator iterates
            if "IntoIterator" in repr(inner) or "Iter" in repr(inner):
                if R["memo"] in repr(inner):
                    return "memo"
    if R["memo"] in txt and "get" in txt:
        return "memo"
    return None
