"""C06 — ending a word erases every trace of it; the session flag tells the truth.

Decided statically (A8, per-path field-state analysis of the event methods): the set of
composition fields, emptiness of every composition field at every terminating exit, the
session flag as a truth table over the session-defining fields, inert idle back-space,
progress of every non-idle back-space.  Not decided: the differential clause beyond
"all composition fields are empty"."""
from engine.mir import E, apath, strip_refs, is_const, const_val, callee_name, self_path
from engine.analyses import (enumerate_paths, path_conditions, path_return, bool_of, truth_table, ModSets, PathLimit)
from engine.report import site_of
from . import common, builders

CLEARING = ("String::clear", "Vec::<T, A>::clear", "Option::<T>::take", "mem::take", "HashMap::<K, V, S, A>::clear")
GROWING = ("String::push", "String::push_str", "String::insert", "String::insert_str", "Vec::<T, A>::push",
           "::extend", "Option::<T>::insert", "Option::<T>::replace", "Option::<T>::get_or_insert")
SHRINKING = ("String::pop", "String::truncate", "String::remove", "Vec::<T, A>::pop", "Vec::<T, A>::truncate")
EMPTY_TESTS = {"String::is_empty": ("empty", True), "Vec::<T, A>::is_empty": ("empty", True), "str>::is_empty": ("empty", True),
               "Option::<T>::is_some": ("empty", False), "Option::<T>::is_none": ("empty", True)}


def _empty_test(d):
    """If bool E d tests emptiness of a self field: (field, value_of_d_when_empty)."""
    pol = True
    d = strip_refs(d)
    while d.k == "un" and d.a[0] == "Not":
        d = strip_refs(d.a[1])
        pol = not pol
    if d.k == "call":
        for suf, (_, when_empty) in EMPTY_TESTS.items():
            if d.a[0].endswith(suf) and d.a[1]:
                x = d.a[1][0]
                while True:
                    x = strip_refs(x)
                    if x.k == "call" and x.a[0].endswith("::deref") and len(x.a[1]) == 1:
                        x = x.a[1][0]
                        continue
                    break
                xs = strip_refs(x)
                if xs.k == "call" and (xs.a[0].endswith("Option::<T>::take") or xs.a[0].endswith("mem::take")) and xs.a[1]:
                    x = xs.a[1][0]          # emptiness of the field before it was taken
                sp = self_path(x)
                if sp and len(sp) == 1:
                    return sp[0], (when_empty if pol else (not when_empty))
    return None


def analyse_paths(prog, fnkey, mods):
    """Per acyclic path: final abstract state of self's fields, the writes, the return value.
    The function is analysed with its loop-free private helpers spliced in (e.g. a shared reset helper)."""
    from . import roles as _roles
    b = _roles.ib_paths(prog, fnkey)
    out = []
    for path in enumerate_paths(b):
        state = {}          # field -> 'E' | 'N'  (absent = unknown at entry = 'N' unless refined)
        writes = []
        refined_before_write = {}
        env = {}
        infeasible = False
        for (bb, vals) in path:
            blk = b.blocks[bb]
            # statements
            for j, s in enumerate(blk["stmts"]):
                if s["k"] == "assign":
                    val = b.expr_rvalue(s["rv"], 0, s, env)
                    if s["place"]["p"]:
                        lhs = b.expr_place(s["place"], 0, env)
                        sp = self_path(lhs)
                        if sp:
                            f = sp[0]
                            v = strip_refs(val)
                            is_none = v.k == "agg" and str(v.a[0]).endswith("Option::None")
                            if len(sp) == 1 and is_none:
                                state[f] = "E"
                                writes.append((f, "=None", bb))
                            else:
                                state[f] = "N"
                                writes.append((f, "assign", bb))
                    else:
                        env[s["place"]["l"]] = val
            t = blk["term"]
            if t["k"] == "call":
                name = callee_name(t)
                args = [b.expr_operand(a, 0, env) for a in t["args"]]
                handled = False
                if t["args"] and t["args"][0]["k"] != "const" and t["args"][0]["place"]["ty"].startswith("&mut "):
                    sp = self_path(args[0])
                    if sp and len(sp) >= 1 and not (name in prog.fns):
                        f = sp[0]
                        if len(sp) == 1 and any(name.endswith(c) for c in CLEARING):
                            state[f] = "E"
                            writes.append((f, "clear", bb))
                        elif any(name.endswith(c) for c in SHRINKING):
                            if state.get(f) == "NE":
                                state[f] = "N"
                            writes.append((f, "shrink", bb))
                        elif any(name.endswith(c) for c in GROWING):
                            state[f] = "N"
                            writes.append((f, "grow", bb))
                        else:
                            state[f] = "N"
                            writes.append((f, "call:" + name, bb))
                        handled = True
                if not handled:
                    for (root, fields, via) in mods.writes_of_call(b, bb, t):
                        if root.k == "arg" and root.a[0] == 1 and fields:
                            state[fields[0]] = "N"
                            writes.append((fields[0], "call:" + via, bb))
                if not t["dest"]["p"]:
                    env[t["dest"]["l"]] = E("call", name, tuple(args), bb, t=t)
            elif t["k"] == "switch" and vals is not None:
                d = b.expr_operand(t["discr"], 0, env)
                allv = tuple(v for v, _ in t["targets"])
                bv = bool_of((d, vals, allv, t["discr_ty"]))
                et = _empty_test(d)
                if et and bv is not None:
                    f, when_empty = et
                    if bv == when_empty:
                        if state.get(f) == "NE":
                            infeasible = True
                            break
                        state[f] = "E"
                        if not any(w[0] == f and w[1] not in ("clear", "=None") for w in writes):
                            refined_before_write[f] = True
                    else:
                        taken = strip_refs(d)
                        is_take = any(x.k == "call" and (x.a[0].endswith("::take")) for x in taken.walk())
                        if state.get(f) == "E" and not is_take:
                            infeasible = True
                            break
                        if not is_take:
                            state[f] = "NE"
        if infeasible:
            continue
        out.append({"path": path, "state": state, "writes": writes, "ret": env.get(0), "entry_empty": refined_before_write})
    return b, out


def run(ctx):
    prog, chk = ctx.prog, ctx.check
    chk.explanation = (
        "Per-path abstract interpretation (domain {Empty, MaybeNonEmpty} per self field, refined on is_empty/is_some branch edges) of "
        "the terminating event methods of both method structs, enumerating every acyclic MIR path; the session flag is summarised as a "
        "truth table over the session-defining fields.")
    chk.not_decided = ["behavioural equivalence of a used context with a fresh one beyond 'every composition field is empty' "
                       "(memo and learned selections legitimately survive: C05/C09)"]
    mods = ctx.memo("modsets", lambda: ModSets(prog))
    roles = builders.method_roles(prog)
    _, ctor_names = builders.suggestion_ctor_sites(prog)
    empty_ctor = [k for k, v in ctor_names.items() if v == "empty"]

    r1 = chk.rule("C06.R1", "composition fields = fields reset by the terminating events",
                  "nothing of the old word (composed text, raw keys, pending sign) leaks into the next one")
    r2 = chk.rule("C06.R2", "every terminating exit leaves every composition field empty",
                  "after commit / finish / ctrl-backspace / a backspace returning the empty suggestion the context is like new")
    r3 = chk.rule("C06.R3", "session flag = some session-defining field is non-empty (truth table)",
                  "the context reports an ongoing session exactly while composition state exists")
    r4 = chk.rule("C06.R4", "idle back-space is inert; every other back-space makes progress",
                  "a backspace when idle starts nothing; repeated backspaces always reach the idle state")

    for ty in sorted(roles):
        short = ty.split("::")[-1]
        term_fns = {ev: prog.method_impl(ty, ev) for ev in ("candidate_committed", "finish_input_session", "backspace_event")}
        analysed = {}
        try:
            for ev, fk in term_fns.items():
                analysed[ev] = analyse_paths(prog, fk, mods)
        except PathLimit as e:
            r2.undecidable("%s:paths" % short, "cannot enumerate paths of a terminating event: %s" % e)
            continue
        fields = roles[ty]["fields"]
        resettable = {n for n, t in fields.items() if t == "std::string::String" or t.startswith("std::option::Option<")}
        # S(M)
        S = set()
        terminating = []
        for ev, (b, paths) in analysed.items():
            for p in paths:
                ret = strip_refs(p["ret"]) if p["ret"] is not None else None
                is_empty_ret = ret is not None and ret.k == "call" and ret.a[0] in empty_ctor
                if ev == "backspace_event" and not is_empty_ret:
                    continue
                terminating.append((ev, b, p))
                for (f, op, bb) in p["writes"]:
                    if op in ("clear", "=None") and f in resettable:
                        S.add(f)
        for f in sorted(S):
            r1.ok("%s.%s" % (short, f), "reset by a terminating event")
        want = 3 if roles[ty]["buffer"] not in roles[ty]["raw"] else 1
        if len(S) < want:
            r1.violation("%s:count" % short, "only %s are ever reset by the terminating events of %s; expected %d composition fields "
                         "(composed text%s)" % (sorted(S), short, want, ", raw keys, pending sign" if want == 3 else ""),
                         common.fn_line(prog, term_fns["finish_input_session"]))
        # raw-key field and buffer must be in S
        for f in [roles[ty]["buffer"]] + roles[ty]["raw"] + [x for x in roles[ty]["session_fields"]]:
            if f not in S:
                r1.violation("%s.%s" % (short, f), "field %s (composition state by role) is never reset by a terminating event" % f,
                             common.fn_line(prog, term_fns["finish_input_session"]))
        # R2
        npaths = 0
        for (ev, b, p) in terminating:
            idle = all(p["entry_empty"].get(f) for f in roles[ty]["session_fields"])
            pid = "%s.%s:exit@%s" % (short, ev, "/".join(_cond_sig(b, p)))
            if idle and ev == "backspace_event":
                continue        # entered with every session field empty: the idle no-op exit, handled by R4
            npaths += 1
            leaks = [f for f in sorted(S) if p["state"].get(f) != "E"]
            last_bb = p["path"][-2][0] if len(p["path"]) > 1 else p["path"][-1][0]
            if leaks:
                r2.violation(pid, "this exit of %s ends the word but may leave %s non-empty (only %s)" % (
                    ev, ", ".join("self." + f for f in leaks),
                    "; ".join("%s:%s" % (f, op) for f, op, _ in p["writes"] if f in leaks) or "never reset on this path"),
                    site_of(b, last_bb), {"writes": [(f, op) for f, op, _ in p["writes"]], "state": p["state"]})
            else:
                r2.ok(pid, "all of %s empty" % sorted(S))
        # R3 truth table of the session flag
        og = prog.method_impl(ty, "ongoing_input_session")
        ob = prog.body(og)
        sess = roles[ty]["session_fields"]
        atoms = []
        for f in sess:
            def mk(f):
                def pred(x):
                    if strip_refs(x).k != "call":
                        return False
                    et = _empty_test(x)
                    return et is not None and et[0] == f
                return pred
            atoms.append((f, mk(f)))
        tt = truth_table(ob, atoms)
        if tt is None:
            r3.undecidable("%s:flag" % short, "cannot summarise the session flag as a boolean function of emptiness tests", common.fn_line(prog, og))
        else:
            # atom value = value of the test call; convert to 'empty?' using polarity of each test
            pol = {}
            for (bb, t) in ob.calls():
                args = [ob.expr_operand(a) for a in t["args"]]
                e = E("call", callee_name(t), tuple(args), bb)
                et = _empty_test(e)
                if et:
                    pol[et[0]] = et[1]
            bad = []
            for assign, val in tt.items():
                empties = [(assign[i] == pol.get(f, True)) for i, f in enumerate(sess)]
                want_val = not all(empties)
                if val != want_val:
                    bad.append(dict(zip(sess, ["empty" if e else "non-empty" for e in empties])))
            if bad:
                r3.violation("%s:flag" % short, "session flag is wrong for %s" % bad, common.fn_line(prog, og))
            else:
                r3.ok("%s:flag" % short, "ongoing ⇔ ¬(%s all empty)" % ", ".join(sess))
        # fields back-space branches on must be session fields
        bsb, bpaths = analysed["backspace_event"]
        branched = set()
        for p in bpaths:
            for c in path_conditions(bsb, p["path"]):
                et = _empty_test(c[0])
                if et:
                    branched.add(et[0])
        for f in sorted(branched):
            if f in sess:
                r3.ok("%s:branch.%s" % (short, f), "back-space branches on %s and the session flag tests it" % f)
            else:
                r3.violation("%s:branch.%s" % (short, f), "back-space treats self.%s as composition state but the session flag does not test it" % f,
                             common.fn_line(prog, og))
        for f in sess:
            if f not in S:
                r3.violation("%s:sess.%s" % (short, f), "session flag tests self.%s which no terminating event resets" % f, common.fn_line(prog, og))
        # R4
        for p in bpaths:
            ret = strip_refs(p["ret"]) if p["ret"] is not None else None
            is_empty_ret = ret is not None and ret.k == "call" and ret.a[0] in empty_ctor
            entry_idle = all(p["entry_empty"].get(f) for f in sess)
            pid = "%s.backspace@%s" % (short, "/".join(_cond_sig(bsb, p)))
            last_bb = p["path"][-2][0] if len(p["path"]) > 1 else p["path"][-1][0]
            if entry_idle:
                eff = [(f, op) for f, op, _ in p["writes"] if op not in ("clear", "=None", "shrink")]
                if eff or not is_empty_ret:
                    r4.violation(pid, "idle back-space (all of %s empty) %s" % (sess, "writes " + str(eff) if eff else "does not return the empty suggestion"),
                                 site_of(bsb, last_bb))
                else:
                    r4.ok(pid, "idle: no write, empty suggestion")
            else:
                prog_w = [(f, op) for f, op, _ in p["writes"] if f in sess and op in ("clear", "=None", "shrink")]
                if not prog_w:
                    r4.violation(pid, "a non-idle back-space path removes nothing from the session state (%s) — repeated back-space may never reach idle" % sess,
                                 site_of(bsb, last_bb))
                else:
                    r4.ok(pid, "progress: %s" % prog_w)
    r1.floor(4, "3 fixed + 1 phonetic composition fields")
    r2.floor(8, "terminating exits: fixed commit 1, finish 1, backspace ≥3; phonetic commit ≥1, finish 1, backspace ≥2")
    r3.floor(3, "2 session flags + at least one branch field")
    r4.floor(5, "back-space paths of both methods (fixed ≥3, phonetic ≥2)")


def _cond_sig(b, p):
    sig = []
    for (bb, vals) in p["path"]:
        if vals is not None:
            sig.append("bb%d=%s" % (bb, "o" if vals == "otherwise" else ",".join(map(str, vals))))
    return sig
