"""C06 — ending a word erases every trace of it; the session flag tells the truth.

Decided statically (A8, per-path field-state analysis of the event methods): the set of
composition fields, emptiness of every composition field at every terminating exit, the
session flag as a truth table over the session-defining fields, inert idle back-space,
progress of every non-idle back-space.  Not decided: the differential clause beyond
"all composition fields are empty"."""
from engine.mir import E, apath, strip_refs, is_const, const_val, callee_name, self_path
from engine.analyses import (enumerate_paths, path_conditions, path_return, bool_of, truth_table, ModSets, PathLimit, peel_conv)
from engine.report import site_of
from . import common, builders

CLEARING = ("String::clear", "Vec::<T, A>::clear", "Option::<T>::take", "mem::take", "HashMap::<K, V, S, A>::clear")
GROWING = ("String::push", "String::push_str", "String::insert", "String::insert_str", "Vec::<T, A>::push",
           "::extend", "Option::<T>::insert", "Option::<T>::replace", "Option::<T>::get_or_insert")
SHRINKING = ("String::pop", "String::truncate", "String::remove", "Vec::<T, A>::pop", "Vec::<T, A>::truncate")
EMPTY_TESTS = {"String::is_empty": ("empty", True), "Vec::<T, A>::is_empty": ("empty", True), "str>::is_empty": ("empty", True),
               "Option::<T>::is_some": ("empty", False), "Option::<T>::is_none": ("empty", True)}


def _empty_test(d):
    """If bool E d tests emptiness of a self field: (field, value_of_d_when_empty)."""
    pol = True
    d = strip_refs(d)
    while d.k == "un" and d.a[0] == "Not":
        d = strip_refs(d.a[1])
        pol = not pol
    if d.k == "call":
        for suf, (_, when_empty) in EMPTY_TESTS.items():
            if d.a[0].endswith(suf) and d.a[1]:
                x = d.a[1][0]
                while True:
                    x = strip_refs(x)
                    if x.k == "call" and x.a[0].endswith("::deref") and len(x.a[1]) == 1:
                        x = x.a[1][0]
                        continue
                    break
                xs = strip_refs(x)
                if xs.k == "call" and (xs.a[0].endswith("Option::<T>::take") or xs.a[0].endswith("mem::take")
                                       or xs.a[0].endswith("String::pop") or xs.a[0].endswith("Vec::<T, A>::pop")) and xs.a[1]:
                    x = xs.a[1][0]          # emptiness of the field before it was taken / popped (pop gives None iff it was empty)
                sp = self_path(x)
                if sp and len(sp) == 1:
                    return sp[0], (when_empty if pol else (not when_empty))
    return None


DEFINITE_GROW = ("String::push", "Vec::<T, A>::push", "Option::<T>::insert", "Option::<T>::replace", "Option::<T>::get_or_insert")
SESSION = "<session>"       # pseudo field: "some session-defining field is non-empty" (established by the session flag's true edge)


def _len_switch(d):
    """If E d is `len()` of a self field: that field."""
    d = strip_refs(d)
    if d.k == "call" and (d.a[0].endswith("String::len") or d.a[0].endswith("str>::len") or d.a[0].endswith("Vec::<T, A>::len")) and d.a[1]:
        x = d.a[1][0]
        for _ in range(4):
            x = strip_refs(x)
            if x.k == "call" and x.a[0].endswith("::deref") and len(x.a[1]) == 1:
                x = x.a[1][0]
                continue
            break
        sp = self_path(x)
        if sp and len(sp) == 1:
            return sp[0]
    return None


def _flag_test(d, flag_fn):
    """If bool E d is (a negation of) a call of the session-flag function on self: the value d has while a session is ongoing."""
    if flag_fn is None:
        return None
    pol = True
    d = strip_refs(d)
    while d.k == "un" and d.a[0] == "Not":
        d = strip_refs(d.a[1])
        pol = not pol
    if d.k == "call" and d.a[0] == flag_fn and d.a[1] and self_path(d.a[1][0]) == ():
        return pol
    return None


def analyse_paths(prog, fnkey, mods, sess=(), flag_fn=None):
    """Per acyclic path: final abstract state of self's fields, the writes, the return value.
    States: 'E' empty, 'NE' definitely non-empty, 'N' unknown.  `flag_fn` is the session-flag function of the same struct:
    its false edge makes every field of `sess` empty, its true edge sets the pseudo field SESSION to 'NE' (until a session
    field is shrunk, cleared or written by an unknown callee).
    The function is analysed with its loop-free private helpers spliced in (e.g. a shared reset helper)."""
    from . import roles as _roles
    b = _roles.ib_paths(prog, fnkey)
    out = []
    for path in enumerate_paths(b):
        state = {}          # field -> 'E' | 'N'  (absent = unknown at entry = 'N' unless refined)
        writes = []
        refined_before_write = {}
        env = {}
        infeasible = False
        for (bb, vals) in path:
            blk = b.blocks[bb]
            # statements
            for j, s in enumerate(blk["stmts"]):
                if s["k"] == "assign":
                    val = b.expr_rvalue(s["rv"], 0, s, env)
                    if s["place"]["p"]:
                        lhs = b.expr_place(s["place"], 0, env)
                        sp = self_path(lhs)
                        if sp:
                            f = sp[0]
                            v = strip_refs(val)
                            is_none = v.k == "agg" and str(v.a[0]).endswith("Option::None")
                            is_some = v.k == "agg" and str(v.a[0]).endswith("Option::Some")
                            if len(sp) == 1 and is_none:
                                state[f] = "E"
                                writes.append((f, "=None", bb))
                                if f in sess:
                                    state.pop(SESSION, None)
                            elif len(sp) == 1 and is_some:
                                state[f] = "NE"
                                writes.append((f, "grow", bb))
                            else:
                                state[f] = "N"
                                writes.append((f, "assign", bb))
                                if f in sess:
                                    state.pop(SESSION, None)
                    else:
                        env[s["place"]["l"]] = val
            t = blk["term"]
            if t["k"] == "call":
                name = callee_name(t)
                args = [b.expr_operand(a, 0, env) for a in t["args"]]
                handled = False
                if t["args"] and t["args"][0]["k"] != "const" and t["args"][0]["place"]["ty"].startswith("&mut "):
                    sp = self_path(args[0])
                    if sp and len(sp) >= 1 and not (name in prog.fns):
                        f = sp[0]
                        if len(sp) == 1 and any(name.endswith(c) for c in CLEARING):
                            state[f] = "E"
                            writes.append((f, "clear", bb))
                            if f in sess:
                                state.pop(SESSION, None)
                        elif any(name.endswith(c) for c in SHRINKING):
                            if state.get(f) == "NE":
                                state[f] = "N"
                            writes.append((f, "shrink", bb))
                            if f in sess:
                                state.pop(SESSION, None)
                        elif any(name.endswith(c) for c in GROWING):
                            if len(sp) == 1 and any(name.endswith(c) for c in DEFINITE_GROW):
                                state[f] = "NE"
                            elif state.get(f) != "NE":
                                state[f] = "N"
                            writes.append((f, "grow", bb))
                        else:
                            state[f] = "N"
                            writes.append((f, "call:" + name, bb))
                            if f in sess:
                                state.pop(SESSION, None)
                        handled = True
                if not handled:
                    for (root, fields, via) in mods.writes_of_call(b, bb, t):
                        if root.k == "arg" and root.a[0] == 1 and fields:
                            state[fields[0]] = "N"
                            writes.append((fields[0], "call:" + via, bb))
                            if fields[0] in sess:
                                state.pop(SESSION, None)
                if not t["dest"]["p"]:
                    env[t["dest"]["l"]] = E("call", name, tuple(args), bb, t=t)
            elif t["k"] == "switch" and vals is not None:
                d = b.expr_operand(t["discr"], 0, env)
                allv = tuple(v for v, _ in t["targets"])
                bv = bool_of((d, vals, allv, t["discr_ty"]))
                # a flag whose value is a constant on this path (`let removed = a() || b();` took the short-circuit arm): the other edge is not taken
                d_c = strip_refs(d)
                neg_c = False
                while d_c.k == "un" and d_c.a[0] == "Not":
                    d_c = strip_refs(d_c.a[1])
                    neg_c = not neg_c
                if t["discr_ty"] == "bool" and is_const(d_c, "bool"):
                    want_c = bool(const_val(d_c)) != neg_c
                    took_c = (vals != (0,)) if vals != "otherwise" else (0 in allv)
                    if took_c != want_c:
                        infeasible = True
                        break
                    continue
                if t["discr_ty"] != "bool":
                    # a decision kept as a literal variant on this path (`let erase = match (..) { .. => Erase::Word, .. }; match erase { .. }`):
                    # the second match takes the arm of the variant this path assigned
                    from engine.analyses import known_switch_value as _ksv
                    kvd = _ksv(d)
                    if kvd is not None:
                        if not ((kvd in vals) if vals != "otherwise" else (kvd not in allv)):
                            infeasible = True
                            break
                        continue
                et = _empty_test(d)
                fl = _flag_test(d, flag_fn)
                ln = _len_switch(d)
                if ln is not None and t["discr_ty"] != "bool":
                    # match field.len() { 0 => …, _ => … }
                    is_zero = vals == (0,) or (vals == "otherwise" and 0 not in allv and False)
                    nonzero = (vals != "otherwise" and 0 not in vals) or (vals == "otherwise" and 0 in allv)
                    if vals == (0,):
                        if state.get(ln) == "NE":
                            infeasible = True
                            break
                        state[ln] = "E"
                        if not any(w[0] == ln and w[1] not in ("clear", "=None") for w in writes):
                            refined_before_write[ln] = True
                    elif nonzero:
                        if state.get(ln) == "E":
                            infeasible = True
                            break
                        state[ln] = "NE"
                    continue
                if fl is not None and bv is not None:
                    ongoing = (bv == fl)
                    if ongoing:
                        if sess and all(state.get(f) == "E" for f in sess):
                            infeasible = True
                            break
                        state[SESSION] = "NE"
                    else:
                        if any(state.get(f) == "NE" for f in sess) or state.get(SESSION) == "NE":
                            infeasible = True
                            break
                        for f in sess:
                            state[f] = "E"
                            if not any(w[0] == f and w[1] not in ("clear", "=None") for w in writes):
                                refined_before_write[f] = True
                elif et and bv is not None:
                    f, when_empty = et
                    if bv == when_empty:
                        if state.get(f) == "NE":
                            infeasible = True
                            break
                        state[f] = "E"
                        popped = [x for x in strip_refs(d).walk() if x.k == "call" and x.a[0].endswith("::pop")]
                        if popped:
                            # the pop found nothing: it was not a write at all
                            pb = popped[0].a[2] if len(popped[0].a) > 2 else None
                            writes[:] = [w for w in writes if not (w[0] == f and w[1] == "shrink" and w[2] == pb)]
                        if not any(w[0] == f and w[1] not in ("clear", "=None") for w in writes):
                            refined_before_write[f] = True
                    else:
                        taken = strip_refs(d)
                        is_take = any(x.k == "call" and (x.a[0].endswith("::take") or x.a[0].endswith("::pop")) for x in taken.walk())
                        if state.get(f) == "E" and not is_take:
                            infeasible = True
                            break
                        if not is_take:
                            state[f] = "NE"
        if infeasible:
            continue
        out.append({"path": path, "state": state, "writes": writes, "ret": env.get(0), "entry_empty": refined_before_write})
    return b, out


def run(ctx):
    prog, chk = ctx.prog, ctx.check
    chk.explanation = (
        "Per-path abstract interpretation (domain {Empty, MaybeNonEmpty} per self field, refined on is_empty/is_some branch edges) of "
        "the terminating event methods of both method structs, enumerating every acyclic MIR path; the session flag is summarised as a "
        "truth table over the session-defining fields.")
    chk.not_decided = ["behavioural equivalence of a used context with a fresh one beyond 'every composition field is empty' "
                       "(memo and learned selections legitimately survive: C05/C09)"]
    mods = ctx.memo("modsets", lambda: ModSets(prog))
    roles = builders.method_roles(prog)
    _, ctor_names = builders.suggestion_ctor_sites(prog)
    empty_ctor = [k for k, v in ctor_names.items() if v == "empty"]

    r1 = chk.rule("C06.R1", "composition fields = fields reset by the terminating events",
                  "nothing of the old word (composed text, raw keys, pending sign) leaks into the next one")
    r2 = chk.rule("C06.R2", "every terminating exit leaves every composition field empty",
                  "after commit / finish / ctrl-backspace / a backspace returning the empty suggestion the context is like new")
    r3 = chk.rule("C06.R3", "session flag = some session-defining field is non-empty (truth table)",
                  "the context reports an ongoing session exactly while composition state exists")
    r4 = chk.rule("C06.R4", "idle back-space is inert; every other back-space makes progress",
                  "a backspace when idle starts nothing; repeated backspaces always reach the idle state")
    r5 = chk.rule("C06.R5", "invariant kept by every event: composition state (raw keys included) exists only while the session flag is true",
                  "an idle context holds nothing of an earlier word (the idle exits of R2/R4 rely on it); non-empty pre-edit text implies an ongoing session")
    r6 = chk.rule("C06.R6", "a back-space that keeps the session returns a non-empty suggestion",
                  "after a backspace that returns an empty suggestion the context reports no ongoing session")
    r7 = chk.rule("C06.R7", "every back-space path that can be taken with ctrl held ends the word",
                  "after a ctrl-backspace on a non-empty composition the context reports no ongoing session and is like new")

    for ty in sorted(roles):
        short = ty.split("::")[-1]
        term_fns = {ev: prog.method_impl(ty, ev) for ev in ("candidate_committed", "finish_input_session", "backspace_event")}
        analysed = {}
        sess0 = tuple(roles[ty]["session_fields"])
        og0 = prog.method_impl(ty, "ongoing_input_session")
        try:
            for ev, fk in term_fns.items():
                analysed[ev] = analyse_paths(prog, fk, mods, sess0, og0)
        except PathLimit as e:
            r2.undecidable("%s:paths" % short, "cannot enumerate paths of a terminating event: %s" % e)
            continue
        fields = roles[ty]["fields"]
        resettable = {n for n, t in fields.items() if t == "std::string::String" or t.startswith("std::option::Option<")}
        # S(M)
        S = set()
        terminating = []
        for ev, (b, paths) in analysed.items():
            for p in paths:
                is_empty_ret = _ret_emptiness(b, p, empty_ctor) in ("empty-ctor", "tested-empty")
                if ev == "backspace_event" and not is_empty_ret:
                    continue
                terminating.append((ev, b, p))
                for (f, op, bb) in p["writes"]:
                    if op in ("clear", "=None") and f in resettable:
                        S.add(f)
        for f in sorted(S):
            r1.ok("%s.%s" % (short, f), "reset by a terminating event")
        want = 3 if roles[ty]["buffer"] not in roles[ty]["raw"] else 1
        if len(S) < want:
            r1.violation("%s:count" % short, "only %s are ever reset by the terminating events of %s; expected %d composition fields "
                         "(composed text%s)" % (sorted(S), short, want, ", raw keys, pending sign" if want == 3 else ""),
                         common.fn_line(prog, term_fns["finish_input_session"]))
        # raw-key field and buffer must be in S
        for f in [roles[ty]["buffer"]] + roles[ty]["raw"] + [x for x in roles[ty]["session_fields"]]:
            if f not in S:
                r1.violation("%s.%s" % (short, f), "field %s (composition state by role) is never reset by a terminating event" % f,
                             common.fn_line(prog, term_fns["finish_input_session"]))
        # R2
        npaths = 0
        for (ev, b, p) in terminating:
            idle = all(p["entry_empty"].get(f) for f in roles[ty]["session_fields"])
            pid = "%s.%s:exit@%s" % (short, ev, "/".join(_cond_sig(b, p)))
            if idle and ev == "backspace_event":
                continue        # entered with every session field empty: the idle no-op exit, handled by R4
            npaths += 1
            leaks = [f for f in sorted(S) if p["state"].get(f) != "E"]
            last_bb = p["path"][-2][0] if len(p["path"]) > 1 else p["path"][-1][0]
            if leaks:
                r2.violation(pid, "this exit of %s ends the word but may leave %s non-empty (only %s)" % (
                    ev, ", ".join("self." + f for f in leaks),
                    "; ".join("%s:%s" % (f, op) for f, op, _ in p["writes"] if f in leaks) or "never reset on this path"),
                    site_of(b, last_bb), {"writes": [(f, op) for f, op, _ in p["writes"]], "state": p["state"]})
            else:
                r2.ok(pid, "all of %s empty" % sorted(S))
        # R3 truth table of the session flag
        og = prog.method_impl(ty, "ongoing_input_session")
        ob = prog.body(og)
        sess = roles[ty]["session_fields"]
        atoms = []
        for f in sess:
            def mk(f):
                def pred(x):
                    if strip_refs(x).k != "call":
                        return False
                    et = _empty_test(x)
                    return et is not None and et[0] == f
                return pred
            atoms.append((f, mk(f)))
        tt = truth_table(ob, atoms)
        if tt is None:
            r3.undecidable("%s:flag" % short, "cannot summarise the session flag as a boolean function of emptiness tests", common.fn_line(prog, og))
        else:
            # atom value = value of the test call; convert to 'empty?' using polarity of each test
            pol = {}
            for (bb, t) in ob.calls():
                args = [ob.expr_operand(a) for a in t["args"]]
                e = E("call", callee_name(t), tuple(args), bb)
                et = _empty_test(e)
                if et:
                    pol[et[0]] = et[1]
            bad = []
            for assign, val in tt.items():
                empties = [(assign[i] == pol.get(f, True)) for i, f in enumerate(sess)]
                want_val = not all(empties)
                if val != want_val:
                    bad.append(dict(zip(sess, ["empty" if e else "non-empty" for e in empties])))
            if bad:
                r3.violation("%s:flag" % short, "session flag is wrong for %s" % bad, common.fn_line(prog, og))
            else:
                r3.ok("%s:flag" % short, "ongoing ⇔ ¬(%s all empty)" % ", ".join(sess))
        # fields back-space branches on must be session fields
        bsb, bpaths = analysed["backspace_event"]
        branched = set()
        for p in bpaths:
            for c in path_conditions(bsb, p["path"]):
                et = _empty_test(c[0])
                if et:
                    branched.add(et[0])
        for f in sorted(branched):
            if f in sess:
                r3.ok("%s:branch.%s" % (short, f), "back-space branches on %s and the session flag tests it" % f)
            else:
                r3.violation("%s:branch.%s" % (short, f), "back-space treats self.%s as composition state but the session flag does not test it" % f,
                             common.fn_line(prog, og))
        for f in sess:
            if f not in S:
                r3.violation("%s:sess.%s" % (short, f), "session flag tests self.%s which no terminating event resets" % f, common.fn_line(prog, og))
        # R4
        for p in bpaths:
            is_empty_ret = _ret_emptiness(bsb, p, empty_ctor) in ("empty-ctor", "tested-empty")
            entry_idle = all(p["entry_empty"].get(f) for f in sess)
            pid = "%s.backspace@%s" % (short, "/".join(_cond_sig(bsb, p)))
            last_bb = p["path"][-2][0] if len(p["path"]) > 1 else p["path"][-1][0]
            if entry_idle:
                eff = [(f, op) for f, op, _ in p["writes"] if op not in ("clear", "=None", "shrink")]
                if eff or not is_empty_ret:
                    r4.violation(pid, "idle back-space (all of %s empty) %s" % (sess, "writes " + str(eff) if eff else "does not return the empty suggestion"),
                                 site_of(bsb, last_bb))
                else:
                    r4.ok(pid, "idle: no write, empty suggestion")
            else:
                prog_w = [(f, op) for f, op, _ in p["writes"] if f in sess and op in ("clear", "=None", "shrink")]
                if not prog_w:
                    r4.violation(pid, "a non-idle back-space path removes nothing from the session state (%s) — repeated back-space may never reach idle" % sess,
                                 site_of(bsb, last_bb))
                else:
                    r4.ok(pid, "progress: %s" % prog_w)
        # R5: the invariant  (some session field non-empty) ∨ (every composition field empty)  is kept by every non-terminating exit
        for ev in ("get_suggestion", "backspace_event", "update_engine"):
            fk = prog.method_impl(ty, ev)
            try:
                eb, epaths = analysed[ev] if ev in analysed else analyse_paths(prog, fk, mods, sess0, og0)
            except PathLimit as e:
                r5.undecidable("%s.%s:paths" % (short, ev), "cannot enumerate paths: %s" % e)
                continue
            n_touch = 0
            for p in epaths:
                kind = _ret_emptiness(eb, p, empty_ctor)
                if ev == "backspace_event" and kind in ("empty-ctor", "tested-empty"):
                    continue            # terminating or idle exits: R2 / R4
                w_S = [(f, op) for (f, op, _) in p["writes"] if f in S]
                sess_ne0 = any(p["state"].get(f) == "NE" for f in sess0) or p["state"].get(SESSION) == "NE"
                if ev != "update_engine" and p["ret"] is not None and kind not in ("empty-ctor", "tested-empty") and not sess_ne0:
                    # something that may be non-empty is handed out: the session flag must be true here
                    pid0 = "%s.%s:shown@%s" % (short, ev, "/".join(_cond_sig(eb, p)))
                    last0 = p["path"][-2][0] if len(p["path"]) > 1 else p["path"][-1][0]
                    r5.violation(pid0, "this exit of %s returns a suggestion other than the empty one although the session flag is not shown true (%s may all be empty "
                                 "here) — e.g. a list kept from the previous word is handed out by an idle context" % (ev, ", ".join(sess0)), site_of(eb, last0))
                    n_touch += 1
                    continue
                if not w_S:
                    continue            # composition state untouched: invariant carried over from entry
                n_touch += 1
                pid = "%s.%s:inv@%s" % (short, ev, "/".join(_cond_sig(eb, p)))
                last_bb = p["path"][-2][0] if len(p["path"]) > 1 else p["path"][-1][0]
                harmless = all((f not in sess0) and op in ("clear", "=None", "shrink") for (f, op) in w_S)
                sess_ne = any(p["state"].get(f) == "NE" for f in sess0) or p["state"].get(SESSION) == "NE"
                all_e = all(p["state"].get(f) == "E" for f in S)
                if harmless:
                    r5.ok(pid, "only shrinks non-session fields")
                elif sess_ne:
                    r5.ok(pid, "session flag provably true at this exit")
                elif all_e:
                    r5.ok(pid, "every composition field empty at this exit")
                else:
                    grown = sorted({f for (f, op) in w_S if f not in sess0 and op not in ("clear", "=None", "shrink")})
                    r5.violation(pid, "this exit of %s writes %s but neither shows the session flag true (%s may all be empty here) nor every composition field empty — "
                                 "%s" % (ev, sorted({f for f, _ in w_S}), ", ".join(sess0),
                                         ("self.%s can keep raw keys of a key that composed nothing; an idle back-space does not clear them and they leak into the next word"
                                          % grown[0]) if grown else "composition state can outlive the session"),
                                 site_of(eb, last_bb), {"writes": w_S, "state": {k: v for k, v in p["state"].items()}})
            if n_touch == 0:
                r5.ok("%s.%s:inv" % (short, ev), "no non-terminating exit writes composition state")
        # R6: non-terminating back-space exits return something visible
        bsb6, bpaths6 = analysed["backspace_event"]
        sub02 = None
        for p in bpaths6:
            kind = _ret_emptiness(bsb6, p, empty_ctor)
            if kind in ("empty-ctor", "tested-empty"):
                continue
            pid = "%s.backspace:visible@%s" % (short, "/".join(_cond_sig(bsb6, p)))
            last_bb = p["path"][-2][0] if len(p["path"]) > 1 else p["path"][-1][0]
            if kind == "tested-nonempty":
                r6.ok(pid, "returned only after Suggestion::is_empty() was false")
                continue
            ret = strip_refs(p["ret"]) if p["ret"] is not None else None
            srcs = _return_sources(prog, ret, ctor_names) if ret is not None else None
            if not srcs:
                r6.undecidable(pid, "this back-space exit returns %r, neither the empty suggestion nor a recognised constructor" % (ret,), site_of(bsb6, last_bb))
                continue
            verdicts = []
            for (cname, call) in srcs:
                if cname == "list":
                    if sub02 is None:
                        from .c01 import subrun
                        sub02 = subrun(ctx, "c02")
                    if sub02.get("C02.R3") or sub02.get("*"):
                        verdicts.append(("undecidable", "a list suggestion is returned but C02.R3 (lists are non-empty at construction) does not hold"))
                    else:
                        verdicts.append(("ok", "list suggestion: non-empty at construction (C02.R3)"))
                elif cname == "lonely":
                    txt = peel_conv(call.a[1][0])
                    spx = self_path(txt)
                    if spx and len(spx) == 1 and p["state"].get(spx[0]) == "NE":
                        verdicts.append(("ok", "lonely suggestion of self.%s, which is non-empty here" % spx[0]))
                    elif any(x.k == "call" and ("okkhor::" in x.a[0] or x.a[0] in prog.fns) for x in txt.walk()):
                        from . import phonetic as _ph
                        imgs, ver = _ph.okkhor_punct_images()
                        erasing = sorted(f for f, reps in (imgs or []) if any(r == "" for r in reps))
                        if imgs is None:
                            verdicts.append(("undecidable", "okkhor's pattern table not found"))
                        elif erasing:
                            for f in erasing:
                                verdicts.append(("violation:okkhor-erases:%s" % "-".join("%04X" % ord(c) for c in f),
                                                 "the lonely suggestion returned by this back-space is the transliteration of the remaining text, and okkhor %s turns `%s` "
                                                 "into nothing: with only that left the suggestion is empty while the session flag stays true" % (ver, f)))
                        else:
                            verdicts.append(("ok", "transliteration of a non-empty text; okkhor %s has no erasing pattern" % ver))
                    else:
                        verdicts.append(("undecidable", "cannot tell whether the lonely text %r is non-empty" % (txt,)))
                else:
                    verdicts.append(("undecidable", "returns the result of %s" % cname))
            bad = [v for v in verdicts if v[0] != "ok"]
            if not bad:
                r6.ok(pid, "; ".join(sorted({v[1] for v in verdicts})))
            for (st, msg) in bad:
                if st == "undecidable":
                    r6.undecidable(pid, msg, site_of(bsb6, last_bb))
                else:
                    r6.violation("%s.backspace:visible:%s" % (short, st.split(":", 1)[1]), msg, site_of(bsb6, last_bb))
        # R7: ctrl + back-space on a non-idle context always ends the word
        bsf = prog.method_impl(ty, "backspace_event")
        ins = prog.fns[bsf].get("inputs") or []
        ctrl_idx = [i for i, t_ in enumerate(ins, start=1) if t_ == "bool"]
        if len(ctrl_idx) != 1:
            r7.undecidable("%s:ctrl" % short, "the ctrl parameter of backspace_event (its only bool) was not found")
        else:
            ci = ctrl_idx[0]
            bsb7, bpaths7 = analysed["backspace_event"]
            n7 = 0
            for p in bpaths7:
                ctrl_false = False
                for c in path_conditions(bsb7, p["path"]):
                    d = strip_refs(c[0])
                    pol = True
                    while d.k == "un" and d.a[0] == "Not":
                        d = strip_refs(d.a[1])
                        pol = not pol
                    if d.k == "arg" and d.a[0] == ci:
                        bv = bool_of(c)
                        if bv is not None and (bv == pol) is False:
                            ctrl_false = True
                if ctrl_false:
                    continue            # this path is only taken without ctrl
                n7 += 1
                kind = _ret_emptiness(bsb7, p, empty_ctor)
                pid = "%s.ctrl-backspace@%s" % (short, "/".join(_cond_sig(bsb7, p)))
                last_bb = p["path"][-2][0] if len(p["path"]) > 1 else p["path"][-1][0]
                all_e = all(p["state"].get(f) == "E" for f in S)
                if all(p["entry_empty"].get(f) for f in sess0) and kind in ("empty-ctor", "tested-empty"):
                    r7.ok(pid, "idle on entry: nothing to delete (R4 / R5)")
                elif kind in ("empty-ctor", "tested-empty") and all_e:
                    r7.ok(pid, "can be taken with ctrl: ends the word (every composition field empty, empty suggestion)")
                else:
                    r7.violation(pid, "this back-space path can be taken with ctrl held but %s — ctrl+back-space must delete the whole word"
                                 % ("keeps " + ", ".join("self." + f for f in sorted(S) if p["state"].get(f) != "E") if not all_e else "returns a non-empty suggestion"),
                                 site_of(bsb7, last_bb))
            if n7 == 0:
                r7.undecidable("%s:ctrl" % short, "no back-space path can be taken with ctrl held")
    r1.floor(4, "3 fixed + 1 phonetic composition fields")
    r7.floor(4, "ctrl paths of both methods")

    # ---------------- R8 every event of the context reaches the method object
    r8 = chk.rule("C06.R8", "every context entry point (key, commit, finish, back-space, session query) delegates to the method object",
                  "the session the properties speak of is the method object's: an entry point that skips it, rewrites an argument or answers from a copy shows a different session")
    common.context_delegation(r8, prog, ["get_suggestion", "candidate_committed", "finish_input_session", "backspace_event", "ongoing_input_session"])
    r8.floor(5, "five entry points")
    r5.floor(4, "key and back-space events of both methods")
    r6.floor(3, "non-terminating back-space exits (fixed ≥2, phonetic ≥1)")
    r2.floor(8, "terminating exits: fixed commit 1, finish 1, backspace ≥3; phonetic commit ≥1, finish 1, backspace ≥2")
    r3.floor(3, "2 session flags + at least one branch field")
    r4.floor(5, "back-space paths of both methods (fixed ≥3, phonetic ≥2)")


def _return_sources(prog, ret, ctor_names, depth=0):
    """The Suggestion constructor calls a returned value can come from: [(ctor kind, call E)] — follows local callees invoked on the
    same `self` (their own return sites); None if some source is not a constructor call."""
    ret = strip_refs(ret)
    if ret.k == "phi":
        out = []
        for x in ret.a[0]:
            r = _return_sources(prog, x, ctor_names, depth)
            if r is None:
                return None
            out.extend(r)
        return out
    if ret.k != "call":
        return None
    if ret.a[0] in ctor_names:
        return [(ctor_names[ret.a[0]], ret)]
    g = ret.a[0]
    if g in prog.fns and depth < 4 and ret.a[1] and self_path(ret.a[1][0]) == ():
        gb = prog.body(g)
        out = []
        for d in gb.defs.get(0, []):
            if d[2] == "call" and not d[3]["dest"]["p"]:
                t = d[3]
                e = E("call", callee_name(t), tuple(gb.expr_operand(a) for a in t["args"]), d[0], t=t)
                r = _return_sources(prog, e, ctor_names, depth + 1)
            elif d[2] == "assign" and not d[3]["place"]["p"]:
                r = _return_sources(prog, gb.expr_rvalue(d[3]["rv"]), ctor_names, depth + 1)
            else:
                r = None
            if r is None:
                return None
            out.extend(r)
        return out or None
    return None


def _ret_emptiness(b, p, empty_ctor):
    """'empty-ctor' (returns Suggestion::empty()), 'tested-empty' / 'tested-nonempty' (the returned value passed Suggestion::is_empty on this path), or None."""
    ret = strip_refs(p["ret"]) if p["ret"] is not None else None
    if ret is not None and ret.k == "call" and ret.a[0] in empty_ctor:
        return "empty-ctor"
    if ret is None:
        return None
    for c in path_conditions(b, p["path"]):
        d = strip_refs(c[0])
        pol = True
        while d.k == "un" and d.a[0] == "Not":
            d = strip_refs(d.a[1])
            pol = not pol
        if d.k == "call" and d.a[0].endswith("Suggestion::is_empty") and d.a[1] and strip_refs(d.a[1][0]) == ret:
            bv = bool_of(c)
            if bv is not None:
                return "tested-empty" if (bv == pol) else "tested-nonempty"
    return None


def _cond_sig(b, p):
    sig = []
    for (bb, vals) in p["path"]:
        if vals is not None:
            sig.append("bb%d=%s" % (bb, "o" if vals == "otherwise" else ",".join(map(str, vals))))
    return sig
