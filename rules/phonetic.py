"""Role locators for the phonetic method's state (memo, learned store, user auto-correct) and
small shared helpers for C05 / C09 / C10 / C11."""
import os
import re

from engine.mir import E, apath, strip_refs, is_const, const_val, callee_name, self_path
from engine.analyses import peel_conv, contains_call, direct_writes
from engine.program import AnchorError
from engine import tables
from . import builders

MEMO_TY = "std::collections::HashMap<std::string::String, std::vec::Vec<suggestion::Rank>, ahash::RandomState>"
STRMAP_TY = "std::collections::HashMap<std::string::String, std::string::String, ahash::RandomState>"


def roles(prog):
    """Returns dict: method struct, suggestion struct, field names by role."""
    ph = builders.phonetic_ty(prog)
    pf = {f["name"]: f["ty"] for f in prog.struct_fields(ph)}
    # the suggestion-engine struct = the field whose type is a local struct holding the memo
    sug_ty = None
    sug_field = None
    for n, t in pf.items():
        if t in prog.adts and any(f["ty"] == MEMO_TY for f in prog.struct_fields(t)):
            sug_ty, sug_field = t, n
    if not sug_ty:
        raise AnchorError("suggestion-engine struct (holds HashMap<String, Vec<Rank>>) not found in %s" % ph)
    sf = {f["name"]: f["ty"] for f in prog.struct_fields(sug_ty)}
    memo = [n for n, t in sf.items() if t == MEMO_TY]
    uac = [n for n, t in sf.items() if t == STRMAP_TY]
    store = [n for n, t in pf.items() if t == STRMAP_TY]
    if len(memo) != 1 or len(uac) != 1 or len(store) != 1:
        raise AnchorError("memo / user auto-correct / learned store fields: %s / %s / %s" % (memo, uac, store))
    rank_list = [n for n, t in sf.items() if t == "std::vec::Vec<suggestion::Rank>"]
    scratch = [n for n, t in sf.items() if t == "std::string::String"]
    parsers = [n for n, t in sf.items() if t == "okkhor::parser::Parser"]
    # commit-comparison field: usize field compared with the index parameter in candidate_committed
    cc = prog.method_impl(ph, "candidate_committed")
    return {"method_ty": ph, "sug_ty": sug_ty, "sug_field": sug_field, "memo": memo[0], "user_autocorrect": uac[0], "store": store[0],
            "rank_list": rank_list[0] if len(rank_list) == 1 else None, "scratch": scratch, "parsers": parsers,
            "commit": cc, "new": prog.fn_named("new", self_ty=ph), "update": prog.method_impl(ph, "update_engine"),
            "get_suggestion": prog.method_impl(ph, "get_suggestion"), "backspace": prog.method_impl(ph, "backspace_event"),
            "finish": prog.method_impl(ph, "finish_input_session"), "fields": pf, "sug_fields": sf}


def okkhor_punct_images():
    """Replacement strings of okkhor's phonetic patterns whose `find` has no letter or digit:
    [(find, [replacements])] read from the pinned source."""
    src, ver = tables.dep_src("okkhor")
    if not src:
        return None, None
    txt = open(os.path.join(src, "src", "patterns.rs"), encoding="utf-8").read()
    out = []
    for m in re.finditer(r'Pattern::simple_replace\("((?:[^"\\]|\\.)*)",\s*"((?:[^"\\]|\\.)*)"\)', txt):
        out.append((_unesc(m.group(1)), [_unesc(m.group(2))]))
    for m in re.finditer(r'Pattern\s*\{(.*?)\n    \},', txt, flags=re.S):
        blk = m.group(1)
        f = re.search(r'find:\s*"((?:[^"\\]|\\.)*)"', blk)
        if not f:
            continue
        reps = re.findall(r'(?:default_replacement|replace_with):\s*"((?:[^"\\]|\\.)*)"', blk)
        out.append((_unesc(f.group(1)), [_unesc(r) for r in reps]))
    return [(f, r) for f, r in out if f and not any(c.isalnum() for c in f)], ver


def _unesc(s):
    return s.replace('\\"', '"').replace("\\\\", "\\")


def field_writes(prog, fnkey, mods, param=1, body=None):
    """[(field path, op, bb)] writes to fields of parameter `param` by fnkey, including through local callees."""
    b = body if body is not None else prog.body(fnkey)
    out = []
    for w in direct_writes(b):
        if w["root"].k != "arg" or w["root"].a[0] != param:
            continue
        if w["op"] in ("assign", "setdiscr"):
            out.append((w["fields"], "assign", w["bb"], w))
        else:
            t = w["term"]
            got = mods.writes_of_call(b, w["bb"], t)
            for (root, fields, via) in got:
                if root.k == "arg" and root.a[0] == param:
                    out.append((fields, via, w["bb"], w))
    return out


def parser_fields(prog):
    """{field name: 'phonetic' | 'regex'} by the okkhor constructor that initialises the field."""
    out = {}
    for k, f in prog.fns.items():
        if f.get("kind") == "Closure":
            continue
        b = prog.body(k)
        ret = strip_refs(b.expr_local(0))
        if ret.k == "agg" and str(ret.a[0]).startswith("adt:") and ret.t and "fields" in ret.t:
            for fname, op in zip(ret.t["fields"], ret.a[1]):
                o = strip_refs(op)
                if o.k == "call" and o.a[0].endswith("Parser::new_phonetic"):
                    out[fname] = "phonetic"
                elif o.k == "call" and "Parser" in o.a[0] and "new_regex" in o.a[0]:
                    out[fname] = "regex"
    return out


def is_phonetic_parser(prog, e):
    spx = self_path(e)
    if spx is None:
        r, f = apath(e)
        spx = f
    return bool(spx) and parser_fields(prog).get(spx[-1]) == "phonetic"


APPEND_OPS = ("::push_str", "::push", "::insert", "::insert_str", "::extend", "::add_assign", "::write_str", "::write_fmt", "::write_char")
RESET_OPS = ("String::clear",)


def loop_carried_strings(b, loop_has):
    """Strings appended to inside a loop (selected by loop_has(body blocks)) whose contents can survive into the next
    iteration's appends.  Returns [(local, name, status, why, bb)] with status 'fresh' | 'reset' | 'exits' | 'carried'.

    A String local counts when a `&mut local` is handed to an appending call inside the loop body.
    fresh   : the local is (re)defined inside the loop body by an assignment that dominates the append;
    reset   : every way round the back edge to another append passes a clear() of it;
    exits   : no append can reach the loop header again (the loop is left after the first append);
    carried : some append reaches, around the back edge and without a reset, an append of the next iteration."""
    out = []
    for h, tails in b.loops().items():
        body = b.loop_body(h, tails)
        if not loop_has(body):
            continue
        # &mut local temporaries
        mutref = {}
        for (i, j, s) in b.stmts():
            if s["k"] == "assign" and not s["place"]["p"] and s["rv"]["k"] == "ref" and s["rv"].get("mut") in (True, "mut", "Mut") and not s["rv"]["place"]["p"] \
                    and s["rv"]["place"]["ty"] == "std::string::String":
                mutref[s["place"]["l"]] = s["rv"]["place"]["l"]
        appends, resets = {}, {}
        for x in body:
            t = b.blocks[x]["term"]
            if t["k"] != "call" or not t["args"] or t["args"][0]["k"] == "const" or t["args"][0]["place"]["p"]:
                continue
            L = mutref.get(t["args"][0]["place"]["l"])
            if L is None:
                continue
            n = callee_name(t)
            if any(n.endswith(o) for o in RESET_OPS):
                resets.setdefault(L, set()).add(x)
            elif any(n.endswith(o) for o in APPEND_OPS):
                appends.setdefault(L, set()).add(x)
        for L, apps in sorted(appends.items()):
            name = b.local_name(L) if hasattr(b, "local_name") else "_%d" % L
            rs = set(resets.get(L, set()))
            # whole-local (re)definitions inside the loop body count as resets, too
            for d in b.defs.get(L, []):
                if d[0] in body and d[2] in ("assign", "call"):
                    st = d[3]
                    whole = (d[2] == "assign" and not st["place"]["p"]) or (d[2] == "call" and not st["dest"]["p"])
                    if whole:
                        rs.add(d[0])
            status, why, at = None, None, None
            for a in sorted(apps):
                # nodes reachable from a (after it) inside the body without passing a reset
                seen, work = set(), [y for y in b.bsucc[a] if y in body]
                while work:
                    y = work.pop()
                    if y in seen or y in rs:
                        continue
                    seen.add(y)
                    work.extend(z for z in b.bsucc[y] if z in body)
                if h not in seen:
                    continue
                # went round the back edge without a reset: is an append reachable from the header without a reset?
                seen2, work = set(), [h]
                hit = None
                while work:
                    y = work.pop()
                    if y in seen2 or y in rs:
                        continue
                    seen2.add(y)
                    if y in apps:
                        hit = y
                        break
                    work.extend(z for z in b.bsucc[y] if z in body)
                if hit is not None:
                    status, why, at = "carried", "what was appended in one iteration is still there when the next iteration appends", a
                    break
            if status is None:
                fresh_defs = [d for d in b.defs.get(L, []) if d[0] in body]
                if fresh_defs:
                    status, why = "fresh", "(re)created inside the loop before it is appended to"
                elif rs:
                    status, why = "reset", "cleared before the next iteration appends"
                else:
                    status, why = "exits", "the loop is left after the first append"
                at = sorted(apps)[0]
            out.append((L, name, status, why, at))
    return out


def autocorrect_lookup(prog):
    """The auto-correct look-up as an expression, wherever it is written (a helper's return value or in place in the builder):
    [(fn key, body, E)] — E is the outermost Option<&…> value built from a `get` on the user auto-correct map."""
    R = roles(prog)
    out = []
    for k, f in prog.fns.items():
        if f.get("kind") == "Closure" or (f.get("impl") or {}).get("self") != R["sug_ty"]:
            continue
        b = prog.body(k)

        def is_user_get(x):
            return x.k == "call" and x.a[0].endswith("::get") and "HashMap" in x.a[0] and x.a[1] and self_path(x.a[1][0]) == (R["user_autocorrect"],)
        best = None
        for (bb, t) in b.calls():
            if t["dest"]["p"] or not t["dest"]["ty"].startswith("std::option::Option<&"):
                continue
            args = tuple(b.expr_operand(a) for a in t["args"])
            e = E("call", callee_name(t), args, bb, t=t)
            if any(is_user_get(x) for x in e.walk()):
                size = sum(1 for _ in e.walk())
                if best is None or size > best[0]:
                    best = (size, e)
        if best:
            out.append((k, b, best[1]))
    return out


def is_autocorrect_value(prog, e, depth=0):
    """e's provenance includes the user auto-correct map or the bundled auto-correct accessor (possibly through a local look-up helper)."""
    R = roles(prog)
    for x in e.walk():
        if x.k != "call":
            continue
        if x.a[0].endswith("::get") and "HashMap" in x.a[0] and x.a[1] and self_path(x.a[1][0]) == (R["user_autocorrect"],):
            return True
        if x.a[0] == "data::Data::search_corrected":
            return True
        if x.a[0] in prog.fns and depth < 3 and (prog.fns[x.a[0]].get("output") or "").startswith("std::option::Option<&") \
                and prog.fns[x.a[0]].get("kind") != "Closure":
            if is_autocorrect_value(prog, prog.body(x.a[0]).expr_local(0), depth + 1):
                return True
        if x.k == "call" and x.a[0].endswith("::or_else"):
            for a in x.a[1]:
                a = strip_refs(a)
                if a.k == "agg" and str(a.a[0]).startswith("closure:") and depth < 3:
                    if is_autocorrect_value(prog, prog.body(a.a[0][8:]).expr_local(0), depth + 1):
                        return True
    return False


def autocorrect_paths(prog):
    """Path summary of the auto-correct look-up, whatever its spelling (combinator chain, `match` with a guard, nested if-let):
    {'fn': key, 'table': {(ascii, nul): kept?}, 'user_first': bool, 'bundled': bool} or None.
    Every return path of the (smallest) function that consults the user map is classified by what it returns — the user's entry, the bundled
    entry, nothing — and by the tests of the user's entry it passed (present?, is_ascii?, contains NUL?)."""
    if getattr(prog, "_ac_paths", False) is not False:
        return prog._ac_paths
    from engine.analyses import sym_paths, PathLimit, contains_call
    from . import roles as _roles
    R = roles(prog)
    res = None

    def is_user_get(x):
        return x.k == "call" and x.a[0].endswith("::get") and "HashMap" in x.a[0] and x.a[1] and self_path(x.a[1][0]) == (R["user_autocorrect"],)
    cands = []
    for k, f in prog.fns.items():
        if f.get("kind") == "Closure" or (f.get("impl") or {}).get("self") != R["sug_ty"]:
            continue
        b0 = prog.raw_body(k)
        if any(callee_name(t).endswith("::get") and "HashMap" in callee_name(t) and self_path(b0.expr_operand(t["args"][0])) == (R["user_autocorrect"],) for (_, t) in b0.calls()):
            cands.append((len(b0.blocks), k))
            continue
        # the map wrapped in a helper type with a look-up method of its own: seen with the helper's plumbing spliced in
        b1 = prog.body(k)
        if b1 is not b0 and any(callee_name(t).endswith("::get") and "HashMap" in callee_name(t) and self_path(b1.expr_operand(t["args"][0])) == (R["user_autocorrect"],)
                                for (_, t) in b1.calls()):
            cands.append((len(b0.blocks), k))
    for _, k in sorted(cands)[:1]:
        b = _roles.ib_paths(prog, k)
        try:
            paths = sym_paths(b, 0, 4000)
        except PathLimit:
            break
        rows = []
        for path, env, conds in paths:
            present = asc = nul = None
            for (d, vals, allv, ty, bb) in conds:
                d0 = strip_refs(d)
                neg = False
                while d0.k == "un" and d0.a[0] == "Not":
                    d0 = strip_refs(d0.a[1])
                    neg = not neg
                if d0.k == "discr" and is_user_get(strip_refs(d0.a[0])):
                    some = vals == (1,) or (vals == "otherwise" and 0 in allv and 1 not in allv)
                    none = vals == (0,) or (vals == "otherwise" and 1 in allv and 0 not in allv)
                    present = True if some else (False if none else present)
                    continue
                if ty != "bool" or d0.k != "call" or not any(is_user_get(x) for x in d0.walk()):
                    continue
                bv = (vals == (1,) or (vals == "otherwise" and allv == (0,)))
                bv = (not bv) if neg else bv
                if d0.a[0].endswith("is_ascii"):
                    asc = bv
                elif d0.a[0].endswith("::contains") and len(d0.a[1]) == 2:
                    c = strip_refs(d0.a[1][1])
                    if (is_const(c, "char") and const_val(c) == "\x00") or (is_const(c, "str") and const_val(c) == "\x00"):
                        nul = bv
            ret = env.get(0)
            r0 = strip_refs(ret) if ret is not None else None
            kind = "none"
            if r0 is not None:
                has_user = any(is_user_get(x) for x in r0.walk())
                has_bundled = contains_call(r0, lambda n: n == "data::Data::search_corrected") is not None
                if r0.k == "agg" and str(r0.a[0]).endswith("Option::None"):
                    kind = "none"
                elif has_bundled and not has_user:
                    kind = "bundled"
                elif has_user and not has_bundled:
                    kind = "user"
                elif has_user or has_bundled:
                    kind = "mixed"
                else:
                    kind = "other"
            consulted = any(b.blocks[bb_]["term"]["k"] == "call" and callee_name(b.blocks[bb_]["term"]) == "data::Data::search_corrected" for (bb_, _) in path)
            rows.append((present, asc, nul, kind, consulted))
        if not rows or any(r_[3] in ("mixed", "other") for r_ in rows):
            break
        table = {}
        for a_ in (True, False):
            for n_ in (True, False):
                table[(a_, n_)] = any(r_[3] == "user" and r_[0] is not False and r_[1] in (None, a_) and r_[2] in (None, n_) for r_ in rows)
        # the bundled entry is consulted only where the user's entry is absent or rejected
        user_first = True
        for r_ in rows:
            if r_[3] in ("bundled", "none") and r_[0] is True:
                # a present user entry was passed over: only allowed where the filter table rejects it for every value consistent with the path
                consistent = [(a_, n_) for a_ in (True, False) for n_ in (True, False) if r_[1] in (None, a_) and r_[2] in (None, n_)]
                if any(table[c_] for c_ in consistent) and (r_[1] is None and r_[2] is None):
                    user_first = False
        # … and where the user's entry is rejected (or absent) the bundled table is consulted: a rejected user entry must not hide the bundled one
        for r_ in rows:
            if r_[3] != "user" and not r_[4]:
                user_first = False
        res = {"fn": k, "table": table, "user_first": user_first and any(r_[3] == "user" for r_ in rows), "bundled": any(r_[3] == "bundled" for r_ in rows)}
    prog._ac_paths = res
    return res


def autocorrect_filter(prog):
    """The predicate user auto-correct values must pass before they are used, as a truth table over
    (is_ascii(value), value contains NUL): {(ascii, nul): kept?}; (closure key, table) or (None, None)."""
    ck0, tt0 = _autocorrect_filter_shape(prog)
    if tt0 is not None:
        return ck0, tt0
    ap = autocorrect_paths(prog)
    if ap is not None:
        return ap["fn"], ap["table"]
    return None, None


def _autocorrect_filter_shape(prog):
    from engine.analyses import truth_table
    lookups = autocorrect_lookup(prog)
    if len(lookups) != 1:
        return None, None
    ret = strip_refs(lookups[0][2])
    user_branch = ret.a[1][0] if ret.k == "call" and ret.a[0].endswith("::or_else") else ret
    for x in user_branch.walk():
        if x.k == "call" and x.a[0].endswith("::filter") and strip_refs(x.a[1][1]).k == "agg" and str(strip_refs(x.a[1][1]).a[0]).startswith("closure:"):
            ck = strip_refs(x.a[1][1]).a[0][8:]
            cb = prog.body(ck)

            def is_ascii(e):
                return e.k == "call" and e.a[0].endswith("is_ascii")

            def has_nul(e):
                if e.k != "call" or not e.a[0].endswith("::contains") or len(e.a[1]) != 2:
                    return False
                c = strip_refs(e.a[1][1])
                return (is_const(c, "char") and const_val(c) == "\x00") or (is_const(c, "str") and const_val(c) == "\x00")
            tt = truth_table(cb, [("ascii", is_ascii), ("nul", has_nul)])
            return ck, tt
    return None, None
