"""Role locators for the phonetic method's state (memo, learned store, user auto-correct) and
small shared helpers for C05 / C09 / C10 / C11."""
import os
import re

from engine.mir import E, apath, strip_refs, is_const, const_val, callee_name, self_path
from engine.analyses import peel_conv, contains_call, direct_writes
from engine.program import AnchorError
from engine import tables
from . import builders

MEMO_TY = "std::collections::HashMap<std::string::String, std::vec::Vec<suggestion::Rank>, ahash::RandomState>"
STRMAP_TY = "std::collections::HashMap<std::string::String, std::string::String, ahash::RandomState>"


def roles(prog):
    """Returns dict: method struct, suggestion struct, field names by role."""
    ph = builders.phonetic_ty(prog)
    pf = {f["name"]: f["ty"] for f in prog.struct_fields(ph)}
    # the suggestion-engine struct = the field whose type is a local struct holding the memo
    sug_ty = None
    sug_field = None
    for n, t in pf.items():
        if t in prog.adts and any(f["ty"] == MEMO_TY for f in prog.struct_fields(t)):
            sug_ty, sug_field = t, n
    if not sug_ty:
        raise AnchorError("suggestion-engine struct (holds HashMap<String, Vec<Rank>>) not found in %s" % ph)
    sf = {f["name"]: f["ty"] for f in prog.struct_fields(sug_ty)}
    memo = [n for n, t in sf.items() if t == MEMO_TY]
    uac = [n for n, t in sf.items() if t == STRMAP_TY]
    store = [n for n, t in pf.items() if t == STRMAP_TY]
    if len(memo) != 1 or len(uac) != 1 or len(store) != 1:
        raise AnchorError("memo / user auto-correct / learned store fields: %s / %s / %s" % (memo, uac, store))
    rank_list = [n for n, t in sf.items() if t == "std::vec::Vec<suggestion::Rank>"]
    scratch = [n for n, t in sf.items() if t == "std::string::String"]
    parsers = [n for n, t in sf.items() if t == "okkhor::parser::Parser"]
    # commit-comparison field: usize field compared with the index parameter in candidate_committed
    cc = prog.method_impl(ph, "candidate_committed")
    return {"method_ty": ph, "sug_ty": sug_ty, "sug_field": sug_field, "memo": memo[0], "user_autocorrect": uac[0], "store": store[0],
            "rank_list": rank_list[0] if len(rank_list) == 1 else None, "scratch": scratch, "parsers": parsers,
            "commit": cc, "new": prog.fn_named("new", self_ty=ph), "update": prog.method_impl(ph, "update_engine"),
            "get_suggestion": prog.method_impl(ph, "get_suggestion"), "backspace": prog.method_impl(ph, "backspace_event"),
            "finish": prog.method_impl(ph, "finish_input_session"), "fields": pf, "sug_fields": sf}


def okkhor_punct_images():
    """Replacement strings of okkhor's phonetic patterns whose `find` has no letter or digit:
    [(find, [replacements])] read from the pinned source."""
    src, ver = tables.dep_src("okkhor")
    if not src:
        return None, None
    txt = open(os.path.join(src, "src", "patterns.rs"), encoding="utf-8").read()
    out = []
    for m in re.finditer(r'Pattern::simple_replace\("((?:[^"\\]|\\.)*)",\s*"((?:[^"\\]|\\.)*)"\)', txt):
        out.append((_unesc(m.group(1)), [_unesc(m.group(2))]))
    for m in re.finditer(r'Pattern\s*\{(.*?)\n    \},', txt, flags=re.S):
        blk = m.group(1)
        f = re.search(r'find:\s*"((?:[^"\\]|\\.)*)"', blk)
        if not f:
            continue
        reps = re.findall(r'(?:default_replacement|replace_with):\s*"((?:[^"\\]|\\.)*)"', blk)
        out.append((_unesc(f.group(1)), [_unesc(r) for r in reps]))
    return [(f, r) for f, r in out if f and not any(c.isalnum() for c in f)], ver


def _unesc(s):
    return s.replace('\\"', '"').replace("\\\\", "\\")


def field_writes(prog, fnkey, mods, param=1, body=None):
    """[(field path, op, bb)] writes to fields of parameter `param` by fnkey, including through local callees."""
    b = body if body is not None else prog.body(fnkey)
    out = []
    for w in direct_writes(b):
        if w["root"].k != "arg" or w["root"].a[0] != param:
            continue
        if w["op"] in ("assign", "setdiscr"):
            out.append((w["fields"], "assign", w["bb"], w))
        else:
            t = w["term"]
            got = mods.writes_of_call(b, w["bb"], t)
            for (root, fields, via) in got:
                if root.k == "arg" and root.a[0] == param:
                    out.append((fields, via, w["bb"], w))
    return out


def parser_fields(prog):
    """{field name: 'phonetic' | 'regex'} by the okkhor constructor that initialises the field."""
    out = {}
    for k, f in prog.fns.items():
        if f.get("kind") == "Closure":
            continue
        b = prog.body(k)
        ret = strip_refs(b.expr_local(0))
        if ret.k == "agg" and str(ret.a[0]).startswith("adt:") and ret.t and "fields" in ret.t:
            for fname, op in zip(ret.t["fields"], ret.a[1]):
                o = strip_refs(op)
                if o.k == "call" and o.a[0].endswith("Parser::new_phonetic"):
                    out[fname] = "phonetic"
                elif o.k == "call" and "Parser" in o.a[0] and "new_regex" in o.a[0]:
                    out[fname] = "regex"
    return out


def is_phonetic_parser(prog, e):
    spx = self_path(e)
    if spx is None:
        r, f = apath(e)
        spx = f
    return bool(spx) and parser_fields(prog).get(spx[-1]) == "phonetic"
