"""Leaf roles: functions the rules use as atomic vocabulary (never inlined), found by type/signature
predicates so that renaming does not matter.  Every other local function is a helper and is spliced
into its callers before a rule looks at control flow (engine/inline.py)."""
from engine.inline import inlined_body

LEAF_SELF_TYPES = ("config::Config", "data::Data", "utility::SplittedString", "suggestion::Suggestion", "suggestion::Rank",
                   "context::RitiContext")


CONVERSION_TRAITS = ("std::convert::From", "std::convert::Into", "std::default::Default", "std::convert::AsRef", "std::borrow::Borrow",
                     "std::ops::Deref", "std::convert::TryFrom")


def leaf_roles(prog):
    if getattr(prog, "_leaf_roles", None) is not None:
        return prog._leaf_roles
    out = set()
    plumbing = prog.plumbing_fns()
    for k, f in prog.fns.items():
        imp = f.get("impl") or {}
        st = imp.get("self") or ""
        if k in plumbing:
            continue                                     # small loop-free methods / conversions of private helper types: spliced in everywhere
        if imp.get("trait") and not (imp["trait"] in CONVERSION_TRAITS and not any(st.startswith(t) for t in LEAF_SELF_TYPES)):
            out.add(k)                                   # trait impl methods (Method, Ord, Display, Utility, …) — but a conversion
                                                         # (From / Default / AsRef …) into a private helper type is plumbing and is spliced in
        elif any(st.startswith(t) for t in LEAF_SELF_TYPES):
            out.add(k)                                   # accessors, constructors, getters/setters, data look-ups
        elif st.startswith("(dyn "):
            out.add(k)
        elif f.get("output") in ("Self", st) and st:
            out.add(k)                                   # constructors of the method / engine structs
        elif f.get("inputs") == ["char"] and f.get("output") == "bool":
            out.add(k)                                   # character-class predicates
        elif f.get("inputs") == ["char"] and f.get("output") in ("std::option::Option<char>", "char"):
            out.add(k)                                   # character → character tables (evaluated as finite maps, never spliced in)
        elif f.get("no_mangle"):
            out.add(k)
        elif len(f.get("inputs") or []) == 1 and (f["inputs"][0].startswith("utility::SplittedString")) and (f.get("output") or "").startswith("utility::SplittedString"):
            out.add(k)                                   # the quoter
        elif len(f.get("inputs") or []) == 2 and f["inputs"][0].startswith("&mut std::vec::Vec<") and f.get("output") == "()" and f.get("generics"):
            out.add(k)                                   # checked push helper
        elif f.get("inputs") == ["u8"] and f.get("output") == "(bool, bool)":
            out.add(k)                                   # modifier decoder
        elif f.get("inputs") == ["u16"] and f.get("output") in ("char", "std::option::Option<char>"):
            out.add(k)                                   # key→character table (and its parts)
        elif len(f.get("inputs") or []) == 4 and f["inputs"][1] == "u16" and f["inputs"][3] == "bool":
            out.add(k)                                   # key→layout-entry table
    # the word-ending events of a method object (finish / commit) called by a sibling event (`self.finish_input_session()` instead of repeating the
    # three resets) are plumbing, not vocabulary: such a statically resolved call is spliced in like any private helper
    for k, f in prog.fns.items():
        imp = f.get("impl") or {}
        if imp.get("trait") == "context::Method" and f.get("name") in ("finish_input_session", "candidate_committed") and k in out \
                and len(f["mir"]["blocks"]) <= 60:
            out.discard(k)
    prog._leaf_roles = out
    return out


def ib(prog, key, extra_stop=(), allow=(), max_callee_blocks=None):
    """Inlined body of `key`: every local callee that is not a leaf role (or in extra_stop) is spliced in.  Cached."""
    cache = prog.__dict__.setdefault("_ib_cache", {})
    ck = (key, tuple(sorted(extra_stop)), tuple(sorted(allow)), max_callee_blocks)
    if ck not in cache:
        leaf = leaf_roles(prog)
        es = set(extra_stop)
        al = set(allow)
        cache[ck] = inlined_body(prog, key, stop=lambda g: (g in leaf and g not in al) or g in es, max_callee_blocks=max_callee_blocks)
    return cache[ck]


def has_loops(prog, key):
    return bool(prog.body(key).loops())


def loopy_fns(prog, root=None, transitive=True):
    """Non-leaf local functions that contain a loop themselves — or (transitive) through a non-leaf callee other than `root`.
    A loop-carrying helper cannot be path-enumerated when spliced in, so it stays a call; calls back into `root` stay calls anyway."""
    cache = prog.__dict__.setdefault("_loopy", {})
    ck = (root, transitive)
    if ck in cache:
        return cache[ck]
    leaf = leaf_roles(prog)
    direct = {k for k, f in prog.fns.items() if f.get("kind") != "Closure" and prog.body(k).loops()}
    out = set(direct)
    if transitive:
        cg = prog.callgraph()
        changed = True
        while changed:
            changed = False
            for k in prog.fns:
                if k in out or k == root or prog.fns[k].get("kind") == "Closure":
                    continue
                if any((c in out) and (c not in leaf) and c != root for c in cg[k]):
                    out.add(k)
                    changed = True
    cache[ck] = out
    return out


def ib_paths(prog, key, extra_stop=(), transitive=False):
    """Inlined body suitable for path enumeration: helpers that carry a loop themselves stay calls (their loop-free callers are spliced
    in and simply contain that call).  transitive=True also keeps every helper that reaches a loop as one opaque call (the key-value
    processor's summary wants the reph routine as a single effect)."""
    return ib(prog, key, extra_stop=set(extra_stop) | (loopy_fns(prog, key, transitive) - {key}), max_callee_blocks=None if transitive else 80)
