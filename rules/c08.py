"""C08 — dictionary-derived candidates are justified, and suffix forms are complete.

Decided statically: the joining rules (extracted as a decision table from each of the two sibling
implementations, compared with an independent transcription of the three stated rules and with each
other), split points partition the word (affine evaluation of the slice bounds over the loop variable),
every base entry is joined (loop-shape rule), letter→table names exist in the dictionary data, the
character classes used by the rules.  Not decided: that the okkhor pattern of a word matches exactly
the justified dictionary spellings; which words are in the memo (C05's lemma)."""
import itertools

from engine.mir import E, apath, strip_refs, is_const, const_val, callee_name, self_path
from engine.analyses import (peel_conv, guards_of, contains_call, enumerate_paths, PathLimit, bool_of, known_switch_value)
from engine.report import site_of
from engine import tables
from . import common, builders, classes, c17, phonetic

YYA, KHANDA_TA, TA, ANUSVARA, NGA = "য়", "ৎ", "ত", "ং", "ঙ"


def spec_join(rmc_class, vowel, kar):
    """Independent transcription of the statement: য় between a final vowel and an initial vowel sign;
    final ৎ → ত; final ং → ঙ; otherwise concatenate."""
    if vowel and kar:
        return [("push", YYA)]
    if rmc_class == KHANDA_TA:
        return [("pop",), ("push", TA)]
    if rmc_class == ANUSVARA:
        return [("pop",), ("push", NGA)]
    return []


def join_region(prog, b, cls_fns, _from=None):
    """Locate the join: push_str(word, base) … push_str(word, suffix) on the same String local, and
    summarise every path between them as (conditions, effects)."""
    pushes = []
    for (bb, t) in b.calls():
        if callee_name(t).endswith("String::push_str"):
            dst = strip_refs(b.expr_operand(t["args"][0]))
            src = peel_conv(b.expr_operand(t["args"][1]))
            pushes.append((bb, dst, src))
    # the suffix push: source is the payload of find_suffix
    def is_suffix_form(e):
        """The look-up's own payload (through projections and value-preserving conversions only) — not merely a value computed from it."""
        for _ in range(12):
            e = peel_conv(e)
            if e.k in ("field", "downcast", "deref", "ref"):
                e = e.a[0]
                continue
            if e.k == "phi":
                alts = [a for a in e.a[0] if not (strip_refs(a).k == "agg" and str(strip_refs(a).a[0]).endswith("Option::None"))]
                if len(alts) == 1:
                    e = alts[0]
                    continue
            break
        return e.k == "call" and e.a[0].endswith("find_suffix")
    end = [(bb, dst, src) for (bb, dst, src) in pushes if is_suffix_form(src)]
    if len(end) != 1:
        end = [(bb, dst, src) for (bb, dst, src) in pushes if contains_call(src, lambda n: n.endswith("find_suffix"))]
    if len(end) != 1:
        return None, "expected one push_str of the suffix form, found %d" % len(end)
    ebb, edst, esrc = end[0]
    starts = [(bb, dst, src) for (bb, dst, src) in pushes if bb != ebb and dst == edst and b.dominates(bb, ebb)]
    if not starts:
        return None, "no push_str of the base before the suffix push on the same string"
    sbb = max(starts, key=lambda x: len([y for y in b.rblocks if b.dominates(y, x[0])]))[0]
    first = b.blocks[sbb]["term"]["target"]
    if _from is not None:
        first = _from
    # enumerate acyclic paths first .. ebb
    paths = []

    def rec(x, acc, seen):
        if len(paths) > 512:
            raise PathLimit("too many join paths")
        if x == ebb:
            paths.append(acc + [(x, None)])
            return
        if x in seen:
            return
        t = b.blocks[x]["term"]
        if t["k"] == "switch":
            for (node, vals, tgt) in b.switch_edges(x):
                if ebb in b.reachable_from(tgt) or tgt == ebb:
                    rec(tgt, acc + [(x, vals)], seen | {x})
        elif t["k"] in ("goto", "call", "drop", "assert") and t.get("target") is not None:
            rec(t["target"], acc + [(x, None)], seen | {x})
    rec(first, [], frozenset())
    out = []
    for p in paths:
        conds = []
        effects = []
        env = {}
        feasible = True
        reached_start = [_from is None]
        if _from is not None and sbb not in [x_ for (x_, _) in p]:
            continue
        for (x, vals) in p:
            if x == ebb:
                break
            env = b.eval_path([x], env)
            t = b.blocks[x]["term"]
            if t["k"] == "switch":
                d = strip_refs(b.expr_operand(t["discr"], 0, env))
                allv = tuple(v for v, _ in t["targets"])
                kv = known_switch_value(d)
                if kv is not None:
                    # decided on this path (e.g. the variant of a junction value built a few blocks earlier): no condition, one edge
                    if (vals == "otherwise") == (kv in allv) or (vals != "otherwise" and kv not in vals):
                        feasible = False
                        break
                    continue
                if _from is not None and not reached_start[0] and classify_cond((d, vals, allv, t["discr_ty"]), cls_fns) is None:
                    continue        # before the base is appended: a test that decides whether there is a join at all, not how it joins
                conds.append((d, vals, allv, t["discr_ty"]))
            elif t["k"] == "call":
                n = callee_name(t)
                if _from is not None and x == sbb:
                    reached_start[0] = True
                    continue            # the base's own append opens the region
                if _from is not None and not reached_start[0]:
                    continue
                if t["args"] and t["args"][0]["k"] != "const" and strip_refs(b.expr_operand(t["args"][0])) == edst:
                    if n.endswith("String::pop"):
                        effects.append(("pop",))
                    elif n.endswith("String::push"):
                        v = strip_refs(b.expr_operand(t["args"][1], 0, env))
                        effects.append(("push", const_val(v) if is_const(v, "char") else repr(v)))
                    elif n.endswith("String::push_str"):
                        v = strip_refs(b.expr_operand(t["args"][1], 0, env))
                        effects.append(("push_str", const_val(v) if is_const(v, "str") else repr(v)))
                    elif not any(n.endswith(s) for s in ("::len", "::is_empty", "::as_str", "::deref", "::capacity")):
                        effects.append(("other", n))
        if feasible:
            out.append((conds, effects))
    return {"start": sbb, "end": ebb, "paths": out, "dst": edst, "suffix": esrc}, None


def classify_cond(c, cls_fns):
    """(atom, value) for a join condition: ('vowel', bool) | ('kar', bool) | ('rmc', char set|'otherwise', all values) | None."""
    d, vals, allv, ty = c
    neg = False
    while d.k == "un" and d.a[0] == "Not":
        d = strip_refs(d.a[1])
        neg = not neg
    if ty == "bool" and d.k == "call":
        bv = bool_of((d, vals, allv, ty))
        if bv is None:
            return None
        if neg:
            bv = not bv
        if d.a[0] == cls_fns.get("is_vowel") and contains_call(d.a[1][0], _is_last_char_call):
            return ("vowel", bv)
        if d.a[0] == cls_fns.get("is_kar") and contains_call(d.a[1][0], lambda n: n.endswith("Iterator>::next")):
            return ("kar", bv)
        return None
    if ty == "char" and contains_call(d, _is_last_char_call):
        return ("rmc", vals, allv)
    if ty == "bool" and d.k == "bin" and d.a[0] in ("Eq", "Ne"):
        # base_rmc == 'ৎ' written as a comparison instead of a match arm
        x, y = strip_refs(d.a[1]), strip_refs(d.a[2])
        ch = y if is_const(y, "char") else (x if is_const(x, "char") else None)
        other = x if ch is y else y
        bv = bool_of((d, vals, allv, ty))
        if ch is not None and bv is not None and contains_call(other, _is_last_char_call) is not None:
            if neg:
                bv = not bv
            if d.a[0] == "Ne":
                bv = not bv
            return ("rmc_eq", const_val(ch), bv)
    return None


def join_table(region, cls_fns):
    """{(rmc_class, vowel, kar): effects} by selecting the feasible path for each abstract input."""
    table = {}
    for rmc in (KHANDA_TA, ANUSVARA, "other"):
        for vowel in (False, True):
            for kar in (False, True):
                hits = []
                for conds, eff in region["paths"]:
                    ok = True
                    for c in conds:
                        cl = classify_cond(c, cls_fns)
                        if cl is None:
                            return None, "condition %r is not one of is_vowel(last) / is_kar(first) / match on the last character" % (c[0],)
                        if cl[0] == "vowel" and cl[1] != vowel:
                            ok = False
                        elif cl[0] == "kar" and cl[1] != kar:
                            ok = False
                        elif cl[0] == "rmc_eq":
                            if (rmc == cl[1]) != cl[2]:
                                ok = False
                        elif cl[0] == "rmc":
                            vals, allv = cl[1], cl[2]
                            code = ord(rmc) if rmc != "other" else None
                            if vals == "otherwise":
                                if code is not None and code in allv:
                                    ok = False
                            else:
                                if code is None or code not in vals:
                                    ok = False
                    if ok:
                        hits.append(eff)
                if len(hits) != 1:
                    # several syntactic paths with identical effects are fine
                    if hits and all(h == hits[0] for h in hits):
                        table[(rmc, vowel, kar)] = hits[0]
                        continue
                    return None, "%d feasible paths for input (last=%s, vowel=%s, kar=%s)" % (len(hits), rmc, vowel, kar)
                table[(rmc, vowel, kar)] = hits[0]
    return table, None


# ---- affine slice bounds ----------------------------------------------------

def affine(e, is_word, depth=0):
    """Linear form {sym: coeff} (+ const under key 1) of a usize expression over LEN (length of the word)
    and I (the loop variable); None if not affine."""
    e = strip_refs(e)
    if depth > 12:
        return None
    if is_const(e, "int"):
        return {1: const_val(e)}
    if e.k == "field" and e.a[1] in (0, "0") and strip_refs(e.a[0]).k == "bin":
        return affine(e.a[0], is_word, depth + 1)      # (x op y).0 of a checked operation
    if e.k == "bin" and e.a[0] in ("Add", "Sub", "AddWithOverflow", "SubWithOverflow"):
        l, r = affine(e.a[1], is_word, depth + 1), affine(e.a[2], is_word, depth + 1)
        if l is None or r is None:
            return None
        sgn = 1 if e.a[0].startswith("Add") else -1
        out = dict(l)
        for k, v in r.items():
            out[k] = out.get(k, 0) + sgn * v
        return {k: v for k, v in out.items() if v != 0} or {1: 0}
    if e.k == "call" and e.a[0].endswith("str>::len"):
        s = peel_conv(e.a[1][0])
        if is_word(s):
            return {"LEN": 1}
        sl = slice_bounds(s, is_word, depth + 1)
        if sl:
            lo, hi = sl
            out = dict(hi)
            for k, v in lo.items():
                out[k] = out.get(k, 0) - v
            return {k: v for k, v in out.items() if v != 0} or {1: 0}
        return None
    if e.k == "field" and strip_refs(e.a[0]).k == "downcast" and contains_call(e, lambda n: "Range<usize>" in n or n.endswith("ops::Range<A>>::next") or "range::<impl" in n):
        return {"I": 1}
    if e.k == "call" and e.a[0].endswith("usize>::saturating_sub") or (e.k == "call" and "saturating" in e.a[0]):
        return None
    return None


def _is_last_char_call(n):
    """`chars().last()` and `chars().next_back()` both give the last character."""
    return n.endswith("Iterator>::last") or n.endswith("DoubleEndedIterator>::next_back")


def driven_ranges(b):
    """[(Range aggregate E, bb)] of the `a..b` ranges a loop of this body runs over: `for i in a..b` (into_iter on the range) or the range
    driven directly by next() (`(a..b).find_map(..)` written out as its loop)."""
    out = []
    for (bb_, t_) in b.calls():
        n = callee_name(t_)
        if not t_["args"] or t_["args"][0]["k"] == "const":
            continue
        ty = t_["args"][0]["place"]["ty"]
        if (n.endswith("IntoIterator>::into_iter") and "ops::Range<usize>" in ty) or (n.endswith("Iterator>::next") and ty == "&mut std::ops::Range<usize>"):
            ra = strip_refs(b.expr_operand(t_["args"][0]))
            if ra.k == "agg" and ra.a[0].endswith("ops::Range::Range"):
                out.append((ra, bb_))
    return out


def slice_bounds(s, is_word, depth=0):
    """(lo, hi) affine forms if s is a slice of the word."""
    s = strip_refs(s)
    if s.k == "field" and str(s.a[1]) in ("0", "1") and strip_refs(s.a[0]).k == "call" and strip_refs(s.a[0]).a[0].endswith("::split_at"):
        # `word.split_at(i)`: the halves are word[..i] and word[i..]
        c = strip_refs(s.a[0])
        if not is_word(peel_conv(c.a[1][0])):
            return None
        at = affine(c.a[1][1], is_word, depth + 1)
        if at is None:
            return None
        return ({1: 0}, at) if str(s.a[1]) == "0" else (at, {"LEN": 1})
    if s.k != "call" or "Index<" not in s.a[0] or "for str>::index" not in s.a[0]:
        return None
    base = peel_conv(s.a[1][0])
    if not is_word(base):
        return None
    rng = strip_refs(s.a[1][1])
    if rng.k != "agg":
        return None
    kind = rng.a[0]
    ops = rng.a[1]
    if kind.endswith("RangeFrom::RangeFrom"):
        lo = affine(ops[0], is_word, depth + 1)
        return (lo, {"LEN": 1}) if lo is not None else None
    if kind.endswith("RangeTo::RangeTo"):
        hi = affine(ops[0], is_word, depth + 1)
        return ({1: 0}, hi) if hi is not None else None
    if kind.endswith("Range::Range"):
        lo, hi = affine(ops[0], is_word, depth + 1), affine(ops[1], is_word, depth + 1)
        return (lo, hi) if lo is not None and hi is not None else None
    return None


def norm(a):
    return {k: v for k, v in (a or {}).items() if v != 0}


def run(ctx):
    prog, chk = ctx.prog, ctx.check
    chk.explanation = (
        "The join between a base candidate and a suffix form is located in both sibling functions by role (push_str(base) … push_str(suffix)), "
        "every path through it is summarised as (conditions, effects) and turned into a decision table over (last character ∈ {ৎ, ং, other}, "
        "is-vowel, first-is-sign); the tables are compared with an independent transcription of the three stated rules and with each other. "
        "Slice bounds of suffix key and base key are evaluated as affine forms over the word length and the loop variable to show that the "
        "split points partition the word, each once. Loop-shape and data-table agreement rules complete the picture.")
    chk.not_decided = ["that the okkhor regex of a word matches exactly the justified dictionary spellings (regex semantics, third party)",
                       "which words have memo entries at a given time (C05's lemma)"]
    R = phonetic.roles(prog)
    acc = c17.accessors(prog)
    cls = classes.class_fns(prog)
    reach = prog.reach([R["get_suggestion"], R["backspace"]], foreign_trait_impls=False)
    # (a look-up written inside a closure — `(1..len).find_map(|i| …)` — belongs to the function the closure is written in)
    sib = sorted({prog.owner_fn(k) for k in reach if any(callee_name(t).endswith("Data::find_suffix") for (bb, t) in prog.body(k).calls())})
    r1 = chk.rule("C08.R1", "joining rules = the three stated rules, identical in both sibling implementations",
                  "joining inserts য় between a final vowel and an initial vowel sign, turns a final ৎ into ত and a final ং into ঙ, and otherwise concatenates")
    r2 = chk.rule("C08.R2", "split points partition the word, each split tried exactly once, for every word longer than two characters",
                  "whenever a typed word longer than two characters is a base followed by a known suffix, the joined forms are offered")
    r3 = chk.rule("C08.R3", "every memo entry of the base is joined and pushed (no filter / break); empty items are the only skip",
                  "every direct candidate offered for the base alone is also offered in joined form")
    r4 = chk.rule("C08.R4", "letter→table names exist in the dictionary data; character classes used by the joining rules",
                  "dictionary candidates come from the first-letter tables; the vowel / vowel-sign classes are the Unicode ones")
    if len(sib) != 2:
        r1.undecidable("siblings", "expected two functions using the suffix table on the event path (candidate builder, selection look-up), found %s" % sib)
        return
    tabs = {}
    from . import roles as _roles
    for fk in sib:
        b = _roles.ib(prog, fk)          # private helpers (e.g. a shared junction function) spliced in
        short = fk.split("::")[-1]
        try:
            region, err = join_region(prog, b, cls)
        except PathLimit as e:
            region, err = None, str(e)
        if region is None:
            r1.undecidable("join@%s" % short, "cannot locate/summarise the join: %s" % err, common.fn_line(prog, fk))
            continue
        table, err = join_table(region, cls)
        if table is None:
            # the kind of junction may be decided before the base is appended (`let joint = Joint::between(base, suffix)?; word.push_str(base);
            # joint.apply(&mut word)`): read the paths from the head of the innermost loop around the join instead
            try:
                heads = b.loops()
                inner = None
                for h_, tails_ in heads.items():
                    body_ = b.loop_body(h_, tails_)
                    if region["start"] in body_ and (inner is None or len(body_) < inner[1]):
                        inner = (h_, len(body_))
                starts_ = [inner[0]] if inner is not None else []
                # … or, outside any loop, from one of the nearest dominating blocks (where the junction is made)
                d_ = region["start"]
                for _ in range(14):
                    d_ = b.idom.get(d_)
                    if d_ is None:
                        break
                    if isinstance(d_, tuple):
                        d_ = d_[1] if len(d_) > 1 and isinstance(d_[1], int) else None          # a split switch edge ('e', switch block, n)
                        if d_ is None:
                            break
                    if isinstance(d_, int) and d_ not in starts_ and b.blocks[d_]["term"]["k"] == "switch":
                        starts_.append(d_)
                for st_ in starts_:
                    try:
                        region2, err2 = join_region(prog, b, cls, _from=st_)
                    except PathLimit:
                        continue
                    if region2 is not None:
                        table2, err2 = join_table(region2, cls)
                        if table2 is not None:
                            region, table, err = region2, table2, None
                            break
            except PathLimit:
                pass
        if table is None:
            r1.undecidable("join@%s" % short, "cannot turn the join into a decision table: %s" % err, site_of(b, region["start"]))
            continue
        tabs[fk] = table
        bad = []
        for key_, eff in sorted(table.items(), key=str):
            want = spec_join(key_[0] if key_[0] != "other" else None, key_[1], key_[2])
            if eff != want:
                bad.append((key_, eff, want))
        if bad:
            k_, eff, want = bad[0]
            r1.violation("join@%s" % short, "for a base ending in %s (vowel=%s) and a suffix starting with a sign=%s the join does %s, the stated rules require %s"
                         % ("U+%04X" % ord(k_[0]) if k_[0] != "other" else "any other character", k_[1], k_[2], eff or "nothing", want or "nothing"),
                         site_of(b, region["start"]), {"table": {str(k): v for k, v in table.items()}})
        else:
            r1.ok("join@%s" % short, "12-row decision table equals the three stated rules")
        # the joined word starts empty for every (base, suffix) pair
        from . import phonetic as _ph
        has_suffix = lambda body, b=b: any(b.blocks[x]["term"]["k"] == "call" and callee_name(b.blocks[x]["term"]).endswith("Data::find_suffix") for x in body)
        for n_, (L, name, status, why, at) in enumerate(_ph.loop_carried_strings(b, has_suffix)):
            if status == "carried":
                r1.violation("fresh@%s#%d" % (short, n_), "`%s` is appended to for every split point / base but %s: a joined form is the concatenation of several joins"
                             % (name, why), site_of(b, at))
            else:
                r1.ok("fresh@%s#%d" % (short, n_), "`%s`: %s" % (name, why))
        # the string pushed first is the base itself, the last the suffix form
        base_src = None
        for (bb, t) in b.calls():
            if bb == region["start"]:
                base_src = peel_conv(b.expr_operand(t["args"][1]))
    if len(tabs) == 2:
        a, c = (tabs[k] for k in sib)
        if a == c:
            r1.ok("siblings-agree", "candidate builder and selection look-up join identically")
        else:
            diff = [k for k in a if a[k] != c.get(k)]
            r1.violation("siblings-agree", "the two implementations join differently for %s: %s vs %s" % (diff[0], a[diff[0]], c.get(diff[0])), common.fn_line(prog, sib[1]))
    r1.floor(3, "two joins + agreement")

    # ---------------- R2 partition
    for fk in sib:
        b = _roles.ib(prog, fk)
        short = fk.split("::")[-1]
        # the word: &str parameter, or word() of the split parameter
        def is_word(e, b=b):
            e = peel_conv(e)
            if e.k == "arg" and b.locals[e.a[0]]["ty"] == "&str":
                return True
            if e.k == "call" and acc.get(e.a[0]) == "word" and strip_refs(e.a[1][0]).k == "arg":
                return True
            return False
        # loop range
        rng = None
        for (ra, bb_) in driven_ranges(b):
            rng = (affine(ra.a[1][0], is_word), affine(ra.a[1][1], is_word), bb_)
        if not rng or rng[0] is None or rng[1] is None:
            r2.undecidable("range@%s" % short, "split loop is not `for i in <affine>..<affine>` over the word length", common.fn_line(prog, fk))
            continue
        lo, hi, rbb = rng
        if norm(lo) == {1: 1} and norm(hi) == {"LEN": 1}:
            r2.ok("range@%s" % short, "i ∈ [1, len-1]")
        else:
            r2.violation("range@%s" % short, "split loop runs over [%s, %s) instead of [1, len): some split points are never tried" % (lo, hi), site_of(b, rbb))
            continue
        # suffix key and base key
        sfx = None
        base = None
        for (bb, t) in b.calls():
            n = callee_name(t)
            if n.endswith("Data::find_suffix"):
                sfx = slice_bounds(peel_conv(b.expr_operand(t["args"][1])), is_word)
                sfx_bb = bb
            if n.endswith("HashMap::<K, V, S, A>::get") and bb != 0:
                kb = slice_bounds(peel_conv(b.expr_operand(t["args"][1])), is_word)
                if kb:
                    base = kb
                    base_bb = bb
        if not sfx or not base:
            r2.undecidable("slices@%s" % short, "suffix key / base key are not slices of the word with affine bounds (suffix %s, base %s)" % (sfx, base), common.fn_line(prog, fk))
            continue
        slo, shi = norm(sfx[0]), norm(sfx[1])
        blo, bhi = norm(base[0]), norm(base[1])
        partition = shi == {"LEN": 1} and blo in ({}, {1: 0}) and bhi == slo
        bij = slo in ({"I": 1}, {"LEN": 1, "I": -1})
        if partition and bij:
            r2.ok("slices@%s" % short, "suffix = w[%s..], base = w[..%s]; the split point is a bijection of i" % (_fmt(slo), _fmt(bhi)))
        else:
            r2.violation("slices@%s" % short, "suffix = w[%s..%s], base = w[%s..%s]: base ++ suffix is not the word for every i (or split points repeat)"
                         % (_fmt(slo), _fmt(shi), _fmt(blo), _fmt(bhi)), site_of(b, sfx_bb))
        # guard constant
        gsw = None
        for (d, pol, s) in guards_of(b, rbb):
            if d.k == "bin" and d.a[0] in ("Gt", "Ge") and norm(affine(d.a[1], is_word) or {}) == {"LEN": 1} and is_const(strip_refs(d.a[2]), "int"):
                c = const_val(strip_refs(d.a[2]))
                min_len = c + 1 if d.a[0] == "Gt" else c
                if pol is True:
                    gsw = (min_len, s)
        if gsw is None:
            r2.ok("guard@%s" % short, "no length guard (every length enters the loop)")
        elif gsw[0] <= 3:
            r2.ok("guard@%s" % short, "words of length ≥ %d enter the split loop" % gsw[0])
        else:
            r2.violation("guard@%s" % short, "only words of length ≥ %d are split; the statement promises suffix forms for every word longer than two characters" % gsw[0],
                         site_of(b, gsw[1]))
    r2.floor(6, "2 × (range, slices, guard)")

    # ---------------- R3 completeness shape (candidate builder)
    builder = [k for k in sib if prog.fns[k].get("output") == "std::vec::Vec<suggestion::Rank>"]
    if len(builder) != 1:
        r3.undecidable("builder", "candidate builder (returns Vec<Rank>) not identified among %s" % sib)
    else:
        fk = builder[0]
        b = _roles.ib(prog, fk)
        # inner loop: iterates the memo entry of the base
        heads = b.loops()
        inner = None
        for h, tails in heads.items():
            t = b.blocks[h]["term"]
            if t["k"] == "call" and callee_name(t).endswith("Iterator>::next") and "slice::Iter<'_, suggestion::Rank>" in t["args"][0]["place"]["ty"]:
                inner = (h, tails)
        if not inner:
            r3.undecidable("inner-loop", "loop over the base's memo entry not found", common.fn_line(prog, fk))
        else:
            h, tails = inner
            body_blocks = b.loop_body(h, tails)
            push_bb = [bb for (bb, t) in b.calls() if bb in body_blocks and callee_name(t).endswith("Vec::<T, A>::push") and "Vec<suggestion::Rank>" in t["args"][0]["place"]["ty"]]
            if len(push_bb) != 1:
                r3.violation("push", "an iteration over the base's candidates pushes %d times" % len(push_bb), site_of(b, h))
            else:
                pb = push_bb[0]
                # paths from the Some edge back to the head that avoid the push
                some_tgt = None
                sw = b.blocks[h]["term"]["target"]
                for (node, vals, tgt) in b.switch_edges(sw):
                    if vals == (1,):
                        some_tgt = tgt
                # one iteration, path by path (decisions already fixed on a path — e.g. a helper's `None` result being matched — are not
                # branch points): a path that comes back to the head without the push may only have taken "is empty" edges
                from engine.analyses import sym_paths
                try:
                    iter_paths = sym_paths(b, some_tgt, 4000, None, stops={h, pb}) if some_tgt is not None else []
                    bad_skip = None
                    n_skip = 0
                    for (path, env_, conds) in iter_paths:
                        if path[-1][0] != h:
                            continue
                        n_skip += 1
                        for (d, vals, allv, ty_, bbx) in conds:
                            d = strip_refs(d)
                            if d.k == "discr" and strip_refs(d.a[0]).k == "call" and strip_refs(d.a[0]).a[0].endswith("Option<T> as std::ops::Try>::branch"):
                                # `(last, first)?` / `a.zip(b)?`: Break (1) is the None of the operand, Continue (0) its Some; a zip is None iff a side is
                                inner_ = strip_refs(strip_refs(d.a[0]).a[1][0])
                                sides_ = [strip_refs(x_) for x_ in inner_.a[1]] if inner_.k == "call" and inner_.a[0].endswith("Option::<T>::zip") else [inner_]
                                if all(x_.k == "call" and (_is_last_char_call(x_.a[0]) or x_.a[0].endswith("Iterator>::next")) for x_ in sides_):
                                    is_break_ = vals == (1,) or (vals == "otherwise" and 1 not in allv)
                                    if is_break_:
                                        break           # skipped because the base or the suffix form is empty
                                    continue
                            none_edge = d.k == "discr" and contains_call(d, lambda n: _is_last_char_call(n) or n.endswith("Iterator>::next")) is not None \
                                and (vals == (0,) or (vals == "otherwise" and 0 not in allv))
                            some_edge = d.k == "discr" and contains_call(d, lambda n: _is_last_char_call(n) or n.endswith("Iterator>::next")) is not None \
                                and not none_edge
                            if none_edge:
                                break               # this skip is justified by an empty base / suffix form
                            if some_edge:
                                continue
                            bad_skip = (bbx, d, vals)
                            break
                        else:
                            bad_skip = bad_skip or (path[-2][0], E("const", ("str", "no emptiness test on the path")), None)
                        if bad_skip:
                            break
                    if bad_skip:
                        r3.violation("no-skip", "a base candidate can be skipped without being joined when %r = %s (filter / continue / break in the loop)" % (bad_skip[1], bad_skip[2]),
                                     site_of(b, bad_skip[0]))
                    elif n_skip:
                        r3.ok("no-skip", "a base candidate is skipped only when it (or the suffix form) is an empty string")
                    else:
                        r3.ok("no-skip", "every base candidate reaches the push")
                except PathLimit as e_:
                    r3.undecidable("no-skip", "cannot enumerate the paths of one iteration: %s" % e_, site_of(b, h))
                # the pushed item: clone of the base with the joined word as item
                r3.ok("push", "one push per base candidate")
            # no break out of the outer/inner loops other than iterator exhaustion
            exits_ok = True
            for hd, tl in heads.items():
                lb = b.loop_body(hd, tl)
                for x in lb:
                    for sx in b.bsucc[x]:
                        if sx not in lb and b.blocks[sx]["term"]["k"] != "unreachable":
                            # exit edge: must be the None edge of the loop's own next()
                            swb = b.blocks[hd]["term"].get("target")
                            if x != swb:
                                # inner loop exit lands in outer loop body: fine if x is the inner head's switch
                                if not (b.blocks[x]["term"]["k"] == "switch" and any(x == b.blocks[h2]["term"].get("target") for h2 in heads)):
                                    exits_ok = False
                                    bad_exit = x
            if exits_ok:
                r3.ok("no-break", "loops end only by iterator exhaustion")
            else:
                r3.violation("no-break", "a loop over split points / base candidates can be left early (break / return)", site_of(b, bad_exit))
    # the memo holds direct candidates only: nothing produced by a suffix join is ever inserted into it
    ins = []
    for k in reach:
        kb = prog.body(k)
        for (bb, t) in kb.calls():
            if callee_name(t).endswith("HashMap::<K, V, S, A>::insert") and phonetic.MEMO_TY in t["args"][0]["place"]["ty"]:
                ins.append((k, bb, t))
    if len(ins) != 1:
        r3.violation("memo-direct", "the memo is filled at %d places; base candidates must be the direct (auto-correct / dictionary) candidates stored by the single fill" % len(ins),
                     common.fn_line(prog, ins[0][0]) if ins else None)
    else:
        k, bb, t = ins[0]
        kb = prog.body(k)
        val = kb.expr_operand(t["args"][2])
        if contains_call(val, lambda n: n in sib):
            r3.violation("memo-direct", "suffix-joined candidates are stored in the memo: a later suffix is stacked on an already suffixed candidate", site_of(kb, bb))
        else:
            r3.ok("memo-direct", "the memo entry is built without the suffix join")
    r3.floor(4, "push, no-skip, no-break, memo-direct")

    # ---------------- R4 data tables and classes
    dic = tables.load_json("dictionary.json")
    # the letter → tables literal, wherever it is written: an array literal of (one ASCII letter, [table names]) rows
    names = set()
    rows = 0
    for a in prog.lit_arrays:
        v = a["value"]
        if "array" in v:
            shaped = [row for row in v["array"] if "tuple" in row and len(row["tuple"]) == 2 and "str" in row["tuple"][0] and "array" in row["tuple"][1]
                      and len(row["tuple"][0]["str"]) == 1 and row["tuple"][0]["str"].isascii() and row["tuple"][0]["str"].isalpha()]
            if len(shaped) < 20 or len(shaped) != len(v["array"]):
                continue
            for row in shaped:
                rows += 1
                for x in row["tuple"][1]["array"]:
                    names.add(x.get("str"))
    if rows < 26:
        # the same map written as a function `first letter → &[table names]` (a `match` with one literal slice per arm): its literals
        by_owner = {}
        for a in prog.lit_arrays:
            v = a["value"]
            if "array" in v and v["array"] and all("str" in x for x in v["array"]):
                by_owner.setdefault(a.get("owner"), []).append([x["str"] for x in v["array"]])
        for owner, arrs in sorted(by_owner.items(), key=lambda kv: str(kv[0])):
            f_ = prog.fns.get(owner) or {}
            if len(arrs) >= 15 and "str" in (f_.get("output") or "") and "[" in (f_.get("output") or "") and (f_.get("inputs") or []) in (["&str"], ["char"]):
                rows = max(rows, 26)
                for arr in arrs:
                    names.update(arr)
    if rows < 26:
        r4.undecidable("letter-map", "the 26-row letter→tables literal was not found (rows %d)" % rows)
    else:
        missing = sorted(n for n in names if n not in dic)
        if missing:
            r4.violation("letter-map", "letter map names tables %s that do not exist in dictionary.json" % missing, None)
        else:
            r4.ok("letter-map", "%d rows, %d distinct table names, all keys of dictionary.json" % (rows, len(names)))
    classes.check_classes(r4, prog, ["is_vowel", "is_kar"], common.fn_line)
    # the suffix / dictionary accessors are pure look-ups of their argument (no shortcut in front of the table)
    nacc8 = common.pure_table_accessors(r4, prog, "data::Data")
    if nacc8 < 2:
        r4.undecidable("lookup", "expected at least the suffix and the dictionary-table accessors of Data, found %d" % nacc8)
    r4.floor(3, "letter map + two classes")


def _fmt(a):
    if not a or a == {1: 0}:
        return "0"
    parts = []
    for k, v in a.items():
        if k == 1:
            parts.append(str(v))
        else:
            parts.append(("" if v == 1 else "-" if v == -1 else str(v) + "·") + str(k).lower())
    return "+".join(parts).replace("+-", "-")
