"""C03 — phonetic output is the Avro transliteration of exactly what was typed.

Decided statically: plumbing of the single-string path (split(flag=false) → phonetic parser on each
part → ordered concatenation), the transliteration is pushed on every path of the list builder and
never removed, the wrapping loop, the key→ASCII decision table against a name-derived oracle and the
sibling layout table, the punctuation set.  Not decided: okkhor's conversion itself and the splitter's
value-level boundaries (back-tick / colon scan)."""
import re

from engine.mir import E, apath, strip_refs, is_const, const_val, callee_name, self_path
from engine.analyses import (peel_conv, format_parts, contains_call, guards_of, direct_writes, ModSets)
from engine.report import site_of
from . import common, builders, c17

US_NAMES = {
    "GRAVE": "`", "TILDE": "~", "EXCLAIM": "!", "AT": "@", "HASH": "#", "DOLLAR": "$", "PERCENT": "%", "CIRCUM": "^",
    "AMPERSAND": "&", "ASTERISK": "*", "PAREN_LEFT": "(", "PAREN_RIGHT": ")", "UNDERSCORE": "_", "PLUS": "+", "MINUS": "-",
    "EQUALS": "=", "BRACKET_LEFT": "[", "BRACKET_RIGHT": "]", "BACK_SLASH": "\\", "BRACE_LEFT": "{", "BRACE_RIGHT": "}", "BAR": "|",
    "SEMICOLON": ";", "APOSTROPHE": "'", "COMMA": ",", "PERIOD": ".", "SLASH": "/", "COLON": ":", "QUOTE": "\"", "LESS": "<",
    "GREATER": ">", "QUESTION": "?", "KP_DIVIDE": "/", "KP_MULTIPLY": "*", "KP_SUBTRACT": "-", "KP_ADD": "+", "KP_DECIMAL": ".",
    "KP_EQUALS": "=",
}
NO_CHAR = {"KP_ENTER"}          # keys that do not type a character
STATED_PUNCT = "-]~!@#%&*()_=+[{}'\";<>/?|.,"


def expected_char(name):
    n = name[3:]
    if re.fullmatch(r"[A-Z]", n):
        return n.lower()
    m = re.fullmatch(r"([A-Z])_SHIFT", n)
    if m:
        return m.group(1)
    if re.fullmatch(r"\d", n):
        return n
    m = re.fullmatch(r"KP_(\d)", n)
    if m:
        return m.group(1)
    return US_NAMES.get(n)


def run(ctx):
    prog, chk = ctx.prog, ctx.check
    chk.explanation = (
        "Provenance dataflow on MIR for the single-string builder and the list builder (which value reaches which parser call, "
        "format! pieces decoded from the compiled template), must-pass-through for the transliteration push, and agreement of the "
        "key→character decision table (all 65 536 codes) with an independently transcribed US-keyboard name table and with the "
        "sibling key→layout-entry table.")
    chk.not_decided = ["that okkhor's conversion of each part equals the Avro standard (third-party, value-level)",
                       "where the splitter puts the word boundaries for every string (back-tick escape / colon scan are value-level)"]
    mods = ctx.memo("modsets", lambda: ModSets(prog))
    acc = c17.accessors(prog)
    sp = c17.split_fn(prog)
    ph = builders.phonetic_ty(prog)
    roles = builders.method_roles(prog)
    gs = roles[ph]["get_suggestion"]
    reach = prog.reach([gs, prog.method_impl(ph, "backspace_event")], foreign_trait_impls=False)

    # parser fields by constructor
    parser_fields = {}
    for k, f in prog.fns.items():
        if f.get("kind") == "Closure":
            continue
        b = prog.body(k)
        ret = strip_refs(b.expr_local(0))
        if ret.k == "agg" and ret.a[0].startswith("adt:") and ret.t and "fields" in ret.t:
            for fname, op in zip(ret.t["fields"], ret.a[1]):
                o = strip_refs(op)
                if o.k == "call" and o.a[0].endswith("Parser::new_phonetic"):
                    parser_fields[fname] = "phonetic"
                elif o.k == "call" and "Parser" in o.a[0] and "new_regex" in o.a[0]:
                    parser_fields[fname] = "regex"

    def is_phonetic_parser(e):
        spx = self_path(e)
        return spx is not None and len(spx) >= 1 and parser_fields.get(spx[-1]) == "phonetic"

    # ---------------- R1 single-string path
    r1 = chk.rule("C03.R1", "single-string path: split(flag=false) → phonetic parser on each part → concatenation in order",
                  "the single string is the transliteration of the leading punctuation, of the word and of the trailing punctuation, concatenated")
    lonely = [k for k in reach if prog.fns[k].get("kind") != "Closure" and prog.fns[k].get("output") == "std::string::String"
              and any(callee_name(t) == sp for (bb, t) in prog.body(k).calls())]
    if len(lonely) != 1:
        r1.undecidable("builder", "single-string builder (returns String, calls the splitter) matched %s" % lonely)
    else:
        lk = lonely[0]
        b = prog.body(lk)
        splits = [(bb, t) for (bb, t) in b.calls() if callee_name(t) == sp]
        if len(splits) != 1:
            r1.violation("split", "the typed text is split %d times" % len(splits), common.fn_line(prog, lk))
        else:
            bb, t = splits[0]
            a0 = peel_conv(b.expr_operand(t["args"][0]))
            flag = strip_refs(b.expr_operand(t["args"][1]))
            if a0.k == "arg" and b.locals[a0.a[0]]["ty"] == "&str" and is_const(flag, "bool", False):
                r1.ok("split", "split(typed text, include_colon = false)")
            else:
                r1.violation("split", "split(%r, %r): the typed-text parameter must be split with the colon flag off (':' is an Avro letter)" % (a0, flag), site_of(b, bb))
        ret = b.expr_local(0)
        fp = format_parts(b, ret)
        if fp is None:
            from engine.analyses import built_string_parts
            fp = built_string_parts(b, 0)           # the same three pieces appended one after the other
        if fp is None or [x[0] for x in fp] != ["val", "val", "val"]:
            r1.violation("concat", "the result is not the concatenation of exactly three converted parts: %r" % (fp,), common.fn_line(prog, lk))
        else:
            want = ["preceding", "word", "trailing"]
            for i, (_, v) in enumerate(fp):
                key = "part%d:%s" % (i, want[i])
                src = _converted_part(prog, b, v, acc, is_phonetic_parser)
                if src is None:
                    r1.violation(key, "piece %d of the result is %r, not the phonetic parser's conversion of one part of the split" % (i, peel_conv(v)), common.fn_line(prog, lk))
                elif src != want[i]:
                    r1.violation(key, "piece %d of the result converts the %s part, expected the %s part" % (i, src, want[i]), common.fn_line(prog, lk))
                else:
                    r1.ok(key, "convert(%s())" % src)
        # call site: receives the composition buffer
        for (caller, bb, t) in prog.call_sites.get(lk, []):
            cb = prog.body(caller)
            a = peel_conv(cb.expr_operand(t["args"][1]))
            if self_path(a) == (roles[ph]["buffer"],):
                r1.ok("caller", "called with the composition buffer")
            else:
                r1.violation("caller", "the single-string builder is called with %r instead of the composition buffer" % (a,), site_of(cb, bb))
    r1.floor(5, "split, three parts, caller")

    # ---------------- R2 list path
    r2 = chk.rule("C03.R2", "the same transliteration is pushed as a candidate on every path, wrapped like every item, and never removed",
                  "with suggestions on, that same transliteration is always one of the candidates")
    ctors = builders.rank_ctors(prog)
    found = False
    for fk in sorted(reach):
        if prog.fns[fk].get("kind") == "Closure":
            continue
        b = prog.body(fk)
        for p in builders.push_events(prog, fk, ctors):
            if p.item is None:
                continue
            src = _converted_part(prog, b, p.item, acc, is_phonetic_parser)
            if src != "word":
                continue
            found = True
            short = fk.split("::")[-1]
            if all(b.postdominates(p.outer_bb, 0) for _ in [0]):
                r2.ok("push@%s" % short, "transliteration of word() pushed on every path (%s)" % p.kind)
            else:
                r2.violation("push@%s" % short, "the transliteration is pushed only on some paths of %s" % fk, site_of(b, p.outer_bb))
            # wrapping loop after the push: iter_mut over the same list assigning format(preceding, item, trailing)
            wrapped = False
            for w in direct_writes(b):
                if w["op"] != "assign":
                    continue
                rv = b.expr_rvalue(w["rv"])
                fpw = format_parts(b, rv)
                if not fpw and w["rv"]["k"] == "use" and w["rv"]["op"].get("k") in ("move", "copy") and not w["rv"]["op"]["place"]["p"]:
                    from engine.analyses import built_string_parts
                    fpw = built_string_parts(b, w["rv"]["op"]["place"]["l"])      # the same concatenation assembled with push_str
                if fpw and len(fpw) == 3 and all(x[0] == "val" for x in fpw):
                    a_, m_, z_ = (peel_conv(x[1]) for x in fpw)
                    if a_.k == "call" and acc.get(a_.a[0]) == "preceding" and z_.k == "call" and acc.get(z_.a[0]) == "trailing" \
                            and contains_call(m_, lambda n: n.endswith("Rank::to_string")) or (fpw and contains_call(fpw[1][1], lambda n: "IterMut" in n)):
                        wrapped = True
                        wbb = w["bb"]
            if not wrapped:
                # in place: item.insert_str(0, preceding); item.push_str(trailing) on the item reference of the same loop
                from engine.analyses import inplace_wraps
                for (l_, pre_, post_, ibb_, abb_) in inplace_wraps(b):
                    a_, z_ = peel_conv(pre_), peel_conv(post_)
                    if a_.k == "call" and acc.get(a_.a[0]) == "preceding" and z_.k == "call" and acc.get(z_.a[0]) == "trailing":
                        wrapped = True
                        wbb = ibb_
            if wrapped and b.dominates(p.outer_bb, wbb):
                r2.ok("wrap@%s" % short, "every item := preceding ++ item ++ trailing after the push")
            else:
                r2.violation("wrap@%s" % short, "no wrapping loop `item = preceding ++ item ++ trailing` after the transliteration push", common.fn_line(prog, fk))
            # the function must be reached unconditionally from the list builder, which must split with flag false
            for (caller, cbb, ct) in prog.call_sites.get(fk, []):
                if caller not in reach:
                    continue
                cb = prog.body(caller)
                if all(cb.dominates(cbb, rb) for rb in cb.return_blocks):
                    r2.ok("reached@%s" % caller.split("::")[-1], "list builder always runs the dictionary/transliteration step")
                else:
                    r2.violation("reached@%s" % caller.split("::")[-1], "some path of %s skips the step that pushes the transliteration" % caller, site_of(cb, cbb))
                for (sbb, st) in cb.calls():
                    if callee_name(st) == sp:
                        flag = strip_refs(cb.expr_operand(st["args"][1]))
                        a0 = peel_conv(cb.expr_operand(st["args"][0]))
                        if is_const(flag, "bool", False) and a0.k == "arg":
                            r2.ok("split@%s" % caller.split("::")[-1], "list path splits the typed text with the colon flag off, like the single-string path")
                        else:
                            r2.violation("split@%s" % caller.split("::")[-1], "list path splits %r with flag %r (single-string path uses false)" % (a0, flag), site_of(cb, sbb))
                # the wrapping parts are the parser's conversion of the split's own parts, on every path (what the single-string path does too)
                _wrap_conversion(r2, prog, caller, cb, is_phonetic_parser)
                # nothing shrinks the list in the caller
                shrink = [(bb2, t2) for (bb2, t2) in cb.calls() if any(callee_name(t2).endswith(s) for s in ("::truncate", "::retain", "::drain", "Vec::<T, A>::pop",
                          "Vec::<T, A>::remove", "::split_off", "::swap_remove", "Vec::<T, A>::clear")) and "Vec<suggestion::Rank>" in t2["args"][0]["place"]["ty"]]
                if shrink:
                    r2.violation("kept@%s" % caller.split("::")[-1], "the list is shrunk with %s after the transliteration was pushed (it ranks last and is the first to go)"
                                 % callee_name(shrink[0][1]).split("::")[-1], site_of(cb, shrink[0][0]))
                else:
                    r2.ok("kept@%s" % caller.split("::")[-1], "no truncate/retain/drain/pop/clear on the list after the push")
            # within the pushing function: no shrinking after the push
            after = b.reachable_from(b.blocks[p.outer_bb]["term"]["target"]) if b.blocks[p.outer_bb]["term"].get("target") is not None else set()
            shrink = [(bb2, t2) for (bb2, t2) in b.calls() if bb2 in after and any(callee_name(t2).endswith(s) for s in ("::truncate", "::retain", "::drain",
                      "Vec::<T, A>::pop", "Vec::<T, A>::remove", "Vec::<T, A>::clear")) and "Vec<suggestion::Rank>" in t2["args"][0]["place"]["ty"]]
            if shrink:
                r2.violation("kept@%s" % short, "the list is shrunk after the transliteration push", site_of(b, shrink[0][0]))
    if not found:
        r2.violation("push", "no push of the phonetic parser's conversion of word() was found in the list builders", common.fn_line(prog, gs))
    r2.floor(6, "push, wrap, reached, split, wrap-conv, kept")

    # ---------------- R3 key→char table
    r3 = chk.rule("C03.R3", "key→character table agrees with the key names (US keyboard) and with the sibling layout table",
                  "the typed text is exactly the characters of the keys pressed")
    defines, protos = common.header(ctx)
    vc = common.vc_consts(prog)
    by_val = {}
    for n, v in vc.items():
        by_val.setdefault(v, []).append(n)
    kfn, table, default = common.key_char_table(prog)
    kb = prog.body(kfn)
    _, lrows, _ = common.layout_table(prog)
    for v, leaf in sorted(table.items()):
        names = by_val.get(v, [])
        key = "arm:%s" % (names[0] if names else hex(v))
        site = common.fn_line(prog, kfn)
        if len(names) != 1:
            r3.violation(key, "arm for key code %#x which is not exactly one VC_* constant (%s)" % (v, names), site)
            continue
        name = names[0]
        l = strip_refs(leaf) if leaf is not None else None
        if l is not None and l.k == "agg" and l.a[0].endswith("Option::Some"):
            l = strip_refs(l.a[1][0])
        if l is None or not is_const(l, "char"):
            r3.undecidable(key, "leaf for %s is %r, not a character literal" % (name, leaf), site)
            continue
        ch = const_val(l)
        exp = expected_char(name)
        if exp is None:
            r3.violation(key, "%s is mapped to %r but its name does not denote a character key" % (name, ch), site)
        elif ch != exp:
            r3.violation(key, "%s types %r, its name says %r" % (name, ch, exp), site, {"key": name, "char": ch, "expected": exp})
        elif ord(ch) >= 0x80 or ord(ch) < 0x20:
            r3.violation(key, "%s types a non-ASCII / control character U+%04X" % (name, ord(ch)), site)
        else:
            # sibling: for alphanumerics the layout entry name is the character
            row = lrows.get(v)
            if row and row.get("literal") and re.fullmatch(r"[A-Za-z0-9]", row["literal"]) and row["literal"] != ch:
                r3.violation(key, "%s types %r here but is looked up as layout entry %r in the sibling table" % (name, ch, row["literal"]), site)
            else:
                r3.ok(key, "%s → %r" % (name, ch))
    # every published character key has an arm
    for name, v in sorted(vc.items()):
        if name not in defines:
            continue
        if expected_char(name) is not None and name[3:] not in ("KP_EQUALS",) and v not in table:
            r3.violation("missing:%s" % name, "published key %s (a character key by name) has no arm in the key→character table" % name, common.fn_line(prog, kfn))
    r3.floor(109, "109 character arms")

    # ---------------- R4 punctuation set
    # ---------------- R5 the single-string constructor keeps the text it is given
    r5 = chk.rule("C03.R5", "the single-string suggestion stores the transliteration unchanged (encoding happens only at read-out)",
                  "the single string returned is the transliteration itself")
    _sites5, _names5 = builders.suggestion_ctor_sites(prog)
    lon = [k for k, v in _names5.items() if v == "lonely"]
    if len(lon) != 1:
        r5.undecidable("ctor", "single-string constructor matched %s" % lon)
    else:
        cb5 = prog.body(lon[0])
        ret5 = strip_refs(cb5.expr_local(0))
        ok5 = False
        if ret5.k == "agg" and str(ret5.a[0]).startswith("adt:"):
            for op5 in ret5.a[1]:
                o5 = strip_refs(op5)
                if o5.k == "arg" and cb5.locals[o5.a[0]]["ty"] == "std::string::String":
                    ok5 = True
        calls5 = [callee_name(t) for (bb, t) in cb5.calls() if not callee_name(t).startswith("core::panicking")]
        if ok5 and not calls5:
            r5.ok("ctor", "Single { text: the String parameter, .. } — no conversion at construction")
        else:
            r5.violation("ctor", "the single-string constructor %s — what get_lonely_suggestion() returns is no longer the transliteration"
                         % ("applies %s to its text" % calls5[0].split("::")[-1] if calls5 else "does not store its String parameter as it is"), common.fn_line(prog, lon[0]))
    r5.floor(1, "ctor")

    r4 = chk.rule("C03.R4", "the splitter's punctuation set contains the stated characters and no letter or digit, and one set feeds both scans",
                  "leading/trailing strings over the stated punctuation set are split off the word")
    sb = prog.body(sp)
    sets = common.splitter_sets(prog, sp)
    lits = sorted({"".join(sorted(set(s))) for s, bb in sets})       # as sets: a named predicate over a constant and the constant itself are one set
    if not lits:
        r4.undecidable("set", "no `literal.contains(char)` found in the splitter")
    else:
        if len(lits) != 1:
            r4.violation("one-set", "prefix search and suffix scan use different punctuation sets: %s" % lits, common.fn_line(prog, sp))
        else:
            r4.ok("one-set", "one punctuation set (%d uses)" % len(sets))
        for lit in lits:
            missing = [c for c in STATED_PUNCT if c not in lit]
            alnum = [c for c in lit if c.isalnum()]
            if missing:
                r4.violation("contains", "punctuation set %r lacks the stated characters %r" % (lit, "".join(missing)), common.fn_line(prog, sp))
            elif alnum:
                r4.violation("contains", "punctuation set contains letters/digits %r" % alnum, common.fn_line(prog, sp))
            else:
                r4.ok("contains", "⊇ the %d stated characters, no letter or digit" % len(STATED_PUNCT))
        if len(sets) < 2:
            r4.violation("uses", "the punctuation set is consulted %d time(s); both the prefix search and the suffix scan must use it" % len(sets), common.fn_line(prog, sp))
    r4.floor(2, "one-set + contains")
    singles = common.splitter_char_tests(prog, sp)
    bad1 = sorted({c for c, w in singles if c.isalnum() or 0x0980 <= ord(c) <= 0x09FF})
    if bad1:
        r4.violation("single-tests", "the splitter also treats %s specially — a letter / digit / Bengali sign is split off the word as if it were punctuation"
                     % " ".join("U+%04X" % ord(c) for c in bad1), common.fn_line(prog, sp))
    else:
        r4.ok("single-tests", "single-character tests: %s — no letter, digit or Bengali sign" % (" ".join(sorted({repr(c) for c, w in singles})) or "none"))


def _wrap_conversion(r2, prog, caller, cb, is_phonetic_parser):
    """In the list builder the leading / trailing parts are replaced by `parser.convert(part)` — through the split type's mapping method with a
    closure, whose every return is (convert(leading), convert(trailing)) with nothing deciding by content whether to convert."""
    from engine.analyses import subst_upvars
    from . import roles as _roles, c17 as _c17
    key = "wrap-conv@%s" % caller.split("::")[-1]
    hits = []
    for (bb, t) in cb.calls():
        g = callee_name(t)
        if g in prog.fns and (prog.fns[g].get("impl") or {}).get("self", "").startswith(_c17.SPLIT_TY):
            for a in t["args"]:
                e = strip_refs(cb.expr_operand(a))
                if e.k == "agg" and str(e.a[0]).startswith("closure:"):
                    hits.append((bb, t, str(e.a[0])[len("closure:"):]))
    if len(hits) != 1:
        r2.undecidable(key, "expected one mapping of the split value's wrapping parts through a closure in the list builder, found %d" % len(hits), common.fn_line(prog, caller))
        return
    bb, t, ck = hits[0]
    if not all(cb.dominates(bb, rb) for rb in cb.return_blocks):
        r2.violation(key, "the conversion of the wrapping parts is skipped on some path of the list builder", site_of(cb, bb))
        return
    try:
        kb = _roles.ib(prog, ck)
    except Exception:
        kb = prog.body(ck)
    ret = strip_refs(kb.expr_local(0))
    comps = ret.a[1] if (ret.k == "agg" and ret.a[0] == "tuple") else None
    if comps is None or len(comps) != 2:
        r2.violation(key, "the mapping closure does not return (convert(leading), convert(trailing)) on every path: %s" % (repr(ret)[:200],), common.fn_line(prog, ck))
        return
    want = [2, 3]
    for i, c in enumerate(comps):
        e = peel_conv(c)
        okc = e.k == "call" and e.a[0].endswith("Parser::convert") and len(e.a[1]) == 2
        if okc:
            par = subst_upvars(prog, ck, e.a[1][0])
            arg = strip_refs(peel_conv(e.a[1][1]))
            okc = is_phonetic_parser(par) and arg.k == "arg" and arg.a[0] == want[i]
        if not okc:
            r2.violation(key, "component %d of the mapping closure is %s, not the phonetic parser's conversion of that part on every path — the candidates' punctuation "
                         "then differs from the transliteration of the typed punctuation" % (i, repr(e)[:200]), common.fn_line(prog, ck))
            return
    r2.ok(key, "leading / trailing := phonetic.convert(leading) / phonetic.convert(trailing), unconditionally")


def _converted_part(prog, b, v, acc, is_phonetic_parser):
    """If v is the phonetic parser's conversion of one part of a split value: that part's name."""
    e = peel_conv(v)
    # convert(parser, part)
    if e.k == "call" and e.a[0].endswith("Parser::convert") and len(e.a[1]) == 2:
        if not is_phonetic_parser(e.a[1][0]):
            return None
        part = peel_conv(e.a[1][1])
        if part.k == "call" and part.a[0] in acc:
            return acc[part.a[0]]
        return None
    # scratch buffer filled by convert_into(parser, part, &mut buf)
    spx = self_path(e)
    if spx is not None and e.k != "call":
        hits = []
        for (bb, t) in b.calls():
            if callee_name(t).endswith("Parser::convert_into"):
                out = self_path(b.expr_operand(t["args"][2]))
                if out == spx:
                    hits.append((bb, t))
        if len(hits) == 1:
            bb, t = hits[0]
            if not is_phonetic_parser(b.expr_operand(t["args"][0])):
                return None
            # the scratch buffer keeps its contents between calls: it must be refilled on every path before it is read
            if not all(b.dominates(bb, rb_) for rb_ in b.return_blocks):
                return None
            part = peel_conv(b.expr_operand(t["args"][1]))
            if part.k == "call" and part.a[0] in acc:
                return acc[part.a[0]]
    return None
