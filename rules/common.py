"""Role locators and tables shared by several properties (DESIGN §3 'Anchors by role')."""
import re

from engine.mir import E, apath, strip_refs, is_const, const_val, callee_name, self_path
from engine.analyses import leaf_assign, switches_on, chain
from engine.program import AnchorError
from engine import tables


def vc_consts(prog):
    """{name: value} of the VC_* u16 constants of the crate."""
    out = {}
    for c in prog.consts:
        if c["name"].startswith("VC_") and c["ty"] == "u16" and "int" in c["val"]:
            out[c["name"]] = c["val"]["int"]
    return out


def key_char_fn(prog):
    """the local fn(u16) -> char | Option<char> that the key event handlers call (the key→character table's entry point)"""
    hits = [k for k, f in prog.fns.items() if f.get("inputs") == ["u16"]
            and f.get("output") in ("char", "std::option::Option<char>")]
    if len(hits) > 1:
        callers = prog.trait_impl_methods("context::Method", "get_suggestion")
        cg = prog.callgraph()
        called = [h for h in hits if any(h in cg[c] for c in callers)]
        if called:
            hits = called
    if len(hits) != 1:
        raise AnchorError("key→char table: fn(u16)->(Option<)char called by the key handlers matched %d items %s" % (len(hits), hits))
    return hits[0]


def key_char_table(prog):
    """Returns (fn key, {keycode: leaf E}, default) where the table is read by evaluating the extracted function over all
    65 536 key codes (a finite space enumerated completely; works whatever the table's spelling: one match, split tables
    joined by or_else, …).  default = ('value', None-aggregate E) | ('panic', callee) | ('unknown', None)."""
    from engine.analyses import PredEval
    if getattr(prog, "_key_table", None) is not None:
        return prog._key_table
    k = key_char_fn(prog)
    pe = PredEval(prog)
    table = {}
    kinds = {}
    returns_option = prog.fns[k]["output"].startswith("std::option::Option<")
    for v in range(0x10000):
        r = pe.call(k, [v])
        if r is None:
            kinds.setdefault("unknown", []).append(v)
        elif isinstance(r, tuple) and r[0] == "diverges":
            kinds.setdefault(("panic", r[1]), []).append(v)
        elif returns_option and isinstance(r, tuple) and r[0] == "none":
            kinds.setdefault("none", []).append(v)
        elif returns_option and isinstance(r, tuple) and r[0] == "some" and isinstance(r[1], int):
            table[v] = E("agg", "adt:std::option::Option::Some", (E("const", ("char", chr(r[1]))),))
        elif not returns_option and isinstance(r, int):
            table[v] = E("const", ("char", chr(r)))
        else:
            kinds.setdefault("unknown", []).append(v)
    if "unknown" in kinds:
        default = ("unknown", None)
    elif any(isinstance(x, tuple) and x[0] == "panic" for x in kinds):
        default = [x for x in kinds if isinstance(x, tuple)][0]
    elif "none" in kinds:
        default = ("value", E("agg", "adt:std::option::Option::None", ()))
    else:
        default = ("unknown", None)
    prog._key_table = (k, table, default)
    return prog._key_table


def layout_table_fn(prog):
    hits = []
    for k, f in prog.fns.items():
        ins = f.get("inputs") or []
        if len(ins) == 4 and ins[1] == "u16" and ins[3] == "bool" and f.get("output", "").startswith("std::option::Option<std::string::String>"):
            hits.append(k)
    if len(hits) != 1:
        raise AnchorError("key→layout-entry table: (u16, _, bool) -> Option<String> matched %d items %s" % (len(hits), hits))
    return hits[0]


def layout_helpers(prog):
    """(keyed helper, numpad helper) = the table function's callees (&Layout, &str, X) -> Option<String>."""
    k = layout_table_fn(prog)
    keyed = numpad = None
    for g in prog.reach([k], foreign_trait_impls=False):
        f = prog.fns[g]
        ins = f.get("inputs") or []
        if g == k or f.get("kind") == "Closure" or len(ins) != 3 or ins[1] != "&str" or not (f.get("output") or "").startswith("std::option::Option<std::string::String>"):
            continue
        if ins[2] == "bool":
            numpad = g
        else:
            keyed = g
    return keyed, numpad


def layout_table(prog):
    """Returns (fn key, rows {keycode: {'callee', 'literal', 'third', 'bb', 'val'}}, default E), read from every
    path of the table function with its private helpers (e.g. split name tables) spliced in."""
    from engine.analyses import sym_paths, PathLimit
    from . import roles
    if getattr(prog, "_layout_table", None) is not None:
        return prog._layout_table
    k = layout_table_fn(prog)
    keyed, numpad = layout_helpers(prog)
    b = roles.ib(prog, k, extra_stop=[x for x in (keyed, numpad) if x])
    try:
        paths = sym_paths(b, 0, 5000)
    except PathLimit as e:
        raise AnchorError("key→layout-entry table: cannot enumerate paths (%s)" % e)
    rows = {}
    default = None
    universe = set(range(0x10000))
    for path, env, conds in paths:
        keys = None
        other = []
        for (d, vals, allv, ty, bb) in conds:
            ds = strip_refs(d)
            if ds.k == "arg" and ds.a[0] == 2:
                cur = set(vals) if vals != "otherwise" else None
                if cur is None:
                    keys = (keys if keys is not None else set(universe)) - set(allv)
                else:
                    keys = cur if keys is None else (keys & cur)
            else:
                other.append((ds, vals))
        val = env.get(0)
        last_call = [bb for (bb, _) in path if b.blocks[bb]["term"]["k"] == "call"]
        row = {"bb": last_call[-1] if last_call else path[-1][0], "val": val, "other": other}
        v = strip_refs(val) if val is not None else None
        if v is not None and v.k == "call":
            row["callee"] = v.a[0]
            args = v.a[1]
            if len(args) == 3:
                lit = strip_refs(args[1])
                row["literal"] = const_val(lit) if is_const(lit, "str") else None
                row["recv"] = args[0]
                row["third"] = strip_refs(args[2])
        if keys is None:
            keys = set(universe)
        if len(keys) > 4096:
            # the default region
            if default is None or (v is not None and v.k == "agg"):
                default = val
            continue
        for kc in keys:
            if kc in rows and rows[kc].get("literal") != row.get("literal"):
                rows[kc] = {"bb": row["bb"], "val": None, "conflict": True}
            else:
                rows[kc] = row
    prog._layout_table = (k, rows, default)
    return prog._layout_table


def header(ctx):
    return ctx.memo("header", lambda: tables.read_header())


def str_literal_sets(prog, fnkey):
    """All `const str`.contains(char) calls of a function: list of (literal, bb)."""
    b = prog.body(fnkey)
    out = []
    for (bb, t) in b.calls():
        if callee_name(t).endswith("str>::contains") or "impl str>::contains" in callee_name(t):
            a0 = strip_refs(b.expr_operand(t["args"][0]))
            if is_const(a0, "str"):
                out.append((const_val(a0), bb))
    return out


def splitter_sets(prog, sp):
    """Every character set the splitter (with its private helpers and closures) consults: [(members as a string, where)] —
    `literal.contains(c)` tests, and char → bool predicate functions evaluated over ASCII, the curly quotes and the danda."""
    from engine.analyses import PredEval
    fns = [k for k in prog.reach([sp], foreign_trait_impls=False)]
    out = []
    pe = None
    for k in sorted(fns):
        out += str_literal_sets(prog, k)
        b = prog.body(k)
        for (bb, t) in b.calls():
            n = callee_name(t)
            f = prog.fns.get(n)
            if f and f.get("inputs") == ["char"] and f.get("output") == "bool" and not f.get("impl"):
                pe = pe or PredEval(prog)
                dom = [chr(c) for c in range(0x20, 0x7f)] + list("‘’“”।॥") + ["ক", "া", "‌"]
                cs = pe.char_set(n, dom)
                if cs:
                    out.append(("".join(sorted(cs)), bb))
    return out


def fn_line(prog, key):
    f = prog.fns[key]
    return {"file": f["loc"]["file"], "line": f["def_loc"]["line"], "function": key}


def _edge_proves_empty(b, s, node, buf, flag_fn):
    """The switch edge `node` of block s is taken only when self.<buf> is empty: buffer.is_empty()'s true edge, or the false edge of
    the session flag (which is true whenever the buffer is non-empty: C06.R3)."""
    from engine.analyses import bool_switch_polarity
    t = b.blocks[s]["term"]
    if t["discr_ty"] != "bool":
        return False
    pol = bool_switch_polarity(b, s).get(node)
    d = strip_refs(b.expr_operand(t["discr"]))
    while d.k == "un" and d.a[0] == "Not":
        d = strip_refs(d.a[1])
        pol = None if pol is None else (not pol)
    if pol is None or d.k != "call" or not d.a[1]:
        return False
    if flag_fn is not None and d.a[0] == flag_fn and self_path(d.a[1][0]) == ():
        return pol is False
    if d.a[0].endswith("::is_empty"):
        x = d.a[1][0]
        for _ in range(4):
            x = strip_refs(x)
            if x.k == "call" and x.a[0].endswith("::deref") and len(x.a[1]) == 1:
                x = x.a[1][0]
                continue
            break
        return self_path(x) == (buf,) and pol is True
    return False


def passes_or_ends_empty(prog, b, start_bb, through, buf, flag_fn, sugg_ty, empty_ctors):
    """Every path from block start_bb to a return passes one of the `through` blocks — or leaves over an edge on which the composed
    text is empty and from there hands out nothing but the empty suggestion.  Returns (ok, offending block or None)."""
    through = set(through)
    seen, work = set(), list(b.bsucc[start_bb])
    bypass_roots = []
    while work:
        x = work.pop()
        if x in seen or x in through:
            continue
        seen.add(x)
        t = b.blocks[x]["term"]
        if t["k"] == "return":
            return False, x
        if t["k"] == "switch":
            for (node, vals, tgt) in b.switch_edges(x):
                if _edge_proves_empty(b, x, node, buf, flag_fn):
                    bypass_roots.append(tgt)
                else:
                    work.append(tgt)
        else:
            work.extend(b.bsucc[x])
    # the by-pass region may only construct the empty suggestion
    for r in bypass_roots:
        for x in b.reachable_from(r):
            t = b.blocks[x]["term"]
            if t["k"] == "call":
                n = callee_name(t)
                out_ty = prog.fns[n].get("output") if n in prog.fns else None
                if out_ty == sugg_ty and n not in empty_ctors:
                    return False, x
    return True, None
