"""Role locators and tables shared by several properties (DESIGN §3 'Anchors by role')."""
import re

from engine.mir import E, apath, strip_refs, is_const, const_val, callee_name
from engine.analyses import leaf_assign, switches_on, chain
from engine.program import AnchorError
from engine import tables


def vc_consts(prog):
    """{name: value} of the VC_* u16 constants of the crate."""
    out = {}
    for c in prog.consts:
        if c["name"].startswith("VC_") and c["ty"] == "u16" and "int" in c["val"]:
            out[c["name"]] = c["val"]["int"]
    return out


def key_char_fn(prog):
    """the local fn(u16) -> char whose body is one switch on its parameter"""
    hits = [k for k, f in prog.fns.items() if f.get("inputs") == ["u16"]
            and f.get("output") in ("char", "std::option::Option<char>")]
    if len(hits) != 1:
        raise AnchorError("key→char table: fn(u16)->(Option<)char matched %d items %s" % (len(hits), hits))
    return hits[0]


def key_char_table(prog):
    """Returns (fn key, {keycode: char-or-None}, default_kind) where default_kind is
    'panic' | 'value' | 'none' ... from the MIR switch of the key→char function."""
    k = key_char_fn(prog)
    b = prog.body(k)
    sw = switches_on(b, lambda e: e.k == "arg" and e.a[0] == 1)
    if len(sw) != 1:
        raise AnchorError("key→char table: expected one switch on the parameter, found %d" % len(sw))
    bb, t = sw[0]
    table = {}
    for (node, vals, tgt) in b.switch_edges(bb):
        val, ch = leaf_assign(b, tgt, 0)
        last = b.blocks[ch[-1]]["term"]
        if vals == "otherwise":
            if val is None:
                # diverging default?
                diverges = last["k"] in ("call",) and last.get("target") is None
                default = ("panic", callee_name(last)) if diverges else ("unknown", None)
            else:
                default = ("value", val)
            continue
        for v in vals:
            table[v] = val
    return k, table, default


def layout_table_fn(prog):
    hits = []
    for k, f in prog.fns.items():
        ins = f.get("inputs") or []
        if len(ins) == 4 and ins[1] == "u16" and ins[3] == "bool" and f.get("output", "").startswith("std::option::Option<std::string::String>"):
            hits.append(k)
    if len(hits) != 1:
        raise AnchorError("key→layout-entry table: (u16, _, bool) -> Option<String> matched %d items %s" % (len(hits), hits))
    return hits[0]


def layout_table(prog):
    """Returns (fn key, rows {keycode: {'callee':…, 'literal':…, 'third': E, 'bb':…}}, default E)."""
    k = layout_table_fn(prog)
    b = prog.body(k)
    sw = switches_on(b, lambda e: e.k == "arg" and e.a[0] == 2)
    if len(sw) != 1:
        raise AnchorError("key→layout-entry table: expected one switch on the key parameter, found %d" % len(sw))
    bb, t = sw[0]
    rows = {}
    default = None
    for (node, vals, tgt) in b.switch_edges(bb):
        val, ch = leaf_assign(b, tgt, 0)
        if vals == "otherwise":
            default = val
            continue
        for v in vals:
            row = {"bb": tgt, "val": val}
            if val is not None and val.k == "call":
                row["callee"] = val.a[0]
                args = val.a[1]
                if len(args) == 3:
                    lit = strip_refs(args[1])
                    row["literal"] = const_val(lit) if is_const(lit, "str") else None
                    row["recv"] = args[0]
                    row["third"] = strip_refs(args[2])
            rows[v] = row
    return k, rows, default


def header(ctx):
    return ctx.memo("header", lambda: tables.read_header())


def str_literal_sets(prog, fnkey):
    """All `const str`.contains(char) calls of a function: list of (literal, bb)."""
    b = prog.body(fnkey)
    out = []
    for (bb, t) in b.calls():
        if callee_name(t).endswith("str>::contains") or "impl str>::contains" in callee_name(t):
            a0 = strip_refs(b.expr_operand(t["args"][0]))
            if is_const(a0, "str"):
                out.append((const_val(a0), bb))
    return out


def fn_line(prog, key):
    f = prog.fns[key]
    return {"file": f["loc"]["file"], "line": f["def_loc"]["line"], "function": key}
