"""Role locators and tables shared by several properties (DESIGN §3 'Anchors by role')."""
import re

from engine.mir import E, apath, strip_refs, is_const, const_val, callee_name, self_path
from engine.analyses import leaf_assign, switches_on, chain, contains_call, peel_conv
from engine.program import AnchorError
from engine import tables


def vc_consts(prog):
    """{name: value} of the VC_* u16 constants of the crate."""
    out = {}
    for c in prog.consts:
        if c["name"].startswith("VC_") and c["ty"] == "u16" and "int" in c["val"]:
            out[c["name"]] = c["val"]["int"]
    return out


def key_char_fn(prog):
    """the local fn(u16) -> char | Option<char> that the key event handlers call (the key→character table's entry point)"""
    hits = [k for k, f in prog.fns.items() if f.get("inputs") == ["u16"]
            and f.get("output") in ("char", "std::option::Option<char>")]
    if len(hits) > 1:
        callers = prog.trait_impl_methods("context::Method", "get_suggestion")
        cg = prog.callgraph()
        called = [h for h in hits if any(h in cg[c] for c in callers)]
        if called:
            hits = called
    if len(hits) != 1:
        raise AnchorError("key→char table: fn(u16)->(Option<)char called by the key handlers matched %d items %s" % (len(hits), hits))
    return hits[0]


def key_char_table(prog):
    """Returns (fn key, {keycode: leaf E}, default) where the table is read by evaluating the extracted function over all
    65 536 key codes (a finite space enumerated completely; works whatever the table's spelling: one match, split tables
    joined by or_else, …).  default = ('value', None-aggregate E) | ('panic', callee) | ('unknown', None)."""
    from engine.analyses import PredEval
    if getattr(prog, "_key_table", None) is not None:
        return prog._key_table
    k = key_char_fn(prog)
    pe = PredEval(prog)
    table = {}
    kinds = {}
    returns_option = prog.fns[k]["output"].startswith("std::option::Option<")
    for v in range(0x10000):
        r = pe.call(k, [v])
        if r is None:
            kinds.setdefault("unknown", []).append(v)
        elif isinstance(r, tuple) and r[0] == "diverges":
            kinds.setdefault(("panic", r[1]), []).append(v)
        elif returns_option and isinstance(r, tuple) and r[0] == "none":
            kinds.setdefault("none", []).append(v)
        elif returns_option and isinstance(r, tuple) and r[0] == "some" and isinstance(r[1], int):
            table[v] = E("agg", "adt:std::option::Option::Some", (E("const", ("char", chr(r[1]))),))
        elif not returns_option and isinstance(r, int):
            table[v] = E("const", ("char", chr(r)))
        else:
            kinds.setdefault("unknown", []).append(v)
    if "unknown" in kinds:
        default = ("unknown", None)
    elif any(isinstance(x, tuple) and x[0] == "panic" for x in kinds):
        default = [x for x in kinds if isinstance(x, tuple)][0]
    elif "none" in kinds:
        default = ("value", E("agg", "adt:std::option::Option::None", ()))
    else:
        default = ("unknown", None)
    prog._key_table = (k, table, default)
    return prog._key_table


def layout_table_fn(prog):
    hits = []
    for k, f in prog.fns.items():
        ins = f.get("inputs") or []
        if len(ins) == 4 and ins[1] == "u16" and ins[3] == "bool" and f.get("output", "").startswith("std::option::Option<std::string::String>"):
            hits.append(k)
    if len(hits) != 1:
        raise AnchorError("key→layout-entry table: (u16, _, bool) -> Option<String> matched %d items %s" % (len(hits), hits))
    return hits[0]


def _entry_value_type(ty):
    """An entry look-up answers with the entry's text, owned or lent: Option<String>, Option<&String>, Option<&str>."""
    import re as _re
    return ty.startswith("std::option::Option<std::string::String>") or \
        _re.fullmatch(r"std::option::Option<&(?:'\w+ )?(?:str|std::string::String)>", ty) is not None


def layout_helpers(prog):
    """(keyed helper, numpad helper) = the table function's callees (&Layout, &str, X) -> Option<String>."""
    k = layout_table_fn(prog)
    keyed = numpad = None
    bare = []
    for g in prog.reach([k], foreign_trait_impls=False):
        f = prog.fns[g]
        ins = f.get("inputs") or []
        if g == k or f.get("kind") == "Closure" or len(ins) not in (2, 3) or ins[1] != "&str" or not _entry_value_type(f.get("output") or ""):
            continue
        if len(ins) == 2:
            # a keypad look-up that takes the entry name only: the keypad switch is tested by the table function before it is called
            # (layout_table reads the gate from the path that reaches the call)
            if "Layout" in ins[0]:
                bare.append(g)
            continue
        # the keyed helper takes the table function's own modifier parameter; the keypad helper takes the keypad switch
        # (the bool itself, or a private type made from it)
        if ins[2] == (prog.fns[k].get("inputs") or [None] * 3)[2]:
            keyed = g
        else:
            numpad = g
    if numpad is None and len(bare) == 1:
        numpad = bare[0]
    return keyed, numpad


def encoded_switch(prog, alt_rows, argno):
    """The helper's third argument as a function of the table function's bool parameter `argno`, when it is passed re-coded
    as a private two-variant field-less enum: (adt, variant index when the bool is true, variant index when false); else None."""
    enc = {}
    adt = None
    for r in alt_rows:
        th = r.get("third")
        if th is None or th.k != "agg" or th.a[1] or not isinstance(th.t, dict) or "vidx" not in th.t:
            return None
        if adt is not None and th.t.get("adt") != adt:
            return None
        adt = th.t.get("adt")
        val = None
        for (ds, vals) in r.get("other", []):
            if ds.k == "arg" and ds.a[0] == argno:
                allv = r["other_allv"].get(id(ds), ())
                if vals == (0,):
                    val = False
                elif vals == (1,) or (vals == "otherwise" and tuple(allv) == (0,)):
                    val = True
                elif vals == "otherwise" and tuple(allv) == (1,):
                    val = False
        if val is None or (val in enc and enc[val] != th.t["vidx"]):
            return None
        enc[val] = th.t["vidx"]
    nvar = len((prog.adts.get(adt) or {}).get("variants", []))
    if set(enc) != {True, False} or enc[True] == enc[False]:
        return None
    return (adt, enc[True], enc[False], nvar)


def layout_table(prog):
    """Returns (fn key, rows {keycode: {'callee', 'literal', 'third', 'bb', 'val'}}, default E), read from every
    path of the table function with its private helpers (e.g. split name tables) spliced in."""
    from engine.analyses import sym_paths, PathLimit
    from . import roles
    if getattr(prog, "_layout_table", None) is not None:
        return prog._layout_table
    k = layout_table_fn(prog)
    keyed, numpad = layout_helpers(prog)
    b = roles.ib(prog, k, extra_stop=[x for x in (keyed, numpad) if x])
    try:
        paths = sym_paths(b, 0, 5000)
    except PathLimit as e:
        raise AnchorError("key→layout-entry table: cannot enumerate paths (%s)" % e)
    rows = {}
    gated_off = set()   # key codes that answer None where the bool parameter is off (a keypad gate written in the table function)
    alts = {}           # key code -> every path's row (a key has several when the arm's arguments depend on another parameter)
    default = None
    universe = set(range(0x10000))
    for path, env, conds in paths:
        keys = None
        other = []
        other_allv = {}
        for (d, vals, allv, ty, bb) in conds:
            ds = strip_refs(d)
            if ds.k == "arg" and ds.a[0] == 2:
                cur = set(vals) if vals != "otherwise" else None
                if cur is None:
                    keys = (keys if keys is not None else set(universe)) - set(allv)
                else:
                    keys = cur if keys is None else (keys & cur)
            else:
                other.append((ds, vals))
                other_allv[id(ds)] = allv
        val = env.get(0)
        last_call = [bb for (bb, _) in path if b.blocks[bb]["term"]["k"] == "call"]
        row = {"bb": last_call[-1] if last_call else path[-1][0], "val": val, "other": other}
        v = strip_refs(val) if val is not None else None
        # helpers that lend the entry's text, copied once at the exit (`value.map(str::to_owned)`): on the helper's Some outcome the function
        # answers Some(copy of it), on its None outcome None — that is the helper's own answer, owned
        if v is not None and v.k == "agg" and str(v.a[0]).endswith("Option::Some") and len(v.a[1]) == 1:
            inner = peel_conv(strip_refs(v.a[1][0]))
            while inner.k in ("ref", "deref"):
                inner = inner.a[0]
            if inner.k == "field" and strip_refs(inner.a[0]).k == "downcast":
                src_ = strip_refs(strip_refs(inner.a[0]).a[0])
                if src_.k == "call" and src_.a[0] in (keyed, numpad) and any(
                        strip_refs(ds_).k == "discr" and strip_refs(strip_refs(ds_).a[0]) == src_ for (ds_, _v) in other):
                    v = src_
        elif v is not None and v.k == "agg" and str(v.a[0]).endswith("Option::None"):
            for (ds_, vals_) in other:
                dd_ = strip_refs(ds_)
                if dd_.k == "discr" and strip_refs(dd_.a[0]).k == "call" and strip_refs(dd_.a[0]).a[0] in (keyed, numpad):
                    allv_ = other_allv.get(id(ds_), ())
                    if vals_ == (0,) or (vals_ == "otherwise" and tuple(allv_) == (1,)):
                        v = strip_refs(dd_.a[0])
        if v is not None and v.k == "call" and v.a[0] == numpad and numpad is not None and len(v.a[1]) == 2:
            # the gate written in the table function: this path reaches the keypad look-up only where the bool parameter is on
            gate_ = None
            for (ds_, vals_) in other:
                if ds_.k == "arg" and prog.fns[k]["inputs"][ds_.a[0] - 1] == "bool":
                    allv_ = other_allv.get(id(ds_), ())
                    on_ = vals_ == (1,) or (vals_ == "otherwise" and tuple(allv_) == (0,))
                    gate_ = ds_ if on_ else False
            row["callee"] = v.a[0]
            lit = strip_refs(v.a[1][1])
            row["literal"] = const_val(lit) if is_const(lit, "str") else None
            row["recv"] = v.a[1][0]
            row["third"] = gate_ if gate_ not in (None, False) else E("const", ("str", "no gate on the path" if gate_ is None else "reached with the option off"))
            row["gated_in_table"] = True
        elif v is not None and v.k == "agg" and str(v.a[0]).endswith("Option::None") and numpad is not None \
                and len(prog.fns[numpad].get("inputs") or []) == 2 and keys is not None and len(keys) <= 4096 \
                and any(ds_.k == "arg" and prog.fns[k]["inputs"][ds_.a[0] - 1] == "bool" and
                        (vals_ == (0,) or (vals_ == "otherwise" and tuple(other_allv.get(id(ds_), ())) == (1,))) for (ds_, vals_) in other):
            # the same key with the keypad switch off: no value — the other half of the gate, not a row of its own
            gated_off.update(keys)
            continue
        elif v is not None and v.k == "call":
            row["callee"] = v.a[0]
            args = v.a[1]
            if len(args) == 3:
                lit = strip_refs(args[1])
                row["literal"] = const_val(lit) if is_const(lit, "str") else None
                row["recv"] = args[0]
                row["third"] = strip_refs(args[2])
        # an arm driven by a constant table: `TABLE.iter().find(|(code, _)| *code == key)` — on the Some edge every table row is an arm of its own
        tab = None
        for (ds, vals_) in other:
            if ds.k != "discr":
                continue
            fc = contains_call(ds, lambda n: n.endswith("Iterator>::find") or n.endswith("Iterator::find"))
            if fc is None or len(fc.a[1]) != 2:
                continue
            clo = strip_refs(fc.a[1][1])
            tv = None
            for x in fc.a[1][0].walk():
                if x.k == "const" and isinstance(x.t, dict) and "value" in x.t and "array" in x.t["value"]:
                    tv = x.t["value"]["array"]
            if tv is None or not (clo.k == "agg" and str(clo.a[0]).startswith("closure:")):
                continue
            from engine.analyses import PredEval
            shape = PredEval(prog)._eq_closure_shape(clo.a[0][8:])
            ups = [strip_refs(u) for u in clo.a[1]]
            if shape is None or len(shape[0]) != 1 or shape[1] >= len(ups):
                continue
            up = ups[shape[1]]
            while up.k in ("ref", "deref"):
                up = up.a[0]
            if not (up.k == "arg" and up.a[0] == 2):
                continue
            allv_ = other_allv.get(id(ds), ())
            is_some_ = vals_ == (1,) or (vals_ == "otherwise" and 0 in allv_ and 1 not in allv_)
            is_none_ = vals_ == (0,) or (vals_ == "otherwise" and 1 in allv_ and 0 not in allv_)
            if not (is_some_ or is_none_):
                continue
            tab = (tv, shape[0][0], is_some_)
        if tab is not None and keys is None:
            keys = set(universe)
        if tab is not None:
            tv, kidx, is_some = tab
            tkeys = [r_["tuple"][kidx] for r_ in tv if "tuple" in r_ and isinstance(r_["tuple"][kidx], int)]
            if is_some:
                # which component of the row is handed to the helper as the entry name
                lit_idx = None
                if v is not None and v.k == "call" and len(v.a[1]) == 3:
                    a1 = v.a[1][1]
                    while a1.k in ("ref", "deref"):
                        a1 = a1.a[0]
                    if a1.k == "field" and isinstance(a1.a[1], (int, str)) and str(a1.a[1]).isdigit() and contains_call(a1, lambda n: n.endswith("::find")) is not None:
                        lit_idx = int(a1.a[1])
                seen_first = set()
                for r_ in tv:
                    kc = r_["tuple"][kidx]
                    if kc in seen_first or kc not in keys:
                        continue
                    seen_first.add(kc)
                    rr = dict(row)
                    rr["literal"] = r_["tuple"][lit_idx].get("str") if lit_idx is not None and isinstance(r_["tuple"][lit_idx], dict) else None
                    rows[kc] = rr
                continue
            keys = keys - set(tkeys)
        if keys is None:
            keys = set(universe)
        if len(keys) > 4096:
            # the default region
            if default is None or (v is not None and v.k == "agg"):
                default = val
            continue
        row["other_allv"] = other_allv
        for kc in keys:
            alts.setdefault(kc, []).append(row)
            if kc in rows and rows[kc].get("literal") != row.get("literal"):
                rows[kc] = {"bb": row["bb"], "val": None, "conflict": True}
            else:
                rows[kc] = row
    prog._layout_alts = alts
    prog._layout_gated_off = gated_off
    prog._layout_table = (k, rows, default)
    return prog._layout_table


def header(ctx):
    return ctx.memo("header", lambda: tables.read_header())


def str_literal_sets(prog, fnkey):
    """All `const str`.contains(char) calls of a function: list of (literal, bb)."""
    b = prog.body(fnkey)
    out = []
    for (bb, t) in b.calls():
        if callee_name(t).endswith("str>::contains") or "impl str>::contains" in callee_name(t):
            a0 = strip_refs(b.expr_operand(t["args"][0]))
            if is_const(a0, "str"):
                out.append((const_val(a0), bb))
    return out


def splitter_sets(prog, sp):
    """Every character set the splitter (with its private helpers and closures) consults: [(members as a string, where)] —
    `literal.contains(c)` tests, and char → bool predicate functions evaluated over ASCII, the curly quotes and the danda."""
    from engine.analyses import PredEval
    fns = [k for k in prog.reach([sp], foreign_trait_impls=False)]
    out = []
    pe = None
    for k in sorted(fns):
        out += str_literal_sets(prog, k)
        b = prog.body(k)
        for (bb, t) in b.calls():
            n = callee_name(t)
            f = prog.fns.get(n)
            if f and f.get("inputs") == ["char"] and f.get("output") == "bool" and not f.get("impl"):
                pe = pe or PredEval(prog)
                dom = [chr(c) for c in range(0x20, 0x7f)] + list("‘’“”।॥") + ["ক", "া", "‌"]
                dom += sorted({c for lit, _ in out for c in lit} - set(dom))       # every character a literal set of the splitter names
                cs = pe.char_set(n, dom)
                if cs:
                    out.append(("".join(sorted(cs)), bb))
    return out


def fn_line(prog, key):
    f = prog.fns[key]
    return {"file": f["loc"]["file"], "line": f["def_loc"]["line"], "function": key}


def _edge_proves_empty(b, s, node, buf, flag_fn):
    """The switch edge `node` of block s is taken only when self.<buf> is empty: buffer.is_empty()'s true edge, or the false edge of
    the session flag (which is true whenever the buffer is non-empty: C06.R3)."""
    from engine.analyses import bool_switch_polarity
    t = b.blocks[s]["term"]
    if t["discr_ty"] != "bool":
        return False
    pol = bool_switch_polarity(b, s).get(node)
    d = strip_refs(b.expr_operand(t["discr"]))
    while d.k == "un" and d.a[0] == "Not":
        d = strip_refs(d.a[1])
        pol = None if pol is None else (not pol)
    if pol is None or d.k != "call" or not d.a[1]:
        return False
    if flag_fn is not None and d.a[0] == flag_fn and self_path(d.a[1][0]) == ():
        return pol is False
    if d.a[0].endswith("::is_empty"):
        x = d.a[1][0]
        for _ in range(4):
            x = strip_refs(x)
            if x.k == "call" and x.a[0].endswith("::deref") and len(x.a[1]) == 1:
                x = x.a[1][0]
                continue
            break
        return self_path(x) == (buf,) and pol is True
    return False


def passes_or_ends_empty(prog, b, start_bb, through, buf, flag_fn, sugg_ty, empty_ctors):
    """Every path from block start_bb to a return passes one of the `through` blocks — or leaves over an edge on which the composed
    text is empty and from there hands out nothing but the empty suggestion.  Returns (ok, offending block or None)."""
    through = set(through)
    seen, work = set(), list(b.bsucc[start_bb])
    bypass_roots = []
    while work:
        x = work.pop()
        if x in seen or x in through:
            continue
        seen.add(x)
        t = b.blocks[x]["term"]
        if t["k"] == "return":
            return False, x
        if t["k"] == "switch":
            for (node, vals, tgt) in b.switch_edges(x):
                if _edge_proves_empty(b, x, node, buf, flag_fn):
                    bypass_roots.append(tgt)
                else:
                    work.append(tgt)
        else:
            work.extend(b.bsucc[x])
    # the by-pass region may only construct the empty suggestion
    for r in bypass_roots:
        for x in b.reachable_from(r):
            t = b.blocks[x]["term"]
            if t["k"] == "call":
                n = callee_name(t)
                out_ty = prog.fns[n].get("output") if n in prog.fns else None
                if out_ty == sugg_ty and n not in empty_ctors:
                    return False, x
    return True, None


def plain_options(rule, prog, getters):
    """Shared rule body: each named Config getter is a plain record read — `get_x` returns one field of the receiver and nothing else,
    exactly one setter stores its bool parameter unchanged into that field (and writes nothing else), no other Config method writes the
    field, and the exported C setter passes the caller's value through.  A property that says "with the option on/off" speaks of the
    value the front end has set: an accessor that mixes another option in, inverts or defaults the value makes the option the rules
    test a different one from the option the user set."""
    from . import builders
    cfg = builders.CONFIG if hasattr(builders, "CONFIG") else "config::Config"
    cfg_fns = {k: f for k, f in prog.fns.items() if ((f.get("impl") or {}).get("self") or "") == cfg and not (f.get("impl") or {}).get("trait")}
    exported = [k for k, f in prog.fns.items() if f.get("no_mangle")]
    for g in sorted(set(getters)):
        key = "option:%s" % g
        gk = [k for k in cfg_fns if k.rsplit("::", 1)[-1] == g]
        if len(gk) != 1:
            rule.undecidable(key, "Config getter %s not found uniquely" % g)
            continue
        gb = prog.raw_body(gk[0])
        ret = strip_refs(gb.expr_local(0))
        sp = self_path(ret)
        if len(gb.rblocks) != 1 or gb.calls() or sp is None or len(sp) != 1:
            rule.violation(key, "%s does not simply return one field of the configuration (it returns %r): the option the rules test is not the value the front end set"
                           % (g, ret), fn_line(prog, gk[0]))
            continue
        field = sp[0]
        writers = []
        for k in sorted(cfg_fns):
            b = prog.raw_body(k)
            for (i, j, st) in b.stmts():
                if st["k"] == "assign" and st["place"]["l"] == 1 and len(st["place"]["p"]) == 2 and st["place"]["p"][0] == "*" \
                        and isinstance(st["place"]["p"][1], dict) and st["place"]["p"][1].get("n") == field:
                    writers.append((k, b, st))
                elif st["k"] == "assign" and st["place"]["l"] == 1 and len(st["place"]["p"]) == 3 and st["place"]["p"][0] == "*" \
                        and all(isinstance(x_, dict) and "n" in x_ for x_ in st["place"]["p"][1:]):
                    # the option kept in a helper struct embedded in the configuration (`self.output.smart_quote`): the helper's field is the
                    # configuration's own (the same dissolution the readers use)
                    from engine import mir as _mir
                    d_ = _mir.DISSOLVE.get(st["place"]["p"][1]["n"])
                    if d_ and d_.get("owner") == cfg and d_["rename"].get(st["place"]["p"][2]["n"]) == field:
                        writers.append((k, b, st))
        if len(writers) != 1:
            rule.violation(key, "the field %s behind %s is written by %d Config methods (%s); expected exactly one setter" %
                           (field, g, len(writers), ", ".join(w[0].rsplit("::", 1)[-1] for w in writers)), fn_line(prog, gk[0]))
            continue
        sk, sb, st = writers[0]
        val = strip_refs(sb.expr_rvalue(st["rv"]))
        other_writes = [s2 for (i, j, s2) in sb.stmts() if s2["k"] == "assign" and s2["place"]["l"] == 1 and s2["place"]["p"] and s2 is not st]
        if not (val.k == "arg" and val.a[0] == 2) or len(sb.rblocks) != 1 or sb.calls() or other_writes or prog.fns[sk].get("inputs", [None, None])[1:] != ["bool"]:
            rule.violation(key, "the setter %s stores %r into %s (expected: its bool parameter, unchanged, and nothing else)" % (sk.rsplit("::", 1)[-1], val, field),
                           fn_line(prog, sk))
            continue
        passes = []
        for ek in exported:
            eb = prog.raw_body(ek)
            for (bb, t) in eb.calls():
                if callee_name(t) == sk:
                    a = strip_refs(eb.expr_operand(t["args"][1]))
                    passes.append((ek, a.k == "arg" and a.a[0] == 2))
        if len(passes) != 1 or not passes[0][1]:
            rule.violation(key, "the setter %s is reached from %d exported functions %s; expected one that passes the caller's value through unchanged"
                           % (sk.rsplit("::", 1)[-1], len(passes), [p[0] for p in passes if not p[1]] or ""), fn_line(prog, sk))
            continue
        rule.ok(key, "%s = self.%s; set only by %s(value) ← %s(ptr, value)" % (g, field, sk.rsplit("::", 1)[-1], passes[0][0].rsplit("::", 1)[-1]))


def context_delegation(rule, prog, names):
    """Shared rule body: the context's (and the C API's) entry point for each named trait method is a delegation — exactly one RitiContext
    method performs the virtual call `Method::<name>` on the stored method object, that call is executed on every path (it dominates every
    return), the caller's parameters are passed through unchanged and, where a value is returned, the returned value is the call's own
    result.  What the properties say about a key / back-space / session query is said about the method object's answer; an entry point
    that answers from a cached copy, rewrites an argument or skips the call makes the observed behaviour a different function."""
    ctx_ty = "context::RitiContext"
    trait = "context::Method"
    for nm in names:
        key = "delegates:%s" % nm
        hosts = []
        for k, f in sorted(prog.fns.items()):
            if ((f.get("impl") or {}).get("self") or "") != ctx_ty or (f.get("impl") or {}).get("trait"):
                continue
            b = prog.raw_body(k)
            sites = [bb for (bb, t) in b.calls() if (t.get("callee") or {}).get("path") == "%s::%s" % (trait, nm) and (t.get("callee") or {}).get("rkind") == "virtual"]
            if sites:
                hosts.append((k, b, sites))
        if len(hosts) != 1 or len(hosts[0][2]) != 1:
            rule.violation(key, "expected exactly one RitiContext method performing the virtual call Method::%s, found %s" % (nm, [(h[0], len(h[2])) for h in hosts]), None)
            continue
        k, b, (site,) = hosts[0]
        t = b.blocks[site]["term"]
        rets = [i for i in b.rblocks if b.blocks[i]["term"]["k"] == "return"]
        if not rets or not all(b.dominates(site, r) for r in rets):
            rule.violation(key, "%s can return without calling the method object's %s" % (k.rsplit("::", 1)[-1], nm), site_dict(prog, k, b, site))
            continue
        bad_arg = None
        nxt = 2
        for a in t["args"][1:]:
            e = strip_refs(b.expr_operand(a))
            if e.k == "arg" and e.a[0] == nxt:
                nxt += 1
                continue
            sp = self_path(e)
            if sp is not None and len(sp) == 1:
                continue                                  # &self.data / &self.config
            bad_arg = e
            break
        if bad_arg is not None:
            rule.violation(key, "%s passes %r to the method object's %s instead of its own parameter" % (k.rsplit("::", 1)[-1], bad_arg, nm), site_dict(prog, k, b, site))
            continue
        if prog.fns[k].get("output") not in ("()", None):
            ret = strip_refs(b.expr_local(0))
            if not (ret.k == "call" and ret.a[2] == site):
                rule.violation(key, "%s returns %r, not the answer of the method object's %s" % (k.rsplit("::", 1)[-1], ret, nm), fn_line(prog, k))
                continue
            # the exported wrapper hands the same value out (scalar results only; boxed results are C19's pairs)
            if prog.fns[k].get("output") == "bool":
                ex = []
                for ek, ef in sorted(prog.fns.items()):
                    if not ef.get("no_mangle"):
                        continue
                    eb = prog.raw_body(ek)
                    for (bb2, t2) in eb.calls():
                        if callee_name(t2) == k:
                            ex.append((ek, eb, bb2))
                if len(ex) != 1:
                    rule.violation(key, "expected one exported function calling %s, found %d" % (k, len(ex)), fn_line(prog, k))
                    continue
                ek, eb, bb2 = ex[0]
                r2 = strip_refs(eb.expr_local(0))
                alts = list(r2.a[0]) if r2.k == "phi" else [r2]
                if not any(strip_refs(x).k == "call" and strip_refs(x).a[2] == bb2 for x in alts) or any(strip_refs(x).k not in ("call", "const") for x in alts):
                    rule.violation(key, "%s returns %r, not the context's answer" % (ek, r2), fn_line(prog, ek))
                    continue
        rule.ok(key, "%s → Method::%s with its parameters passed through%s" % (k.rsplit("::", 1)[-1], nm, "" if prog.fns[k].get("output") in ("()", None) else "; returns the call's result"))


def site_dict(prog, k, b, bb):
    from engine.report import site_of
    return site_of(b, bb)


def splitter_char_tests(prog, sp):
    """Single characters the splitter (with its private helpers and closures) compares the scanned character with (`c == ':'`, a `match`
    arm): [(char, where)].  Together with splitter_sets these are all the characters the splitter can treat specially."""
    out = []
    for k in sorted(prog.reach([sp], foreign_trait_impls=False)):
        b = prog.body(k)
        for i in b.rblocks:
            for st in b.blocks[i]["stmts"]:
                if st["k"] == "assign" and st["rv"]["k"] == "binop" and st["rv"]["op"] in ("Eq", "Ne"):
                    for o in (st["rv"]["l"], st["rv"]["r"]):
                        if o["k"] == "const" and o.get("char") is not None and o.get("ty") == "char":
                            out.append((o["char"], (k, i)))
            t = b.blocks[i]["term"]
            if t["k"] == "switch" and t.get("discr_ty") == "char":
                for v, _ in t["targets"]:
                    out.append((chr(v), (k, i)))
    return out


LOAD_WRAPPERS = ("::unwrap", "::expect", "::ok", "::unwrap_or_default", "Try>::branch", "::into", "::from")


def verbatim_loads(rule, prog, ctor, adt_path, fields, what):
    """Shared rule body: each named field of `adt_path` built by `ctor` is the deserialised file as it is — the operand's value is
    `serde_json::from_*(…)` behind nothing but Option/Result plumbing, and no local it passes through is ever borrowed mutably
    (no insert / retain / entry / sort between reading the file and storing the table).  The properties speak of what the data /
    layout *file* assigns; a loader that completes, prunes or rewrites entries makes the table the rules read a different one."""
    from . import roles as _roles
    from engine.analyses import contains_call
    ctors = [ctor] if isinstance(ctor, str) else list(ctor)
    aggs = []
    mut_borrowed_of = {}
    from engine import mir as _mir0
    # a private helper struct embedded in the owner only groups some of its fields: its aggregate builds those fields
    helpers_ = {d["helper"]: d for d in _mir0.DISSOLVE.values() if d["owner"] == adt_path}
    for ck in ctors:
        b_ = _roles.ib(prog, ck)
        for i in b_.rblocks:
            for st in b_.blocks[i]["stmts"]:
                if st["k"] == "assign" and st["rv"]["k"] == "aggregate" and st["rv"].get("agg") == "adt" and \
                        (st["rv"].get("adt") == adt_path or st["rv"].get("adt") in helpers_):
                    aggs.append((b_, i, st))
        mb = {}
        for (i, j, st) in b_.stmts():
            if st["k"] == "assign" and st["rv"]["k"] == "ref" and st["rv"].get("mut"):
                mb.setdefault(st["rv"]["place"]["l"], (i, st))
        mut_borrowed_of[id(b_)] = mb
    ctor = ctors[0]
    if not aggs:
        rule.undecidable("load", "%s does not build a %s" % (ctors, adt_path), fn_line(prog, ctor))
        return
    for f in fields:
        key = "load:%s" % f
        verdict = None
        n_loaded = 0
        for (b, i, st) in aggs:
            mut_borrowed = mut_borrowed_of[id(b)]
            names = [str(x) for x in st["rv"].get("fields") or []]
            if st["rv"].get("adt") in helpers_:
                names = [helpers_[st["rv"]["adt"]]["rename"].get(x, x) for x in names]
            if f not in names:
                continue
            op = st["rv"]["ops"][names.index(f)]
            e = strip_refs(b.expr_operand(op))
            if contains_call(e, lambda n: "serde_json" in n and "from_" in n) is None:
                continue                               # the empty-table constructor (verbose / default variants)
            n_loaded += 1
            x = e
            ok = True
            while True:
                x = strip_refs(x)
                if x.k == "call" and "serde_json" in x.a[0] and "from_" in x.a[0]:
                    break
                if x.k == "call" and x.a[1] and any(x.a[0].endswith(w) or w in x.a[0] for w in LOAD_WRAPPERS):
                    x = x.a[1][0]
                    continue
                if x.k in ("field", "downcast"):
                    x = x.a[0]
                    continue
                if x.k == "phi":
                    def _empty_alt(a):
                        a = strip_refs(a)
                        while a.k in ("field", "downcast"):          # a component of `Default::default()` for a tuple of tables
                            a = strip_refs(a.a[0])
                        return a.k == "call" and not a.a[1] and a.a[0].endswith(("::default", "::new", "::default()"))
                    alts = [a for a in x.a[0] if not (strip_refs(a).k == "agg" and str(strip_refs(a).a[0]).endswith(("Option::None", "ControlFlow::Break")))
                            and not _empty_alt(a)]   # the empty table of another variant
                    if len(alts) == 1:
                        x = alts[0]
                        continue
                if x.k == "agg" and str(x.a[0]).endswith(("Option::Some", "Result::Ok", "ControlFlow::Continue")) and len(x.a[1]) == 1:
                    x = x.a[1][0]
                    continue
                from engine import mir as _mir
                if x.k == "agg" and len(x.a[1]) == 1 and x.t is not None and any(d["helper"] == x.t.get("adt") for d in _mir.DISSOLVE.values()):
                    x = x.a[1][0]               # a private newtype around the table: the wrapped value is the field
                    continue
                ok = False
                break
            if not ok:
                verdict = ("the %s stored in %s.%s is %r — not the deserialised file as it is" % (what, adt_path.rsplit("::", 1)[-1], f, e), site_dict(prog, ctor, b, i))
                break
            # locals the value travels through
            if op["k"] != "const":
                l = op["place"]["l"]
                chain_ = [l]
                for _ in range(8):
                    wd = b.whole_defs(l)
                    if len(wd) == 1 and wd[0][2] == "assign" and wd[0][3]["rv"]["k"] == "use" and wd[0][3]["rv"]["op"].get("k") in ("move", "copy"):
                        l = wd[0][3]["rv"]["op"]["place"]["l"]
                        chain_.append(l)
                        continue
                    break
                hit = [c for c in chain_ if c in mut_borrowed]
                if hit:
                    bi, bst = mut_borrowed[hit[0]]
                    verdict = ("the %s is modified between reading the file and storing it in %s.%s (a mutable borrow of the loaded table): the table is no "
                               "longer what the file assigns" % (what, adt_path.rsplit("::", 1)[-1], f), site_dict(prog, ctor, b, bi))
                    break
        if verdict is not None:
            rule.violation(key, verdict[0], verdict[1])
        elif n_loaded == 0:
            rule.undecidable(key, "no construction of %s.%s from a deserialised file found in %s" % (adt_path, f, ctor), fn_line(prog, ctor))
        else:
            rule.ok(key, "%s.%s = the deserialised file, unmodified" % (adt_path.rsplit("::", 1)[-1], f))


def pure_table_accessors(rule, prog, owner_ty, want=None):
    """Shared rule body: every look-up accessor of `owner_ty` that reads one of its HashMap tables is a pure look-up of its own argument:
    the `get` is executed on every path, is keyed by the accessor's parameter (through value-preserving conversions only), every branch
    of the accessor is a test of the look-up's own result, and the result is derived from it.  A shortcut in front of the look-up (a
    length bound, a cache, a pre-filter) makes entries of the data file unreachable for particular arguments."""
    from . import roles as _roles
    from engine.analyses import contains_call, peel_conv
    n = 0
    for k, f in sorted(prog.fns.items()):
        imp = f.get("impl") or {}
        if (imp.get("self") or "") != owner_ty or imp.get("trait") or f.get("kind") == "Closure" or len(f.get("inputs") or []) != 2:
            continue
        b = _roles.ib(prog, k)            # (accessors of a private struct the owner embeds are spliced in: the table is then self.<part>.<table>)
        gets = [(bb, t) for (bb, t) in b.calls() if callee_name(t).endswith("::get") and "HashMap" in callee_name(t)
                and self_path(b.expr_operand(t["args"][0])) is not None and 1 <= len(self_path(b.expr_operand(t["args"][0]))) <= 2]
        if not gets:
            continue
        short = k.rsplit("::", 1)[-1]
        key = "lookup:%s" % short
        n += 1
        if len(gets) != 1:
            rule.violation(key, "%s performs %d table look-ups" % (short, len(gets)), fn_line(prog, k))
            continue
        gbb, gt = gets[0]
        keyarg = peel_conv(b.expr_operand(gt["args"][1]))
        rets = [i for i in b.rblocks if b.blocks[i]["term"]["k"] == "return"]
        if not (keyarg.k == "arg" and keyarg.a[0] == 2):
            rule.violation(key, "%s looks %r up instead of its own argument" % (short, keyarg), site_dict(prog, k, b, gbb))
            continue
        if not all(b.dominates(gbb, r_) for r_ in rets):
            rule.violation(key, "%s can return without consulting the table (a shortcut in front of the look-up): entries of the data file become unreachable for some arguments"
                           % short, site_dict(prog, k, b, gbb))
            continue
        stray = None
        for i in b.rblocks:
            t = b.blocks[i]["term"]
            if t["k"] == "switch":
                d = strip_refs(b.expr_operand(t["discr"]))
                if contains_call(d, lambda nm: nm == callee_name(gt)) is None:
                    stray = (i, d)
        if stray is not None:
            rule.violation(key, "%s branches on %r, which is not the look-up's own result" % (short, stray[1]), site_dict(prog, k, b, stray[0]))
            continue
        ret = b.expr_local(0)
        if contains_call(ret, lambda nm: nm == callee_name(gt)) is None:
            rule.violation(key, "%s does not return what the table look-up found (%r)" % (short, strip_refs(ret)), fn_line(prog, k))
            continue
        rule.ok(key, "%s(x) = self.%s.get(x) on every path, nothing else decides the result" % (short, ".".join(self_path(b.expr_operand(gt["args"][0])))))
    return n


def value_reaches_processor(rule, prog, key="processed"):
    """Shared rule body: in the fixed key event, whenever the layout look-up yields a value, that value is handed to the key-value processor — the call
    post-dominates the look-up's Some edge (no early return, no filter between the table and the composition rules) and its argument is the look-up's
    own payload.  A key whose value is dropped in between appends nothing although the layout assigns it a string."""
    from . import c13
    from engine.analyses import contains_call
    fnk = layout_table_fn(prog)
    kv = c13.key_value_processor(prog)
    handler = None
    for t in prog.method_structs():
        k = prog.method_impl(t, "get_suggestion")
        if fnk in prog.callgraph()[k]:
            handler = k
    if handler is None:
        rule.undecidable(key, "no Method::get_suggestion calls the key→entry table")
        return
    b = prog.body(handler)
    look = [bb for (bb, t) in b.calls() if callee_name(t) == fnk]
    proc = [bb for (bb, t) in b.calls() if callee_name(t) == kv]
    if len(look) != 1 or len(proc) != 1:
        rule.undecidable(key, "expected one layout look-up and one call of the key-value processor in the key event, found %d / %d" % (len(look), len(proc)), fn_line(prog, handler))
        return
    lt = b.blocks[look[0]]["term"]
    pt = b.blocks[proc[0]]["term"]
    arg = b.expr_operand(pt["args"][1])
    if contains_call(arg, lambda n: n == fnk) is None:
        rule.violation(key, "the key-value processor is given %r, not the value the layout look-up returned" % (strip_refs(arg),), site_dict(prog, handler, b, proc[0]))
        return
    # the switch on the look-up's result: the edge that leads to the processor must be post-dominated by it
    sw = None
    for s_ in b.rblocks:
        t = b.blocks[s_]["term"]
        if t["k"] == "switch":
            d = strip_refs(b.expr_operand(t["discr"]))
            if d.k == "discr" and strip_refs(d.a[0]).k == "call" and strip_refs(d.a[0]).a[0] == fnk:
                sw = s_
    if sw is None:
        rule.undecidable(key, "the key event does not branch on the look-up's result", fn_line(prog, handler))
        return
    some_tgts = [tgt for (node, vals, tgt) in b.switch_edges(sw) if proc[0] in b.reachable_from(tgt) or tgt == proc[0]]
    if len(some_tgts) != 1:
        rule.undecidable(key, "cannot tell the look-up's Some edge (%d edges reach the processor)" % len(some_tgts), site_dict(prog, handler, b, sw))
        return
    if some_tgts[0] == proc[0] or b.postdominates(proc[0], some_tgts[0]):
        rule.ok(key, "every value the layout look-up yields is handed to the key-value processor (the call post-dominates the Some edge)")
    else:
        rule.violation(key, "between the layout look-up and the key-value processor the key event can return: a key the layout assigns a value to is dropped "
                       "under some condition and appends nothing", site_dict(prog, handler, b, some_tgts[0]))


def built_now(rule, prog, event_fn, label, ctor_names, ident="built-now", fresh_list=False):
    """Every Suggestion the event can return was produced on this event's own path by a Suggestion constructor (possibly through local
    functions) — not loaded or cloned from state kept since an earlier event.  A replayed value shows what an earlier text looked like."""
    from engine.analyses import peel_conv
    b = prog.body(event_fn)
    bad = []          # (kind, description)
    n_src = [0]

    def of_expr(e, body, depth, seen):
        e = strip_refs(e)
        if e.k == "phi":
            for x in e.a[0]:
                of_expr(x, body, depth, seen)
            return
        if e.k == "call":
            g = e.a[0]
            if g in ctor_names:
                n_src[0] += 1
                if fresh_list and ctor_names[g] == "list" and len(e.a[1]) > 1:
                    lst = strip_refs(peel_conv(strip_refs(e.a[1][1])))
                    spl = self_path(lst)
                    if spl is not None and len(spl) >= 1:
                        bad.append(("stored-list", "self.%s" % ".".join(str(x) for x in spl)))
                return
            last = g.split("::")[-1]
            if last in ("clone", "to_owned", "take", "replace") and e.a[1]:
                sp0 = self_path(strip_refs(e.a[1][0]))
                if sp0 is not None and len(sp0) >= 1:
                    bad.append(("stored", "self.%s" % ".".join(str(x) for x in sp0)))
                    return
            if g in prog.fns and depth < 6:
                if g in seen:
                    return
                of_fn(g, depth + 1, seen | {g})
                return
            if last in ("clone", "to_owned", "take", "replace", "unwrap_or_default", "unwrap", "unwrap_or", "unwrap_or_else", "expect") and e.a[1]:
                inner = strip_refs(e.a[1][0])
                sp = self_path(inner)
                if sp is not None and len(sp) >= 1:
                    bad.append(("stored", "self.%s" % ".".join(str(x) for x in sp)))
                    return
                of_expr(inner, body, depth, seen)
                return
            bad.append(("unknown", g))
            return
        sp = self_path(e)
        if sp is not None and len(sp) >= 1:
            bad.append(("stored", "self.%s" % ".".join(str(x) for x in sp)))
            return
        p2 = peel_conv(e)
        if p2 is not e and p2 != e:
            of_expr(p2, body, depth, seen)
            return
        bad.append(("unknown", repr(e)[:120]))

    def of_fn(g, depth, seen):
        gb = prog.body(g)
        ds = gb.defs.get(0, [])
        if not ds:
            bad.append(("unknown", "no definition of the return value in %s" % g))
        for d in ds:
            if d[3] is None:
                continue
            if d[2] == "call" and not d[3]["dest"]["p"]:
                t = d[3]
                of_expr(E("call", callee_name(t), tuple(gb.expr_operand(a) for a in t["args"]), d[0], t=t), gb, depth, seen)
            elif d[2] == "assign" and not d[3]["place"]["p"]:
                of_expr(gb.expr_rvalue(d[3]["rv"]), gb, depth, seen)
            elif d[3].get("place", {}).get("p") or d[3].get("dest", {}).get("p"):
                continue          # a write into a part of the value (the selection of a suggestion just built)
            else:
                bad.append(("unknown", "return value of %s defined by %s" % (g, d[2])))

    of_fn(event_fn, 0, frozenset([event_fn]))
    stored = sorted({d for k, d in bad if k == "stored"})
    unknown = sorted({d for k, d in bad if k == "unknown"})
    key = "%s:%s" % (ident, label)
    stored_list = sorted({d for k, d in bad if k == "stored-list"})
    if stored_list and not stored:
        rule.violation(key, "the event can return a list suggestion built from %s as it was left by an earlier event — the candidates are not those of the present "
                       "text and options" % ", ".join(stored_list), fn_line(prog, event_fn))
        return
    if stored:
        rule.violation(key, "the event can return a suggestion taken from %s — a value kept from an earlier event instead of one built from the present text "
                       "(after a back-space or an option change it shows an earlier state)" % ", ".join(stored), fn_line(prog, event_fn))
    elif unknown:
        rule.undecidable(key, "cannot tell where a returned suggestion comes from: %s" % "; ".join(unknown)[:300], fn_line(prog, event_fn))
    elif n_src[0] == 0:
        rule.undecidable(key, "no Suggestion constructor found behind the event's return value", fn_line(prog, event_fn))
    else:
        rule.ok(key, "every returned suggestion comes from a Suggestion constructor run on this event's path (%d source(s))" % n_src[0])


def _variant_index(prog, e):
    """Discriminant value an expression compares with: a constant integer, or discr(agg of a fieldless variant)."""
    e = strip_refs(e)
    if is_const(e, "int"):
        return const_val(e)
    if e.k == "discr":
        a = strip_refs(e.a[0])
        if a.k == "agg" and str(a.a[0]).startswith("adt:") and not a.a[1]:
            path, _, vname = str(a.a[0])[4:].rpartition("::")
            adt = prog.adts.get(path)
            if adt:
                names = [v["name"] for v in adt["variants"]]
                if vname in names:
                    return names.index(vname)
    if e.k == "agg" and str(e.a[0]).startswith("adt:") and not e.a[1]:
        path, _, vname = str(e.a[0])[4:].rpartition("::")
        adt = prog.adts.get(path)
        if adt:
            names = [v["name"] for v in adt["variants"]]
            if vname in names:
                return names.index(vname)
    return None


def coded_bool_field(prog, getter):
    """A bool option kept as a private field-less two-variant enum: if `getter` returns a bool decided by nothing but the discriminant of one
    field F of self, and the one assignment of F in a `fn(&mut self, bool)` setter stores the variant the getter maps back to the argument
    (getter ∘ setter = identity), returns (F, index of the variant meaning true); else None."""
    from engine.analyses import guards_of, direct_writes, sym_paths as _sp
    b = prog.body(getter)
    try:
        gpaths = _sp(b, 0, 64)
    except Exception:
        return None
    F = None
    vmap = {}           # variant index → the bool the getter returns for it
    for path, env, conds in gpaths:
        ret = env.get(0)
        ret = strip_refs(ret) if ret is not None else None
        if ret is not None and not conds and len(gpaths) == 1 and ret.k == "bin" and ret.a[0] in ("Eq", "Ne"):
            # `self.f == Kind::On` written as a value: the comparison of the field's discriminant with one variant's
            sides = [strip_refs(ret.a[1]), strip_refs(ret.a[2])]
            fld = [x for x in sides if x.k == "discr" and self_path(x.a[0]) and len(self_path(x.a[0])) == 1]
            oth = [x for x in sides if not (x.k == "discr" and self_path(x.a[0]) and len(self_path(x.a[0])) == 1)]
            if len(fld) != 1 or len(oth) != 1:
                return None
            k = _variant_index(prog, oth[0])
            if k not in (0, 1):
                return None
            F = self_path(fld[0].a[0])[0]
            vmap = {k: ret.a[0] == "Eq", 1 - k: ret.a[0] != "Eq"}
            break
        if ret is None or not is_const(ret, "bool"):
            return None
        taken = None     # set of variant indices this path stands for
        for (d, vals, allv, ty, sbb) in conds:
            d = strip_refs(d)
            neg = False
            while d.k == "un" and d.a[0] == "Not":
                d = strip_refs(d.a[1])
                neg = not neg
            if d.k == "discr" and self_path(d.a[0]) and len(self_path(d.a[0])) == 1:
                f = self_path(d.a[0])[0]
                ks = set(vals) if vals != "otherwise" else ({0, 1} - set(allv))
            elif d.k == "bin" and d.a[0] in ("Eq", "Ne"):
                sides = [strip_refs(d.a[1]), strip_refs(d.a[2])]
                fld = [x for x in sides if x.k == "discr" and self_path(x.a[0]) and len(self_path(x.a[0])) == 1]
                oth = [x for x in sides if x not in fld]
                if len(fld) != 1 or len(oth) != 1:
                    return None
                f = self_path(fld[0].a[0])[0]
                k = _variant_index(prog, oth[0])
                if k is None:
                    return None
                truth = (vals != (0,)) if vals != "otherwise" else (0 in allv)
                if neg:
                    truth = not truth
                if d.a[0] == "Ne":
                    truth = not truth
                ks = {k} if truth else ({0, 1} - {k})
            else:
                return None
            if F is not None and F != f:
                return None
            F = f
            taken = ks if taken is None else (taken & ks)
        if taken is None:
            return None
        for k in taken:
            if k in vmap and vmap[k] != bool(const_val(ret)):
                return None
            vmap[k] = bool(const_val(ret))
    if F is None or set(vmap) != {0, 1} or vmap[0] == vmap[1]:
        return None
    k_true = 0 if vmap[0] else 1
    owner = (prog.fns[getter].get("impl") or {}).get("self")
    fty = {x["name"]: x["ty"] for x in prog.struct_fields(owner)}.get(F)
    adt = prog.adts.get(fty or "")
    if not adt or len(adt["variants"]) != 2 or any(v["fields"] for v in adt["variants"]):
        return None
    # the setter: the only non-constructor assignment of F, under the bool parameter alone
    writes = []
    for k2, f2 in prog.fns.items():
        if (f2.get("impl") or {}).get("self") != owner or f2.get("output") in ("Self", owner) or f2.get("kind") == "Closure":
            continue
        kb = prog.body(k2)
        for w in direct_writes(kb):
            if w["op"] == "assign" and w["root"].k == "arg" and w["root"].a[0] == 1 and w["fields"] == (F,):
                writes.append((k2, kb, w))
    if not writes or len({k2 for k2, _, _ in writes}) != 1:
        return None
    seen = {}
    from engine.analyses import sym_paths
    for (k2, kb, w) in writes:
        ins = prog.fns[k2].get("inputs") or []
        if len(ins) != 2 or ins[1] != "bool":
            return None
        # per path of the setter (decided by the bool parameter alone): the variant stored
        for path, env, conds in sym_paths(kb, 0, 64):
            if w["bb"] not in [bb_ for bb_, _ in path]:
                continue
            pol = None
            for (d, vals, allv, ty, sbb) in conds:
                d0 = strip_refs(d)
                if d0.k == "arg" and d0.a[0] == 2:
                    pol = (vals != (0,)) if vals != "otherwise" else (0 in allv)
                else:
                    return None
            if pol is None:
                return None
            rv_ = w["rv"]
            ev_ = None
            if rv_.get("k") == "use" and rv_["op"].get("k") in ("move", "copy") and not rv_["op"]["place"]["p"]:
                ev_ = env.get(rv_["op"]["place"]["l"])          # the value the local holds on this path
            if ev_ is None:
                ev_ = kb.expr_rvalue(rv_, 0, env)
            val = _variant_index(prog, ev_)
            if val is None or (pol in seen and seen[pol] != val):
                return None
            seen[pol] = val
    if seen.get(True) == k_true and seen.get(False) == 1 - k_true:
        return F, k_true
    return None
