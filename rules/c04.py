"""C04 — a fixed-layout key emits exactly the text the layout file assigns to it.

Decided statically: the key→entry-name decision table (against the naming
convention of riti.h, the bundled layout's entry names, and the header), plane
selection = AltGr bit only, numpad gate, and the frame rule for keys without a
value.  Not decided: serde/HashMap behaviour (trusted)."""
import re

from engine.mir import E, apath, strip_refs, is_const, const_val, callee_name, self_path
from engine.analyses import (peel_conv, leaf_assign, switches_on, chain, format_parts, truth_table, contains_call,
                             enumerate_paths, path_return, direct_writes, ModSets, guards_of)
from engine.report import site_of
from engine import tables
from . import common


def expected_entry_name(vc_name):
    """Oracle (a): layout entry name implied by the published key-code name."""
    n = vc_name[3:]
    m = re.fullmatch(r"([A-Z])", n)
    if m:
        return n.lower(), "exact"
    m = re.fullmatch(r"([A-Z])_SHIFT", n)
    if m:
        return m.group(1), "exact"
    if re.fullmatch(r"\d", n):
        return n, "exact"
    if n.startswith("KP_"):
        return "Num" + n[3:].replace("_", ""), "nocase"
    return n.replace("_", ""), "nocase"


def run(ctx):
    prog, chk = ctx.prog, ctx.check
    chk.explanation = (
        "Static decision of the table/plumbing clauses of C04: the MIR switch of the key→layout-entry function is "
        "extracted as a decision table (all 65 536 key codes: listed arms + default) and compared three ways "
        "(naming convention of the VC_* constants, entry names of the bundled layout, riti.h); plane selection, "
        "modifier decoding, the numpad gate and the inert no-value path are decided on MIR. The rules do not depend "
        "on the layout file's contents, so they cover any layout file including synthetic ones.")
    chk.not_decided = ["JSON parsing and HashMap lookup of the layout file (trusted serde_json/std)",
                       "the composed text when composition helpers are on (C12–C14)"]
    defines, protos = common.header(ctx)
    vc = common.vc_consts(prog)
    by_val = {}
    for n, v in vc.items():
        by_val.setdefault(v, []).append(n)

    # ---------------- R1 key→entry table
    r1 = chk.rule("C04.R1", "key→entry-name table agrees with riti.h names, the bundled layout and the header",
                  "pressing a key appends exactly the string the layout assigns to that key; keys outside the layout change nothing")
    fnk, rows, default = common.layout_table(prog)
    from . import roles
    keyed, numpad = common.layout_helpers(prog)
    body = roles.ib(prog, fnk, extra_stop=[x for x in (keyed, numpad) if x])
    layout = tables.load_json("Probhat.json")["layout"]
    used_literals = {}
    numpad_encs = set()
    for v, row in sorted(rows.items()):
        names = by_val.get(v, [])
        key = "arm:%s" % (names[0] if names else hex(v))
        site = site_of(body, row["bb"])
        if not names:
            r1.violation(key, "arm for key code %#x which is not a VC_* constant" % v, site)
            continue
        if len(names) > 1:
            r1.undecidable(key, "key code value %#x is shared by %s" % (v, names), site)
            continue
        name = names[0]
        if defines.get(name) != v:
            r1.violation(key, "%s = %d in keycodes but %s in riti.h" % (name, v, defines.get(name)), site)
            continue
        if row.get("callee") not in (keyed, numpad) or row.get("literal") is None:
            r1.undecidable(key, "leaf is not `helper(self, \"literal\", x)`: %r" % (row.get("val"),), site)
            continue
        exp, mode = expected_entry_name(name)
        lit = row["literal"]
        good = (lit == exp) if mode == "exact" else (lit.lower() == exp.lower())
        if not good:
            r1.violation(key, "%s looks up layout entry %r, its name implies %r" % (name, lit, exp), site,
                         {"key": name, "literal": lit, "expected": exp})
            continue
        is_kp = name.startswith("VC_KP_")
        third = row["third"]
        if is_kp:
            if row["callee"] != numpad:
                r1.violation(key, "number-pad key %s is not routed through the numpad-gated helper" % name, site)
                continue
            if not (third.k == "arg" and third.a[0] == 4):
                # the option may be handed on re-coded as a private two-variant enum made from it
                enc = common.encoded_switch(prog, getattr(prog, "_layout_alts", {}).get(v, []), 4)
                if enc is None or enc[3] != 2:
                    r1.violation(key, "number-pad key %s does not pass the numpad option parameter (got %r)" % (name, third), site)
                    continue
                numpad_encs.add(enc)
            if lit not in layout:
                r1.violation(key, "entry %r used for %s is not an entry of the bundled layout" % (lit, name), site)
                continue
        else:
            if row["callee"] != keyed:
                r1.violation(key, "key %s is routed through the numpad helper" % name, site)
                continue
            if not (third.k == "arg" and third.a[0] == 3):
                r1.violation(key, "key %s does not pass the caller's plane (modifier) through unchanged (got %r)" % (name, third), site)
                continue
            miss = [p for p in ("Key_%s_Normal" % lit, "Key_%s_AltGr" % lit) if p not in layout]
            if miss:
                r1.violation(key, "entries %s used for %s are not in the bundled layout" % (miss, name), site)
                continue
        if lit in used_literals:
            r1.violation(key, "entry %r is used by both %s and %s" % (lit, used_literals[lit], name), site)
            continue
        used_literals[lit] = name
        r1.ok(key, "%s → %s(%r)" % (name, "numpad" if is_kp else "keyed", lit))
    # reverse direction: every bundled entry reachable
    reachable_entries = set()
    for lit, name in used_literals.items():
        if name.startswith("VC_KP_"):
            reachable_entries.add(lit)
        else:
            reachable_entries.add("Key_%s_Normal" % lit)
            reachable_entries.add("Key_%s_AltGr" % lit)
    for ent in sorted(layout):
        if ent not in reachable_entries:
            r1.violation("entry:%s" % ent, "bundled layout entry %r cannot be produced by any key code (arm missing or renamed)" % ent,
                         common.fn_line(prog, fnk))
    # default arm = None
    if default is not None and default.k == "agg" and default.a[0].endswith("Option::None"):
        r1.ok("default", "unlisted key codes → None")
    else:
        r1.violation("default", "default arm of the key table is not `None`: %r" % (default,), common.fn_line(prog, fnk))
    r1.floor(110, "109 key arms + default arm")
    r1.table("arms", len(rows))
    r1.table("bundled_layout_entries", len(layout))

    # ---------------- R2 plane selection
    r2 = chk.rule("C04.R2", "plane = AltGr bit only; Display names; lookup key format; modifier decoding",
                  "the current AltGr state selects the plane; Shift must not change the plane")
    from_k = [k for k, f in prog.fns.items() if (f.get("impl") or {}).get("trait") == "std::convert::From"
              and "LayoutModifiers" in (f.get("impl") or {}).get("self", "") and f.get("name") == "from"]
    if len(from_k) != 1:
        r2.undecidable("from", "From<Modifiers> for the plane enum not found uniquely: %s" % from_k)
    else:
        b = prog.body(from_k[0])
        bad = False
        n_sw = 0
        for i in b.rblocks:
            t = b.blocks[i]["term"]
            if t["k"] == "switch":
                n_sw += 1
                d = strip_refs(b.expr_operand(t["discr"]))
                if not (d.k == "field" and d.a[0].k == "arg" and d.a[1] in (1, "1")):
                    bad = True
                    r2.violation("from:discr", "plane selection branches on %r (only the AltGr flag, tuple field 1, may be tested)" % (d,),
                                 site_of(b, i))
        try:
            outcomes = {}
            for p in enumerate_paths(b):
                conds = []
                for (pb, vals) in p:
                    if vals is not None:
                        conds.append(vals)
                ret = path_return(b, p)
                outcomes[tuple(conds)] = ret
            want = {((0,),): "Normal", ("otherwise",): "AltGr"}
            got = {}
            for c, ret in outcomes.items():
                nm = ret.a[0].split("::")[-1] if ret is not None and ret.k == "agg" else repr(ret)
                got[c] = nm
            if n_sw == 1 and got == want and not bad:
                r2.ok("from", "(_, false) → Normal, (_, true) → AltGr")
            elif not bad:
                r2.violation("from", "plane mapping is %s, expected false→Normal / true→AltGr on the AltGr flag" % got,
                             common.fn_line(prog, from_k[0]))
        except Exception as e:  # PathLimit
            r2.undecidable("from", "cannot enumerate paths: %s" % e)
    disp = [k for k, f in prog.fns.items() if (f.get("impl") or {}).get("trait") == "std::fmt::Display"
            and "LayoutModifiers" in (f.get("impl") or {}).get("self", "")]
    if not disp:
        # no Display impl: the plane's name is written by a private name function of the enum (`as_str(&self) -> &'static str`)
        disp = [k for k, f in prog.fns.items() if "LayoutModifiers" in ((f.get("impl") or {}).get("self") or "") and not (f.get("impl") or {}).get("trait")
                and len(f.get("inputs") or []) == 1 and "LayoutModifiers" in f["inputs"][0] and re.fullmatch(r"&(?:'\w+ )?str", f.get("output") or "")]
    if len(disp) != 1:
        r2.undecidable("display", "Display for the plane enum not found uniquely")
    else:
        from . import roles as _roles4
        b = _roles4.ib(prog, disp[0])           # a private name function (`as_str`) the Display impl forwards to is spliced in
        adt = [a for p, a in prog.adts.items() if p.endswith("LayoutModifiers")]
        vnames = [v["name"] for v in adt[0]["variants"]] if adt else []
        from engine.analyses import sym_paths, PathLimit
        try:
            dpaths = sym_paths(b, 0, 200)
        except PathLimit:
            dpaths = None
        if dpaths is None or not vnames:
            r2.undecidable("display", "Display body cannot be enumerated")
        else:
            seen_v = {}
            for path, env, conds in dpaths:
                vsel = None
                for (d, vals, allv, ty, bbx) in conds:
                    if strip_refs(d).k == "discr":
                        if vals != "otherwise" and len(vals) == 1:
                            vsel = vnames[vals[0]]
                        elif vals == "otherwise":
                            rest = [n for i, n in enumerate(vnames) if i not in allv]
                            vsel = rest[0] if len(rest) == 1 else None
                lits = []
                for (pb, _) in path:
                    tt = b.blocks[pb]["term"]
                    if tt["k"] == "call":
                        for a in tt["args"]:
                            e = strip_refs(b.expr_operand(a, 0, env))
                            fp = format_parts(b, e)
                            if fp:
                                lits.append("".join(x[1] if x[0] == "lit" else "{}" for x in fp))
                            elif is_const(e, "str"):
                                lits.append(const_val(e))
                rv_ = strip_refs(env.get(0)) if env.get(0) is not None else None
                if rv_ is not None and is_const(rv_, "str"):
                    lits.append(const_val(rv_))         # a name function answers with the name itself
                if vsel:
                    seen_v.setdefault(vsel, []).extend(lits)
            for vn in vnames:
                lits = seen_v.get(vn, [])
                if lits and all(l == vn for l in lits):
                    r2.ok("display:%s" % vn, "%s renders as %r" % (vn, vn))
                else:
                    r2.violation("display:%s" % vn, "plane %s renders as %r (layout entries are Key_<name>_%s)" % (vn, lits, vn), common.fn_line(prog, disp[0]))
    # lookup key format in the keyed helper
    if keyed:
        b = prog.body(keyed)
        found = False
        for (bb, t) in b.calls():
            if callee_name(t).endswith("::get") and "HashMap" in callee_name(t):
                key_e = strip_refs(b.expr_operand(t["args"][1]))
                fp = format_parts(b, key_e)
                if fp is None and key_e.k == "call" and isinstance(key_e.a[2], int) and b.blocks[key_e.a[2]]["term"]["k"] == "call":
                    # the same name assembled in place: String::with_capacity + push_str / push
                    from engine.analyses import built_string_parts, merge_literal_parts
                    fp = built_string_parts(b, b.blocks[key_e.a[2]]["term"]["dest"]["l"])
                    if fp is not None:
                        fp = merge_literal_parts(fp)
                if fp is not None:
                    # the plane written through a private name function of the plane enum: that function must name the planes like Display does
                    fp2 = []
                    for x in fp:
                        if x[0] == "val":
                            xv = peel_conv(x[1])
                            if xv.k == "call" and xv.a[0] in prog.fns and len(xv.a[1]) == 1 and "LayoutModifiers" in ((prog.fns[xv.a[0]].get("impl") or {}).get("self") or "") \
                                    and (xv.a[0] == disp[0] or xv.a[0] in (_roles4.ib(prog, disp[0]).fn.get("inlined") or [])) if len(disp) == 1 else False:
                                fp2.append(("val", peel_conv(xv.a[1][0])))
                                continue
                        fp2.append(x)
                    fp = fp2
                if fp is None:
                    r2.undecidable("lookup-format", "lookup key is not a format! string: %r" % (key_e,), site_of(b, bb))
                    found = True
                    continue
                shape = [(x[0], x[1] if x[0] == "lit" else (x[1].a[0] if x[1].k == "arg" else repr(x[1]))) for x in fp]
                want = [("lit", "Key_"), ("val", 2), ("lit", "_"), ("val", 3)]
                if shape == want:
                    r2.ok("lookup-format", "lookup key = \"Key_\" ++ entry ++ \"_\" ++ plane")
                else:
                    r2.violation("lookup-format", "lookup key is built as %s, expected Key_<entry>_<plane>" % shape, site_of(b, bb))
                recv = self_path(b.expr_operand(t["args"][0]))
                found = True
        if not found:
            r2.undecidable("lookup-format", "no HashMap::get in the keyed helper")
    # modifier decoding
    gm = [k for k, f in prog.fns.items() if f.get("inputs") == ["u8"] and f.get("output") == "(bool, bool)"]
    if len(gm) != 1:
        r2.undecidable("decode", "modifier decoder fn(u8)->(bool,bool) not found uniquely")
    else:
        from engine.analyses import PredEval
        pe = PredEval(prog)
        bad = {0: None, 1: None}
        undec = False
        for m in range(256):
            r = pe.call(gm[0], [m])
            if not (isinstance(r, tuple) and r[0] == "tuple" and len(r[1]) == 2 and all(isinstance(x, bool) for x in r[1])):
                undec = True
                break
            for idx, cname in ((0, "MODIFIER_SHIFT"), (1, "MODIFIER_ALT_GR")):
                want = bool(m & defines.get(cname, 0))
                if r[1][idx] != want and bad[idx] is None:
                    bad[idx] = (m, r[1][idx], want)
        if undec:
            r2.undecidable("decode", "cannot evaluate the modifier decoder over the 256 modifier bytes from its MIR", common.fn_line(prog, gm[0]))
        else:
            for idx, cname in ((0, "MODIFIER_SHIFT"), (1, "MODIFIER_ALT_GR")):
                if bad[idx] is None:
                    r2.ok("decode:%d" % idx, "field %d = (m & %s) != 0 for all 256 modifier bytes (%s = %d in riti.h)" % (idx, cname, cname, defines.get(cname, 0)))
                else:
                    m, got, want = bad[idx]
                    r2.violation("decode:%d" % idx, "for modifier byte %#04x the decoder reports %s = %s, riti.h's bit says %s"
                                 % (m, "AltGr" if idx else "Shift", got, want), common.fn_line(prog, gm[0]))
    # plumbing in the fixed key handler
    fixed_ty = [t for t in prog.method_structs() if "Fixed" in t or True]
    handler = None
    for t in prog.method_structs():
        k = prog.method_impl(t, "get_suggestion")
        if fnk in prog.callgraph()[k]:
            handler = k
    if handler is None:
        r2.undecidable("plumbing", "no Method::get_suggestion calls the key→entry table")
    else:
        b = prog.body(handler)
        for (bb, t) in b.calls():
            if callee_name(t) == fnk:
                args = b.call_args(t)
                keyok = args[1].k == "arg" and args[1].a[0] == 2
                m = strip_refs(args[2])
                modok = False
                # into(get_modifiers(modifier))
                if m.k == "call" and "Into" in m.a[0] or (m.k == "call" and m.a[0].endswith("::from")):
                    inner = strip_refs(m.a[1][0])
                    if inner.k == "call" and inner.a[0] == gm[0] and inner.a[1][0].k == "arg" and inner.a[1][0].a[0] == 3:
                        modok = True
                n = strip_refs(args[3])
                numok = n.k == "call" and n.a[0].endswith("get_fixed_numpad") and strip_refs(n.a[1][0]).k == "arg" and strip_refs(n.a[1][0]).a[0] == 6
                if keyok and modok and numok:
                    r2.ok("plumbing", "table(key, decode(modifier).into(), config.get_fixed_numpad())")
                else:
                    r2.violation("plumbing", "key handler passes (%r, %r, %r) to the key table" % (args[1], m, n), site_of(b, bb))
                # every key reaches the table: the look-up is on every path of the key event, or what lets a key skip it is a predicate of
                # the key code that is true for every key code the table has a row for (evaluated over the table's keys)
                rets_ = [i for i in b.rblocks if b.blocks[i]["term"]["k"] == "return"]
                if all(b.dominates(bb, r_) for r_ in rets_):
                    r2.ok("reached", "the table look-up is on every path of the key event")
                else:
                    from engine.analyses import PredEval
                    pe_ = PredEval(prog)
                    verdict = None
                    n_good = 0
                    for (d, pol, s_) in guards_of(b, bb):
                        if d.k == "call" and d.a[0] in prog.fns and len(d.a[1]) == 1 and strip_refs(d.a[1][0]).k == "arg" and strip_refs(d.a[1][0]).a[0] == 2 \
                                and pol in (True, False):
                            lost = []
                            for kc in sorted(rows):
                                r_ = pe_.call(d.a[0], [kc])
                                if r_ is None:
                                    lost = None
                                    break
                                if bool(r_) != pol:
                                    lost.append(kc)
                            if lost is None:
                                verdict = verdict or ("undecidable", "cannot evaluate %s over the key codes" % d.a[0], s_)
                            elif not lost:
                                n_good += 1
                            elif lost:
                                nm = [(by_val.get(k_) or [hex(k_)])[0] for k_ in lost[:4]]
                                verdict = ("violation", "the key event skips the layout look-up unless %s(key) is %s, which excludes %s — key(s) the layout has "
                                           "an entry for: pressing them appends nothing" % (d.a[0].split("::")[-1], pol, ", ".join(nm)), s_)
                                break
                        else:
                            verdict = verdict or ("undecidable", "the layout look-up is skipped under %r, which is not a predicate of the key code the rule can evaluate" % (d,), s_)
                    if verdict is None and n_good:
                        r2.ok("reached", "the table look-up is skipped only for key codes the table has no row for (%d key-code guard(s) evaluated over %d rows)" % (n_good, len(rows)))
                    elif verdict is None:
                        r2.undecidable("reached", "the table look-up does not dominate every return of the key event and no guard explains it", site_of(b, bb))
                    elif verdict[0] == "violation":
                        r2.violation("reached", verdict[1], site_of(b, verdict[2]))
                    else:
                        # all evaluable guards hold for every mapped key and nothing else guards the look-up → fine; otherwise undecidable
                        if verdict[0] == "undecidable":
                            r2.undecidable("reached", verdict[1], site_of(b, verdict[2]))
    common.value_reaches_processor(r2, prog)
    r2.floor(9, "from, 2 display arms, lookup format, 2 decode fields, plumbing, reached, processed")

    # ---------------- R3 inert cases
    r3 = chk.rule("C04.R3", "empty / missing / numpad-off assignments yield no value, and no value writes nothing",
                  "keys with an empty or missing assignment change nothing; number-pad keys only while the option is on")
    for helper, is_np in ((keyed, False), (numpad, True)):
        if not helper:
            r3.undecidable("filter:%s" % ("numpad" if is_np else "keyed"), "helper not identified")
            continue
        b = prog.body(helper)
        ret = b.expr_local(0)
        key = "filter:%s" % ("numpad" if is_np else "keyed")
        if is_np and len(prog.fns[helper].get("inputs") or []) == 2:
            # the keypad switch is tested in the table function: every keypad key reaches this look-up only with the switch on and answers
            # None with it off (read from the table's paths); the look-up itself then keeps a value iff it is not empty
            kp_rows = {v_: r_ for v_, r_ in rows.items() if r_.get("callee") == helper}
            off_ = getattr(prog, "_layout_gated_off", set())
            alts_ = getattr(prog, "_layout_alts", {})
            bad_gate = [v_ for v_, r_ in sorted(kp_rows.items())
                        if not (r_.get("gated_in_table") and r_["third"].k == "arg" and v_ in off_
                                and all(a_.get("gated_in_table") and a_["third"].k == "arg" for a_ in alts_.get(v_, [])))]
            if not kp_rows or bad_gate:
                r3.violation("gate:numpad", "the keypad look-up takes no switch and the table function does not gate key code(s) %s by the keypad option on every path"
                             % ([hex(v_) for v_ in bad_gate[:4]] or "— none reach it"), common.fn_line(prog, fnk))
                continue
            r3.ok("gate:numpad", "%d keypad keys reach the look-up only with the option on and answer None with it off" % len(kp_rows))
            is_np = False           # the look-up's own filter is the plain one
        # cloned(filter(get(map, k), closure))
        e = ret
        if e.k == "call" and e.a[0].endswith("::cloned"):
            e = e.a[1][0]
        elif _lent(e) is not None:
            e = _lent(e)            # the kept entry lent as &str (`.map(String::as_str)`): the same text, not copied yet
        if not (e.k == "call" and "Option" in e.a[0] and e.a[0].endswith("::filter")):
            verdict = _explicit_filter(prog, helper, is_np, next(iter(numpad_encs)) if (is_np and len(numpad_encs) == 1) else None)
            if verdict is True:
                r3.ok(key, "keeps a value iff %s (explicit match form)" % ("numpad option ∧ ¬empty" if is_np else "¬empty"))
            elif verdict is None:
                r3.undecidable(key, "helper is neither Option::filter(..).cloned() nor an explicit match whose paths can be classified: %r" % (ret,), common.fn_line(prog, helper))
            else:
                r3.violation(key, verdict, common.fn_line(prog, helper))
            continue
        recv = strip_refs(e.a[1][0])
        if _lent(recv) is not None:
            recv = strip_refs(_lent(recv))      # lent before it is filtered: the predicate sees the same text
        if not (recv.k == "call" and recv.a[0].endswith("::get") and "HashMap" in recv.a[0] and self_path(recv.a[1][0]) is not None and len(self_path(recv.a[1][0])) == 1):
            r3.violation(key, "the filtered value is %s, not one look-up of the requested entry in the layout map — an empty or missing assignment can be replaced by "
                         "another entry's value" % (recv.a[0].split("::")[-1] + "(…)" if recv.k == "call" else repr(recv)[:80]), common.fn_line(prog, helper))
            continue
        clo = strip_refs(e.a[1][1])
        pred_param = 2          # a closure's first parameter is its environment
        if clo.k == "agg" and clo.a[0].startswith("closure:"):
            ck = clo.a[0][len("closure:"):]
            upvars = [strip_refs(u) for u in clo.a[1]]
        elif clo.k == "const" and isinstance(clo.a[0], tuple) and clo.a[0][0] == "fn" and clo.a[0][1] in prog.fns:
            ck = clo.a[0][1]          # a named predicate function (`.filter(is_filled)`): no captures
            upvars = []
            pred_param = 1
        else:
            r3.undecidable(key, "filter predicate is neither a local closure nor a local function", common.fn_line(prog, helper))
            continue
        cb = prog.body(ck)

        def is_empty_atom(x, pred_param=pred_param):
            return x.k == "call" and x.a[0].endswith(("String::is_empty", "str>::is_empty", "impl str>::is_empty")) and strip_refs(x.a[1][0]).k in ("arg",) and strip_refs(x.a[1][0]).a[0] == pred_param

        def upvar_atom(x):
            r, f = apath(x)
            return x.k != "call" and r.k == "arg" and r.a[0] == 1 and len(f) == 1

        atoms = [("is_empty", is_empty_atom)]
        rewrite = None
        if is_np and numpad_encs:
            if len(numpad_encs) != 1:
                r3.violation(key, "the number-pad arms re-code the option in different ways: %s" % sorted(numpad_encs), common.fn_line(prog, helper))
                continue
            _adt, v_on, v_off, _n = next(iter(numpad_encs))

            def is_on_atom(x, v_on=v_on):
                return x.k == "bin" and x.a[0] == "Eq" and strip_refs(x.a[1]).k == "discr" and upvar_atom(strip_refs(strip_refs(x.a[1]).a[0])) \
                    and is_const(x.a[2], "int") and const_val(x.a[2]) == v_on

            def rewrite(d, v_off=v_off):
                # the enum has exactly two variants: `is the off variant` ⇔ ¬`is the on variant`
                if d.k == "bin" and d.a[0] == "Eq" and strip_refs(d.a[1]).k == "discr" and is_const(d.a[2], "int") and const_val(d.a[2]) == v_off:
                    return E("un", "Not", E("bin", "Eq", d.a[1], E("const", ("int", v_on))))
                return d
            atoms.append(("numpad", is_on_atom))
        elif is_np:
            atoms.append(("numpad", upvar_atom))
        tt = truth_table(cb, atoms, rewrite)
        if tt is None:
            r3.undecidable(key, "cannot summarise the filter closure as a boolean function", common.fn_line(prog, ck))
            continue
        if is_np:
            want = {(e_, n_): (n_ and not e_) for e_ in (False, True) for n_ in (False, True)}
            up_ok = len(upvars) == 1 and upvars[0].k == "arg" and upvars[0].a[0] == 3
            if not up_ok:
                r3.violation(key, "numpad filter captures %r, expected the numpad option parameter" % (upvars,), common.fn_line(prog, helper))
                continue
        else:
            want = {(e_,): (not e_) for e_ in (False, True)}
        if tt == want:
            r3.ok(key, "keeps a value iff %s" % ("numpad option ∧ ¬empty" if is_np else "¬empty"))
        else:
            r3.violation(key, "filter keeps a value under %s, expected %s" % (tt, want), common.fn_line(prog, ck))
    # frame rule on the None path of the key handler
    if handler:
        b = prog.body(handler)
        mods = ctx.memo("modsets", lambda: ModSets(prog))
        sw = switches_on(b, lambda e: e.k == "discr" and e.a[0].k == "call" and e.a[0].a[0] == fnk)
        if len(sw) != 1:
            r3.undecidable("frame", "key handler does not branch once on the key table's result")
        else:
            bb, t = sw[0]
            none_tgt = None
            for (node, vals, tgt) in b.switch_edges(bb):
                if vals == (0,):
                    none_tgt = tgt
            if none_tgt is None:
                # `if let Some` lowers to [1: some, otherwise: none] or [0: none, ...]
                for (node, vals, tgt) in b.switch_edges(bb):
                    if vals == "otherwise" and (1,) in [v for _, v, _ in b.switch_edges(bb)]:
                        none_tgt = tgt
            if none_tgt is None:
                r3.undecidable("frame", "cannot identify the None edge", site_of(b, bb))
            else:
                some_blocks = set()
                for (node, vals, tgt) in b.switch_edges(bb):
                    if tgt != none_tgt:
                        some_blocks |= b.reachable_from(tgt)
                region = b.reachable_from(none_tgt) - some_blocks
                writes = []
                for w in direct_writes(b):
                    if w["bb"] not in region:
                        continue
                    if w["root"].k == "arg" and w["root"].a[0] == 1:
                        if w["op"] in ("assign", "setdiscr"):
                            writes.append(w)
                        else:
                            for (root, fields, via) in mods.writes_of_call(b, w["bb"], w["term"]):
                                if root.k == "arg" and root.a[0] == 1:
                                    writes.append(w)
                if writes:
                    w = writes[0]
                    r3.violation("frame", "a key without a layout value still writes self.%s via %s" % (".".join(w["fields"]), w["op"]),
                                 site_of(b, w["bb"], w["idx"]))
                else:
                    r3.ok("frame", "no write to the method's state on the no-value path (%d blocks)" % len(region))
    r3.floor(3, "two filter closures + frame rule")

    # ---------------- R4 with every helper off, a key on an empty text appends the whole value
    r4 = chk.rule("C04.R4", "with all composition helpers off, every path of the key-value processor taken from an empty text appends the complete value",
                  "pressing a key appends exactly the string the layout assigns to it (also when that string has several code points)")
    from . import kvp as _kvp, classes as _classes
    from engine.analyses import PredEval as _PE, PathLimit as _PL
    try:
        kb4, S4, info4 = ctx.memo("kvp", lambda: _kvp.summarise(prog))
        pe4 = _PE(prog)
        cls4 = _classes.class_fns(prog)
        n4 = 0
        bad4 = None
        for s4 in S4:
            if not _kvp.feasible(s4, pe4, cls4) or s4.unknown:
                continue
            skip = False
            for a4, v4 in s4.atoms:
                if a4[0] == "cfg" and v4 is True:
                    skip = True            # some helper option is on
                if a4[0] in ("rmc_eq", "second_last_eq") and v4 is True:
                    skip = True            # the text is not empty
                if a4[0] in ("rmc_pred", "rmc_in") and v4 is True:
                    skip = True
                if a4[0] == "rmc_switch" and v4 != "otherwise":
                    skip = True
                if a4[0] == "buf_empty" and v4 is False:
                    skip = True
                if a4[0] in ("pending_some", "popped_some") and v4 is True:
                    skip = True
                if a4[0] == "char_some" and v4 is False:
                    skip = True            # (an empty value is filtered out before the processor: R3)
            if skip:
                continue
            n4 += 1
            eff4 = [e for e in s4.effects if e[0] in ("push", "push_str", "pop", "pending", "recurse", "call")]
            whole = eff4 == [("push_str", "<value>")] or eff4 == [("push", "<character>"), ("push_str", "<rest>")]
            if not whole and bad4 is None:
                bad4 = (s4, eff4)
        if n4 == 0:
            r4.undecidable("whole-value", "no path of the processor is taken with every helper off on an empty text")
        elif bad4 is not None:
            from . import c12 as _c12
            r4.violation("whole-value", "with every helper off and an empty text the processor does %s on the path [%s] — a value of several code points is not appended completely "
                         "(only its first character is)" % (_c12._fmt(bad4[1]), _c12._signature(bad4[0])[:160]),
                         site_of(kb4, _c12._first_effect_bb(kb4, bad4[0]) or bad4[0].path[-2][0]))
        else:
            r4.ok("whole-value", "%d paths, each appends the complete value (as one string, or first character + rest)" % n4)
    except _PL as e4:
        r4.undecidable("whole-value", "cannot enumerate the processor's paths: %s" % e4)
    r4.floor(1, "whole-value")

    # ---------------- R5 the number-pad option is the value the front end set
    r5 = chk.rule("C04.R5", "the number-pad option is a plain stored value", "number-pad keys produce layout text only while the fixed-numpad option is on")
    common.plain_options(r5, prog, ["get_fixed_numpad"])
    r5.floor(1, "the option")

    # ---------------- R6 the table is the file's
    r6 = chk.rule("C04.R6", "the layout table is the layout file's key map as deserialised (nothing completed, pruned or rewritten after loading)",
                  "pressing a key appends exactly the string the layout file assigns …; keys with an empty or missing assignment change nothing")
    lay = "fixed::layout::Layout"
    parse = [k for k, f in prog.fns.items() if ((f.get("impl") or {}).get("self") or "") == lay and not (f.get("impl") or {}).get("trait")
             and (f.get("output") or "").startswith("std::option::Option<") and f.get("inputs") and "serde_json" in f["inputs"][0]]
    if len(parse) != 1:
        r6.undecidable("load", "the layout parser (Layout fn(serde_json::Value) -> Option<Self>) was not found uniquely: %s" % parse)
    else:
        common.verbatim_loads(r6, prog, parse[0], lay, [fl["name"] for fl in prog.struct_fields(lay)], "key map")
    r6.floor(1, "the key map")


def _lent(e):
    """`x.map(String::as_str)` (or deref / as_ref): x, the same Option with its text lent instead of owned; else None."""
    if e.k == "call" and "Option" in e.a[0] and e.a[0].endswith("::map") and len(e.a[1]) == 2:
        f = strip_refs(e.a[1][1])
        if f.k == "const" and isinstance(f.a[0], tuple) and f.a[0][0] == "fn" and str(f.a[0][1]).endswith(
                ("String::as_str", "String as std::ops::Deref>::deref", "String as std::convert::AsRef<str>>::as_ref")):
            return e.a[1][0]
    return None


def _explicit_filter(prog, helper, is_np, enc=None):
    """Explicit-match form of the helpers: every path returning a value must have seen get()==Some ∧ ¬is_empty (∧ numpad);
    every path returning None must have seen one of them fail.  Returns True | None (unknown shape) | message."""
    from engine.analyses import sym_paths, PathLimit, bool_of
    b = prog.body(helper)
    n_get = sum(1 for (bb, t) in b.calls() if callee_name(t).endswith("HashMap::<K, V, S, A>::get"))
    if n_get != 1:
        return "the helper looks the layout map up %d times (expected exactly the requested entry) — a missing or empty assignment can be replaced by another entry" % n_get
    try:
        paths = sym_paths(b, 0, 400)
    except PathLimit:
        return None
    for path, env, conds in paths:
        got = empty = numpad = None
        for (d, vals, allv, ty, bbx) in conds:
            ds = strip_refs(d)
            neg = False
            while ds.k == "un" and ds.a[0] == "Not":
                ds = strip_refs(ds.a[1])
                neg = not neg
            if ds.k == "discr" and contains_call(ds, lambda n: n.endswith("HashMap::<K, V, S, A>::get")) is not None:
                via_try = contains_call(ds, lambda n: n.endswith("Try>::branch")) is not None      # `?`: ControlFlow::Continue = 0 is "present"
                some_v, none_v = ((0,), (1,)) if via_try else ((1,), (0,))
                if vals == some_v or (vals == "otherwise" and some_v[0] not in allv and none_v[0] in allv):
                    got = True
                elif vals == none_v or vals == "otherwise":
                    got = False
                continue
            bv = bool_of((ds, vals, allv, ty)) if ty == "bool" else None
            if bv is not None and neg:
                bv = not bv
            if ds.k == "call" and ds.a[0].endswith("::is_empty") and bv is not None:
                empty = bv
                continue
            if ds.k == "arg" and ds.a[0] == 3 and bv is not None and is_np:
                numpad = bv
                continue
            if ds.k == "discr" and strip_refs(ds.a[0]).k == "arg" and strip_refs(ds.a[0]).a[0] == 3 and is_np and enc is not None:
                # the option handed on as a private two-variant enum: which variant this path took
                _adt, v_on, v_off, _n = enc
                if vals == (v_on,) or (vals == "otherwise" and v_on not in allv and v_off in allv):
                    numpad = True
                elif vals == (v_off,) or (vals == "otherwise" and v_off not in allv and v_on in allv):
                    numpad = False
                else:
                    return None
                continue
            return None
        ret = strip_refs(env.get(0)) if env.get(0) is not None else None
        if ret is None:
            return None
        inner_ = strip_refs(ret.a[1][0]) if (ret.k == "call" and ret.a[0].endswith("::cloned") and ret.a[1]) else ret
        if inner_.k == "call" and "Option" in inner_.a[0] and inner_.a[0].endswith("::filter") and len(inner_.a[1]) == 2 \
                and strip_refs(inner_.a[1][0]).k == "call" and strip_refs(inner_.a[1][0]).a[0].endswith("HashMap::<K, V, S, A>::get"):
            # this arm answers with `get(..).filter(closure).cloned()`: present ∧ closure, decided inside the combinator
            clo_ = strip_refs(inner_.a[1][1])
            pp_ = 2
            ck_ = str(clo_.a[0])[len("closure:"):] if (clo_.k == "agg" and str(clo_.a[0]).startswith("closure:")) else None
            if ck_ is not None and clo_.a[1]:
                return None
            if ck_ is None and clo_.k == "const" and isinstance(clo_.a[0], tuple) and clo_.a[0][0] == "fn":
                ck_, pp_ = clo_.a[0][1], 1          # a named predicate function
            if ck_ is None or ck_ not in prog.fns:
                return None
            from engine.analyses import truth_table as _tt
            tt_ = _tt(prog.body(ck_), [("is_empty", lambda x, pp_=pp_: x.k == "call" and x.a[0].endswith("String::is_empty") and strip_refs(x.a[1][0]).k == "arg"
                                       and strip_refs(x.a[1][0]).a[0] == pp_)])
            if tt_ != {(False,): True, (True,): False}:
                return "the filter of this arm is not `¬is_empty` (%s)" % (tt_,)
            if is_np and numpad is not True:
                return "the layout's entry is answered on a path with numpad=%s" % numpad
            continue
        if ret.k == "agg" and str(ret.a[0]).endswith("Option::None"):
            kind = "none"
        elif (ret.k == "agg" and str(ret.a[0]).endswith("Option::Some")) or (ret.k == "call" and (ret.a[0].endswith("::cloned") or ret.a[0].endswith("::clone"))):
            kind = "value"
            if contains_call(ret, lambda n: n.endswith("HashMap::<K, V, S, A>::get")) is None:
                return "the returned value is %r, not the layout's entry" % (ret,)
        else:
            return None
        if kind == "value":
            if not (got is True and empty is False and (numpad is True or not is_np)):
                return "a value is returned on a path with entry-present=%s, empty=%s%s" % (got, empty, ", numpad=%s" % numpad if is_np else "")
        else:
            if not (got is False or empty is True or (is_np and numpad is False)):
                return "no value is returned although the entry is present and non-empty%s (conditions: present=%s empty=%s%s)" % (
                    " and the numpad option is on" if is_np else "", got, empty, ", numpad=%s" % numpad if is_np else "")
    return True
