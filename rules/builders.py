"""Shared model of the candidate-list builders: Rank constructors, push events,
Suggestion constructor sites, roles of the method structs' fields."""
from engine.mir import E, apath, strip_refs, is_const, const_val, callee_name, self_path
from engine.analyses import (peel_conv, closure_creation, closure_consumer, format_parts, guards_of,
                             path_return, enumerate_paths, direct_writes, contains_call)
from engine.program import AnchorError
from . import common

RANK = "suggestion::Rank"
SUGG = "suggestion::Suggestion"


def rank_ctors(prog):
    """{fn key: {'variant': name, 'item': E, 'rank': E|None}} for local fns returning Rank built from one aggregate."""
    out = {}
    for k, f in prog.fns.items():
        if f.get("output") not in (RANK, "Self") or not (f.get("impl") or {}).get("self", "").startswith(RANK):
            continue
        if (f.get("impl") or {}).get("trait"):
            continue
        b = prog.body(k)
        ret = b.expr_local(0)
        if ret.k == "agg" and ret.a[0].startswith("adt:" + RANK + "::"):
            variant = ret.a[0].split("::")[-1]
            ops = ret.a[1]
            out[k] = {"variant": variant, "item": ops[0] if ops else None, "rank": ops[1] if len(ops) > 1 else None}
    # a constructor written through another one (`fn emoji(item) -> Self { Rank::emoji_ranked(item, 1) }`): the other's aggregate with this
    # one's arguments put in
    for _round in range(3):
        for k, f in prog.fns.items():
            if k in out or f.get("output") not in (RANK, "Self") or not (f.get("impl") or {}).get("self", "").startswith(RANK) or (f.get("impl") or {}).get("trait"):
                continue
            b = prog.body(k)
            ret = strip_refs(b.expr_local(0))
            if ret.k == "call" and ret.a[0] in out and len(b.rblocks) <= 3:
                inner = out[ret.a[0]]
                actual = {i + 1: a for i, a in enumerate(ret.a[1])}

                def put(e):
                    if e is None:
                        return None
                    return e.rebuild(lambda x: actual.get(x.a[0]) if x.k == "arg" and x.a[0] in actual else None)
                out[k] = {"variant": inner["variant"], "item": put(inner["item"]), "rank": put(inner["rank"])}
    return out


def method_roles(prog):
    """Per method struct: composition buffer field, raw-keys field, list field, etc., found by role."""
    roles = {}
    keyfn = common.key_char_fn(prog)
    for ty in prog.method_structs():
        gs = prog.method_impl(ty, "get_suggestion")
        ongoing = prog.method_impl(ty, "ongoing_input_session")
        fields = {f["name"]: f["ty"] for f in prog.struct_fields(ty)}
        string_fields = [n for n, t in fields.items() if t == "std::string::String"]
        # fields tested by the session flag
        ob = prog.body(ongoing)
        tested = set()
        for (bb, t) in ob.calls():
            for a in t["args"]:
                if a["k"] == "const":
                    continue
                sp = self_path(ob.expr_operand(a))
                if sp:
                    tested.add(sp[0])
        # raw-key field: String field that receives the key→char result
        raw = set()
        reach = prog.reach([gs], foreign_trait_impls=False)
        for fk in reach:
            b = prog.body(fk)
            if (prog.fns[fk].get("impl") or {}).get("self") != ty:
                continue
            for (bb, t) in b.calls():
                if callee_name(t).endswith("String::push") or callee_name(t).endswith("String::push_str") \
                        or (callee_name(t).endswith("::extend") and t["args"] and t["args"][0]["k"] != "const" and "std::string::String" in t["args"][0]["place"]["ty"]):
                    tgt = self_path(b.expr_operand(t["args"][0]))
                    val = b.expr_operand(t["args"][1])
                    if tgt and contains_call(val, lambda n: n == keyfn):
                        raw.add(tgt[0])
        comp = [n for n in string_fields if n in tested]
        if len(comp) != 1:
            raise AnchorError("composition buffer of %s: String fields tested by the session flag = %s" % (ty, comp))
        rank_lists = [n for n, t in fields.items() if t == "std::vec::Vec<suggestion::Rank>"]
        roles[ty] = {"buffer": comp[0], "raw": sorted(raw), "session_fields": sorted(tested),
                     "fields": fields, "rank_lists": rank_lists, "get_suggestion": gs}
    return roles


def phonetic_ty(prog):
    """The method struct whose buffer *is* the raw key text (buffer receives key→char)."""
    r = method_roles(prog)
    hits = [t for t, v in r.items() if v["buffer"] in v["raw"]]
    if len(hits) != 1:
        raise AnchorError("phonetic method struct (buffer fed by the key→char table) matched %s" % hits)
    return hits[0]


def fixed_ty(prog):
    r = method_roles(prog)
    hits = [t for t, v in r.items() if v["buffer"] not in v["raw"]]
    if len(hits) != 1:
        raise AnchorError("fixed method struct matched %s" % hits)
    return hits[0]


def suggestion_ctor_sites(prog, reach=None):
    """All calls of Suggestion::new / new_lonely / empty: [(fn key, bb, term, kind)]."""
    out = []
    names = {}
    for k, f in prog.fns.items():
        if (f.get("impl") or {}).get("self") == SUGG and not (f.get("impl") or {}).get("trait") and f.get("output") in ("Self", SUGG):
            ins = f.get("inputs") or []
            if len(ins) == 4:
                names[k] = "list"
            elif len(ins) == 2:
                names[k] = "lonely"
            elif len(ins) == 0:
                names[k] = "empty"
    for k in (reach if reach is not None else prog.fns):
        if k in names:
            continue
        b = prog.body(k)
        for (bb, t) in b.calls():
            n = callee_name(t)
            if n in names:
                out.append((k, bb, t, names[n]))
    return out, names


class Push:
    __slots__ = ("fn", "body", "bb", "kind", "target", "rank", "ctor", "variant", "item", "rankval", "closure", "outer_bb", "outer_body", "term", "ranks")

    def __repr__(self):
        return "Push(%s bb%d %s %s item=%r)" % (self.fn, self.bb, self.kind, self.variant, self.item)


def builder_root(prog, fk):
    """A list builder split into private stages (`split_term`, `add_emoji_suggestions`, …): the function a rule should look at is the one the
    stages were split off — climb from fk through private functions with exactly one call site.  Returns (root key, stages climbed through)."""
    prog.callgraph()
    climbed = []
    for _ in range(6):
        f = prog.fns.get(fk) or {}
        imp = f.get("impl") or {}
        cs = prog.call_sites.get(fk, [])
        if len(cs) != 1 or imp.get("trait") or f.get("no_mangle") or f.get("kind") == "Closure" or cs[0][0] == fk:
            break
        caller = cs[0][0]
        cimp = (prog.fns.get(caller) or {}).get("impl") or {}
        if (cimp.get("self") or None) != (imp.get("self") or None) or prog.fns[caller].get("kind") == "Closure":
            break                       # only within one type's impl (a builder and its own stages)
        if len(f["mir"]["blocks"]) > 120:
            break
        climbed.append(fk)
        fk = caller
    return fk, climbed


def second_splits(prog, fk, sp, ctors=None):
    """One split value per list builder.  For the builder function fk (the one that owns the split the conversion / quoter is applied to): the
    functions of its family (the builder's root, its private stages, same type / module) that build candidates and split the text *again*.
    Counted per call, so that it makes no difference whether a stage is a function of its own or spliced into the builder.
    Returns (root key, [function key per surplus split call])."""
    root_s, _cl = builder_root(prog, fk)
    own_ty = ((prog.fns[root_s].get("impl") or {}).get("self") or None)
    fam = [k for k in prog.reach([root_s], foreign_trait_impls=False)
           if k in prog.fns and (((prog.fns[k].get("impl") or {}).get("self") or None) == own_ty or prog.fns[k].get("kind") == "Closure"
                                 or (not prog.fns[k].get("impl") and k.rsplit("::", 1)[0] == root_s.rsplit("::", 2)[0]))]
    extra = []
    for k in sorted(fam):
        if prog.fns[k].get("kind") == "Closure":
            continue
        kb = prog.body(k)
        n_sp = sum(1 for (_, t) in kb.calls() if callee_name(t) == sp)
        if n_sp and (k == fk or push_events(prog, k, ctors)):
            extra += [k] * (n_sp - 1 if k == fk else n_sp)
    return root_s, extra


def push_events(prog, fnkey, ctors=None, body=None):
    """All pushes into a Vec<Rank> performed by fnkey (directly or via an extend closure)."""
    ctors = ctors or rank_ctors(prog)
    b = body if body is not None else prog.body(fnkey)
    out = []

    def classify(p, rank_e, body):
        r = strip_refs(rank_e)
        p.rank = r
        p.ctor = None
        p.variant = None
        p.item = None
        p.rankval = None
        if r.k == "call" and r.a[0] in ctors:
            info = ctors[r.a[0]]
            p.ctor = r.a[0]
            p.variant = info["variant"]
            # map ctor params to actual args
            def subst(e):
                if e is None:
                    return None
                e = strip_refs(e)
                if e.k == "arg":
                    return r.a[1][e.a[0] - 1]
                # the parameter behind a value-preserving conversion (`item: impl Into<String>` → `item.into()`): the actual argument, converted
                from engine.analyses import peel_conv as _peel
                inner = strip_refs(_peel(e))
                if inner.k == "arg" and inner is not e:
                    return r.a[1][inner.a[0] - 1]
                return e
            p.item = subst(info["item"])
            p.rankval = subst(info["rank"]) if info["rank"] is not None else None
            if info["rank"] is not None and strip_refs(info["rank"]).k not in ("arg", "const"):
                p.rankval = info["rank"]       # computed inside the ctor (edit distance)
        elif r.k == "agg" and r.a[0].startswith("adt:" + RANK + "::"):
            p.variant = r.a[0].split("::")[-1]
            p.item = r.a[1][0] if r.a[1] else None
            p.rankval = r.a[1][1] if len(r.a[1]) > 1 else None

    for (bb, t) in b.calls():
        n = callee_name(t)
        if n.endswith("::collect") and not t["dest"]["p"] and t["dest"]["ty"] == "std::vec::Vec<suggestion::Rank>" and t["args"]:
            # a list *started* from an iterator (`opt.map(|x| Rank::…).into_iter().collect()`): the same event as extending an empty list
            t = dict(t, args=[{"k": "copy", "place": {"l": t["dest"]["l"], "p": [], "ty": "&mut std::vec::Vec<suggestion::Rank>"}}, t["args"][0]])
            n = "::extend"
        vec_ty = t["args"][0]["place"]["ty"] if t["args"] and t["args"][0]["k"] != "const" else ""
        if "Vec<suggestion::Rank>" not in vec_ty and "Vec<T>" not in vec_ty:
            continue
        if n.endswith("Vec::<T, A>::push") or n == "utility::push_checked" or (n in prog.fns and _is_push_helper(prog, n)):
            p = Push()
            p.fn, p.body, p.bb, p.term = fnkey, b, bb, t
            p.kind = "push" if n.endswith("::push") else "push_checked"
            p.target = b.expr_operand(t["args"][0])
            p.closure = None
            p.outer_bb, p.outer_body = bb, b
            classify(p, b.expr_operand(t["args"][1]), b)
            out.append(p)
        elif n.endswith("Extend<T>>::extend") or n.endswith("::extend"):
            it = strip_refs(b.expr_operand(t["args"][1]))
            p = Push()
            p.fn, p.body, p.bb, p.term = fnkey, b, bb, t
            p.kind = "extend"
            p.target = b.expr_operand(t["args"][0])
            p.closure = None
            p.outer_bb, p.outer_body = bb, b
            p.rank = it
            p.ctor = p.variant = p.item = p.rankval = None
            # find the mapping closure that produces the Rank
            clo = _find_rank_closure(prog, it)
            if clo:
                p.closure = clo
                cb = prog.body(clo)
                rets = []
                try:
                    for path in enumerate_paths(cb):
                        rets.append(path_return(cb, path))
                except Exception:
                    rets = []
                if not rets:
                    # loops inside the closure: fall back to the unique call that defines the return place
                    rdefs = [d for d in cb.defs.get(0, []) if d[2] == "call" and not d[3]["dest"]["p"]]
                    if len(rdefs) == 1 and len(cb.defs.get(0, [])) == 1:
                        t0 = rdefs[0][3]
                        rets = [E("call", callee_name(t0), tuple(cb.expr_operand(a) for a in t0["args"]), rdefs[0][0], t=t0)]
                if rets and all(r is not None for r in rets):
                    sub = Push()
                    classify(sub, rets[0], cb)
                    same = all(strip_refs(r).k == "call" and strip_refs(r).a[0] == (sub.ctor or "") for r in rets)
                    if same or len(rets) == 1:
                        p.ctor, p.variant, p.item, p.rankval, p.rank = sub.ctor, sub.variant, sub.item, sub.rankval, sub.rank
                        p.body = cb
                        p.ranks = [strip_refs(r) for r in rets]         # one per return path of the closure
            out.append(p)
    return out


def _is_push_helper(prog, n):
    f = prog.fns[n]
    ins = f.get("inputs") or []
    return len(ins) == 2 and ins[0].startswith("&mut std::vec::Vec<") and f.get("output") == "()"


def _find_rank_closure(prog, it):
    """In an iterator expression, the local closure whose return type is Rank (Iterator::map / flat_map…)."""
    best = None
    for x in it.walk():
        if x.k == "agg" and x.a[0].startswith("closure:"):
            ck = x.a[0][len("closure:"):]
            if ck in prog.fns:
                ret_ty = prog.fns[ck]["mir"]["locals"][0]["ty"]
                if ret_ty == RANK:
                    best = ck
                else:
                    # flat_map closure returning an iterator: look for nested closures
                    for ck2 in prog.closures_of(ck):
                        if prog.fns[ck2]["mir"]["locals"][0]["ty"] == RANK:
                            best = best or ck2
    return best


def closure_run_guards(prog, ckey):
    """`cond.then(|| …)`: the closure runs only when cond holds — [(E, polarity, block)] for the closure `ckey`."""
    out = []
    try:
        cons = closure_consumer(prog, ckey)
        if cons:
            cpb, cbb_, ct_, cai = cons
            if callee_name(ct_).endswith("bool::then") or callee_name(ct_).endswith("bool>::then") or callee_name(ct_).split("::<")[0].endswith("::then"):
                cd_ = strip_refs(cpb.expr_operand(ct_["args"][0]))
                pol_ = True
                while cd_.k == "un" and cd_.a[0] == "Not":
                    cd_ = strip_refs(cd_.a[1])
                    pol_ = not pol_
                raw_guard = (cd_, pol_, cbb_)
                # `(a && b).then(..)`: the condition is a flag — `if a { flag = b } else { flag = false }` — and it is true only where
                # its one non-false definition stands, i.e. under that definition's own guards
                a0_ = ct_["args"][0]
                if not (pol_ and a0_.get("k") in ("move", "copy") and not a0_["place"]["p"]):
                    out.append(raw_guard)
                if pol_ and a0_.get("k") in ("move", "copy") and not a0_["place"]["p"]:
                    defs_ = cpb.defs.get(a0_["place"]["l"], [])
                    # the flag kept in a named local (`let wanted = a && b; … wanted.then(..)`): the temporary handed to `then` is a copy of it
                    for _hop in range(4):
                        if len(defs_) == 1 and defs_[0][2] == "assign" and not defs_[0][3]["place"]["p"] and defs_[0][3]["rv"]["k"] == "use" \
                                and defs_[0][3]["rv"]["op"].get("k") in ("move", "copy") and not defs_[0][3]["rv"]["op"]["place"]["p"]:
                            defs_ = cpb.defs.get(defs_[0][3]["rv"]["op"]["place"]["l"], [])
                        else:
                            break
                    live_ = []
                    for d_ in defs_:
                        if d_[2] == "assign" and not d_[3]["place"]["p"] and d_[3]["rv"]["k"] == "use" and d_[3]["rv"]["op"].get("k") == "const" \
                                and d_[3]["rv"]["op"].get("bool") is False:
                            continue
                        live_.append(d_)
                    if len(live_) == 1 and len(defs_) >= 2:
                        out.extend(guards_of(cpb, live_[0][0]))
                        # … and where that definition's own value is true
                        d_ = live_[0]
                        if d_[2] == "assign":
                            lv_ = strip_refs(cpb.expr_rvalue(d_[3]["rv"]))
                            lp_ = True
                            while lv_.k == "un" and lv_.a[0] == "Not":
                                lv_ = strip_refs(lv_.a[1])
                                lp_ = not lp_
                            raw_guard = (lv_, lp_, d_[0])
                        elif d_[2] == "call":
                            t_ = d_[3]
                            raw_guard = (E("call", callee_name(t_), tuple(cpb.expr_operand(a_) for a_ in t_["args"]), d_[0], t=t_), True, d_[0])
                out.append(raw_guard)
    except Exception:
        pass
    return out


def effective_guards(prog, body, bb, closure=None):
    """Guards dominating bb, plus (for closures) the guards dominating the closure's creation site,
    transitively to the root function.  `closure`: the closure that builds the pushed value (its own run condition counts too)."""
    out = list(guards_of(body, bb))
    if closure:
        out.extend(closure_run_guards(prog, closure))
    key = body.key
    f = prog.fns.get(key)
    for _ in range(6):
        if f is None:
            break
        if f.get("kind") == "Closure":
            cc = closure_creation(prog, key)
            if not cc:
                break
            pb, i, j, s, ups = cc
            out.extend(guards_of(pb, i))
            out.extend(closure_run_guards(prog, key))
            key = pb.key
            f = prog.fns.get(key)
            continue
        # a private stage of a builder (an inherent method / free function with exactly one call site): whatever guards the call guards the stage
        prog.callgraph()
        cs = prog.call_sites.get(key, [])
        imp = f.get("impl") or {}
        if len(cs) != 1 or imp.get("trait") or f.get("no_mangle") or f.get("vis") == "pub":
            break
        caller, cbb, ct = cs[0]
        if caller == key:
            break
        cimp = (prog.fns.get(caller) or {}).get("impl") or {}
        if (cimp.get("self") or None) != (imp.get("self") or None) or (prog.fns.get(caller) or {}).get("kind") == "Closure":
            break                       # only a builder's own stages (same type), not the event method that calls the builder
        cb = prog.body(caller)
        out.extend(guards_of(cb, cbb))
        key = caller
        f = prog.fns.get(key)
    return out


def creator_value(prog, p):
    """For a candidate built inside a closure from a captured value (`cond.then(|| Rank::last_ranked(term.to_string(), 3))`): the captured value
    as the creating function sees it — (peeled E, creator body) — or None when the item is not just a capture."""
    if not getattr(p, "closure", None) or p.item is None:
        return None
    from engine.analyses import subst_upvars
    pe = peel_conv(p.item)
    r, f = apath(pe)
    if not (r.k == "arg" and r.a[0] == 1 and f and str(f[0]).isdigit()):
        return None             # not a projection of the closure's environment
    cc = closure_creation(prog, p.closure)
    if not cc:
        return None
    return peel_conv(subst_upvars(prog, p.closure, p.item)), cc[0]


def guarded(guards, callee_suffix, polarity):
    for (d, pol, s) in guards:
        if d.k == "call" and d.a[0].endswith(callee_suffix) and pol == polarity:
            return True
    return False
