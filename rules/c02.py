"""C02 — every returned suggestion is self-consistent and fully retrievable.

Decided statically: what may flow into the list suggestion's selection (bounded by the list /
constant / caller-controlled), auxiliary text = the composition buffer, list length ≥ 1 at every
list constructor, candidate list = 1:1 image of the rank list, single variant needs no index.
Not decided: totality of the third-party encoder on every candidate (C16)."""
from engine.mir import E, apath, strip_refs, is_const, const_val, callee_name, self_path
from engine.analyses import (peel_conv, guards_of, path_table, variant_of, ModSets, VecBounds, contains_call,
                             direct_writes, enumerate_paths, path_return)
from engine.report import site_of
from . import common, builders


def callee_ret(prog, e, depth=0):
    """Resolve `field(call(local fn), i)` / `call(local fn)` into the callee's return expression
    with the callee's parameters substituted by the actual arguments (bounded depth)."""
    e0 = strip_refs(e)
    idx = None
    x = e0
    if x.k == "field" and strip_refs(x.a[0]).k == "call":
        idx = x.a[1]
        x = strip_refs(x.a[0])
    if x.k != "call" or x.a[0] not in prog.fns or depth > 4:
        return e0, None
    cb = prog.body(x.a[0])
    ret = cb.expr_local(0)
    if idx is not None:
        if ret.k == "agg" and ret.a[0] == "tuple" and isinstance(idx, int) and idx < len(ret.a[1]):
            ret = ret.a[1][idx]
        else:
            return e0, None
    return ret, (x.a[0], x)


def run(ctx):
    prog, chk = ctx.prog, ctx.check
    chk.explanation = (
        "Provenance of every value that can reach the selection field of a list suggestion (constructor argument resolved through the "
        "method's field and the builders' return values, plus later stores through a reference), provenance of the auxiliary text, a "
        "[lo,hi] length dataflow with callee summaries for the rank list at every list constructor, and the constructor's 1:1 mapping.")
    chk.not_decided = ["that every candidate can be encoded in ANSI mode (third-party encoder totality: C16.R5)"]
    mods = ctx.memo("modsets", lambda: ModSets(prog))
    roles = builders.method_roles(prog)
    sites, ctor_names = builders.suggestion_ctor_sites(prog)
    list_ctor = [k for k, v in ctor_names.items() if v == "list"][0]
    entry = [roles[t]["get_suggestion"] for t in roles] + [prog.method_impl(t, "backspace_event") for t in roles]
    reach = prog.reach(entry, foreign_trait_impls=False)

    # ---------------- R1 selection
    r1 = chk.rule("C02.R1", "every value stored as the list suggestion's selection is bounded by that list",
                  "the previously-selected index is smaller than the length")
    # which field of the Full variant is the selection: the ctor's 3rd parameter
    cb = prog.body(list_ctor)
    ret = cb.expr_local(0)
    sel_field = None
    if ret.k == "agg" and ret.a[0].endswith("Suggestion::Full"):
        fields = ret.t["fields"]
        for i, op in enumerate(ret.a[1]):
            o = strip_refs(op)
            if o.k == "arg" and o.a[0] == 3:
                sel_field = fields[i]
    if sel_field is None:
        r1.undecidable("ctor", "list constructor does not store its third parameter into a field of the list variant", common.fn_line(prog, list_ctor))
        return
    n_sites = 0
    for (fk, bb, t, kind) in sites:
        if kind != "list" or fk not in reach:
            continue
        b = prog.body(fk)
        n_sites += 1
        short = fk.split("::")[-1]
        key = "ctor@%s#%d" % (short, sum(1 for (k2, bb2, t2, kd2) in sites if k2 == fk and kd2 == "list" and bb2 < bb))
        v = strip_refs(b.expr_operand(t["args"][2]))
        chain = []
        # through a field of self assigned in this function
        sp = self_path(v)
        if sp is not None and v.k in ("field", "deref"):
            assigns = [w for w in direct_writes(b) if w["op"] == "assign" and w["root"].k == "arg" and w["root"].a[0] == 1 and w["fields"] == sp]
            doms = [w for w in assigns if b.pos_dominates((w["bb"], w["idx"]), b.term_pos(bb))]
            if len(doms) == 1:
                v = strip_refs(b.expr_rvalue(doms[0]["rv"]))
                chain.append("self.%s assigned at line %s" % (".".join(sp), doms[0]["line"]))
            else:
                r1.violation(key, "selection argument reads self.%s, which is not (uniquely) assigned before the constructor on this path — "
                             "a stale index from an earlier list may be returned" % ".".join(sp), site_of(b, bb))
                continue
        cur = v
        owner = b
        list_field = None
        for _ in range(5):
            nxt, via = callee_ret(prog, cur)
            if via is None:
                break
            chain.append("return of %s" % via[0])
            owner = prog.body(via[0])
            cur = strip_refs(nxt)
        verdict = classify_selection(prog, owner, cur)
        if verdict[0] == "const0":
            r1.ok(key, "selection = constant 0" + (" via " + ", ".join(chain) if chain else ""))
        elif verdict[0] == "position":
            # the list handed to the constructor must be the vector searched
            lst = strip_refs(b.expr_operand(t["args"][1]))
            lst_res = peel_conv(lst)
            for _ in range(5):
                nxt, via = callee_ret(prog, lst_res)
                if via is None:
                    break
                lst_res = peel_conv(nxt)
            searched = verdict[1]
            same = apath(lst_res) == apath(searched)
            # the copy handed to the constructor must not lose elements after the position was taken
            SHRINK = ("::truncate", "::pop", "::remove", "::swap_remove", "::retain", "::retain_mut", "::drain", "::clear", "::split_off", "::dedup",
                      "::dedup_by", "::dedup_by_key")
            shr = [(bb2, callee_name(t2)) for (bb2, t2) in b.calls() if t2["args"] and t2["args"][0]["k"] != "const"
                   and "Vec<suggestion::Rank>" in t2["args"][0]["place"]["ty"] and t2["args"][0]["place"]["ty"].startswith("&mut")
                   and any(callee_name(t2).endswith(x) for x in SHRINK) and self_path(b.expr_operand(t2["args"][0])) is None
                   and bb in b.reachable_from(bb2)]
            if same and shr:
                r1.violation(key, "the list is shrunk with %s after the selection was computed as a position in the full list — the index can lie beyond the returned list"
                             % shr[0][1].split("::")[-1], site_of(b, shr[0][0]))
            elif same:
                r1.ok(key, "selection = position(..).unwrap_or_default() in the very list that is returned (%s)" % ", ".join(chain))
            else:
                r1.violation(key, "selection is a position in %r but the list handed to the constructor is %r" % (searched, lst_res), site_of(b, bb))
        else:
            r1.violation(key, "selection argument has provenance %r which is not bounded by the list (%s)" % (cur, verdict[1]), site_of(b, bb))
    # later stores through references: looked for in the event methods with every helper spliced in
    from . import roles as _roles
    for fk in sorted(entry):
        b = _roles.ib(prog, fk)
        for w in direct_writes(b):
            if w["op"] != "assign" or not w["fields"] or w["fields"][-1] != sel_field:
                continue
            if len(w["fields"]) < 2 or w["fields"][-2] != "@Full":
                continue
            rv = strip_refs(b.expr_rvalue(w["rv"]))
            val = peel_conv(rv)
            guards = guards_of(b, w["bb"])
            # which characters / conditions guard the store (part of the finding's identity)
            gdesc = []
            bounded = False
            for (d, pol, s) in guards:
                if d.k == "bin" and d.a[0] in ("Lt", "Le", "Gt", "Ge"):
                    txt = repr(d)
                    if "len" in txt and _mentions(d, val):
                        bounded = True
                if isinstance(pol, tuple) or pol == "otherwise":
                    if b.blocks[s]["term"]["discr_ty"] == "char":
                        gdesc.append("".join(sorted(chr(v) for v in (pol if isinstance(pol, tuple) else ()))))
            # the set of key characters under which the store happens (whatever its spelling: matches!, a constant array, a predicate)
            gdesc = []
            charset = _guard_charset(prog, b, w["bb"])
            if charset is not None:
                gdesc.append(charset)
            key = "store@%s[%s]" % (fk.split(">::")[-1].split("::")[-1], "|".join(gdesc))
            tainted = val.k == "arg" and 2 <= val.a[0] <= b.arg_count and b.locals[val.a[0]]["ty"] in ("u8", "usize", "u16", "u32", "u64")
            if bounded:
                r1.ok(key, "store of %r is dominated by a comparison with the list length" % (val,))
            elif tainted:
                r1.violation(key, "the caller-supplied %s parameter is stored as the selection without being compared with the new list's length "
                             "(guard characters: %s)" % (b.locals[val.a[0]]["ty"], "|".join(gdesc) or "none"), site_of(b, w["bb"], w["idx"]),
                             {"value": repr(val), "guard_chars": gdesc})
            elif is_const(val, "int", 0):
                r1.ok(key, "store of constant 0")
            else:
                r1.violation(key, "selection is overwritten with %r, which is not bounded by the list" % (val,), site_of(b, w["bb"], w["idx"]))
    r1.floor(4, "3 list-constructor sites + the punctuation override store")

    # ---------------- R2 auxiliary text
    r2 = chk.rule("C02.R2", "auxiliary text of every list suggestion is a copy of the composition buffer",
                  "auxiliary text is exactly the user's in-progress composition")
    for (fk, bb, t, kind) in sites:
        if kind != "list" or fk not in reach:
            continue
        b = prog.body(fk)
        ty = (prog.fns[fk].get("impl") or {}).get("self")
        short = fk.split("::")[-1]
        key = "aux@%s#%d" % (short, sum(1 for (k2, bb2, t2, kd2) in sites if k2 == fk and kd2 == "list" and bb2 < bb))
        if ty not in roles:
            r2.undecidable(key, "list constructor called outside a method struct (%s)" % fk, site_of(b, bb))
            continue
        a0 = peel_conv(b.expr_operand(t["args"][0]))
        sp = self_path(a0)
        if sp == (roles[ty]["buffer"],):
            r2.ok(key, "clone of self.%s" % roles[ty]["buffer"])
        else:
            r2.violation(key, "auxiliary text is %r, expected a copy of the composition buffer self.%s" % (a0, roles[ty]["buffer"]), site_of(b, bb))
    r2.floor(3, "three list-constructor sites")

    # ---------------- R3 non-empty list
    r3 = chk.rule("C02.R3", "the rank list handed to every list constructor has length ≥ 1 on every path",
                  "a list-style suggestion holds at least one candidate")
    vb = VecBounds(prog, mods)
    for (fk, bb, t, kind) in sites:
        if kind != "list" or fk not in reach:
            continue
        b = prog.body(fk)
        short = fk.split("::")[-1]
        key = "len@%s#%d" % (short, sum(1 for (k2, bb2, t2, kd2) in sites if k2 == fk and kd2 == "list" and bb2 < bb))
        lst = peel_conv(b.expr_operand(t["args"][1]))
        sp = self_path(lst)
        if sp is not None and lst.k != "call":
            st = vb.state_before_term(fk, 1, sp, bb)
            if st and st[0] >= 1:
                r3.ok(key, "self.%s has length ≥ %d here (dataflow with callee summaries)" % (".".join(sp), st[0]))
                continue
            # stored list re-used: accept only under the non-empty-buffer guard + builder post-dominance (R3')
            ty = (prog.fns[fk].get("impl") or {}).get("self")
            g = guards_of(b, bb)
            nonempty = any(d.k == "call" and d.a[0].endswith("::is_empty")
                           and self_path(peel_conv(d.a[1][0])) == (roles[ty]["buffer"],) and pol is False
                           for (d, pol, s) in g)
            if nonempty and _builder_postdominates(prog, roles, ty, mods, r3, key):
                r3.assume("A-cfg: options do not change while a word is being composed (update-engine is only in contract while idle)")
                r3.ok(key, "re-uses the stored list under !buffer.is_empty(); every event path that leaves the buffer non-empty ends in the list builder")
            else:
                r3.violation(key, "cannot show self.%s non-empty here (bounds %s) and the site is not the guarded re-use of a list built by the last event"
                             % (".".join(sp), st), site_of(b, bb))
            continue
        # list comes out of a callee's return value
        cur = lst
        via = None
        nxt, via = callee_ret(prog, cur)
        if via is None:
            r3.undecidable(key, "list argument %r is neither a field of self nor a builder's return value" % (lst,), site_of(b, bb))
            continue
        callee = via[0]
        cbody = prog.body(callee)
        src = peel_conv(nxt)
        sp2 = self_path(src)
        # position of the clone in the callee
        if sp2 is None:
            r3.undecidable(key, "builder %s returns %r" % (callee, src), site_of(b, bb))
            continue
        clone_bb = None
        for (cbb, ct) in cbody.calls():
            if callee_name(ct).endswith("Clone>::clone") and self_path(cbody.expr_operand(ct["args"][0])) == sp2:
                clone_bb = cbb
        if clone_bb is None:
            r3.undecidable(key, "cannot find where %s copies self.%s" % (callee, ".".join(sp2)), site_of(b, bb))
            continue
        st = vb.state_before_term(callee, 1, sp2, clone_bb)
        if st and st[0] >= 1:
            r3.ok(key, "%s returns a copy of self.%s whose length is ≥ %d at the copy" % (callee.split("::")[-1], ".".join(sp2), st[0]))
        else:
            r3.violation(key, "%s may return an empty list: bounds of self.%s at the copy are %s" % (callee, ".".join(sp2), st), site_of(cbody, clone_bb))
    r3.floor(3, "three list-constructor sites")

    # ---------------- R4 constructor maps 1:1; single variant needs no index
    r4 = chk.rule("C02.R4", "candidate list is a 1:1 image of the rank list; the single variant ignores the index",
                  "every index below the length can be read as a candidate and as pre-edit text; a single-string suggestion is readable at index 0")
    cands = None
    if ret.k == "agg":
        for i, op in enumerate(ret.a[1]):
            if ret.t["fields"][i] == "suggestions":
                cands = strip_refs(op)
    if cands is None:
        r4.undecidable("ctor-map", "constructor has no `suggestions` field")
    else:
        bad = None
        x = cands
        seen_map = False
        while x.k == "call":
            n = x.a[0]
            if n.endswith("Iterator::collect") or n.endswith("::collect"):
                x = strip_refs(x.a[1][0])
            elif n.endswith("Iterator::map") or n.endswith("::map"):
                seen_map = True
                x = strip_refs(x.a[1][0])
            elif n.endswith("::iter") or n.endswith("::into_iter"):
                x = strip_refs(x.a[1][0])
                break
            elif n.endswith("::cloned") or n.endswith("::copied"):
                x = strip_refs(x.a[1][0])
            else:
                bad = n
                break
        loop_src = None
        if bad and cands.k == "call" and isinstance(cands.a[2], int) and cb.blocks[cands.a[2]]["term"]["k"] == "call":
            from engine.analyses import mapped_vec_loop
            loop_src = mapped_vec_loop(cb, cb.blocks[cands.a[2]]["term"]["dest"]["l"])
        if loop_src is not None and loop_src.k == "arg" and loop_src.a[0] == 2:
            r4.ok("ctor-map", "suggestions = one push per element of a loop over the rank list — same length")
        elif bad:
            r4.violation("ctor-map", "candidate list is built through %s, which can change its length relative to the rank list" % bad, common.fn_line(prog, list_ctor))
        elif x.k == "arg" and x.a[0] == 2 and seen_map:
            r4.ok("ctor-map", "suggestions = ranks.iter().map(to_owned).collect() — same length")
        else:
            r4.violation("ctor-map", "candidate list derives from %r, not from the rank list parameter" % (x,), common.fn_line(prog, list_ctor))
    ro = prog.fn_named("get_pre_edit_text", self_ty=builders.SUGG)
    rb = prog.body(ro)
    adt = prog.adts[builders.SUGG]
    try:
        for conds, retv, path in path_table(rb):
            variant = None
            for c in conds:
                if strip_refs(c[0]).k == "discr":
                    vs = variant_of(c, adt)
                    variant = vs[0] if len(vs) == 1 else None
            if variant == "Single":
                uses_index = any(x.k == "arg" and x.a[0] == 2 for x in retv.walk()) or contains_call(retv, lambda n: "Index" in n)
                sig = "/".join(str(c[1]) for c in conds)
                if uses_index:
                    r4.violation("single:%s" % sig, "the single-string read-out uses the index", common.fn_line(prog, ro))
                else:
                    r4.ok("single:%s" % sig, "single variant read-out does not use the index")
    except Exception as e:
        r4.undecidable("single", "cannot enumerate read-out paths: %s" % e)
    r4.floor(3, "constructor map + two single-variant leaves")


def classify_selection(prog, body, e):
    e = strip_refs(e)
    if is_const(e, "int", 0):
        return ("const0", None)
    if e.k == "call" and (e.a[0].endswith("unwrap_or_default") or e.a[0].endswith("unwrap_or")):
        if e.a[0].endswith("unwrap_or") and not is_const(strip_refs(e.a[1][1]), "int", 0):
            return ("other", "unwrap_or with a non-zero default")
        inner = strip_refs(e.a[1][0])
        if inner.k == "call" and inner.a[0].endswith("::position"):
            it = strip_refs(inner.a[1][0])
            # iter(deref(vec))
            x = it
            while x.k == "call" and (x.a[0].endswith("::iter") or x.a[0].endswith("::deref") or x.a[0].endswith("::into_iter") or x.a[0].endswith("::as_slice")):
                x = strip_refs(x.a[1][0])
            return ("position", x)
    if e.k == "phi":
        kinds = [classify_selection(prog, body, x) for x in e.a[0]]
        if all(k[0] == "const0" for k in kinds):
            return ("const0", None)
    return ("other", "not a constant 0 nor position(..).unwrap_or_default()")


def _mentions(d, val):
    return any(x == val for x in d.walk())


def _charset_feeding(b, bb):
    """If bb is guarded by a bool that a `matches!` on a char produced: the character set."""
    for (d, pol, s) in guards_of(b, bb):
        t = b.blocks[s]["term"]
        if t["discr_ty"] != "bool":
            continue
        # the bool temp is assigned const true/false in blocks reached from a char switch
        loc = t["discr"]["place"]["l"] if t["discr"]["k"] != "const" else None
        if loc is None:
            continue
        true_blocks = [d_[0] for d_ in b.defs.get(loc, []) if d_[2] == "assign" and d_[3]["rv"]["k"] == "use"
                       and d_[3]["rv"]["op"].get("bool") is True]
        for tb in true_blocks:
            for p in b.bpred[tb]:
                pt = b.blocks[p]["term"]
                if pt["k"] == "switch" and pt["discr_ty"] == "char":
                    vals = [v for v, tgt in pt["targets"] if tgt == tb]
                    if pol is True:
                        return "".join(sorted(chr(v) for v in vals))
    return None


def _builder_postdominates(prog, roles, ty, mods, rule, key):
    """R3': in the fixed key handler, after the buffer-growing call every path to return passes the suggestion builder."""
    gs = roles[ty]["get_suggestion"]
    b = prog.body(gs)
    buf = roles[ty]["buffer"]
    growers = []
    builders_bb = []
    for (bb, t) in b.calls():
        n = callee_name(t)
        if n in prog.fns:
            w = mods.writes_of_call(b, bb, t)
            if any(root.k == "arg" and root.a[0] == 1 and f[:1] == (buf,) for (root, f, via) in w):
                if "Vec<suggestion::Rank>" in " ".join(l["ty"] for l in prog.fns[n]["mir"]["locals"]) and "create" in n:
                    pass
                growers.append(bb)
            if n.endswith("create_suggestion") or _returns_list_suggestion(prog, n):
                builders_bb.append(bb)
    if not growers or not builders_bb:
        return False
    flag_fn = prog.method_impl(ty, "ongoing_input_session") if buf in roles[ty].get("session_fields", ()) else None
    _, ctor_names = builders.suggestion_ctor_sites(prog)
    empty_ctors = {k for k, v in ctor_names.items() if v == "empty"}
    for g in growers:
        if g in builders_bb:
            continue
        # a path from the grower to return that avoids the builder must leave over an edge on which the buffer is empty (the session flag's
        # false edge, or buffer.is_empty()'s true edge) and return the empty suggestion — an empty buffer is never shown from the stored list
        ok, _ = common.passes_or_ends_empty(prog, b, g, builders_bb, buf, flag_fn, builders.SUGG, empty_ctors)
        if not ok:
            return False
    return True


def _returns_list_suggestion(prog, n):
    f = prog.fns.get(n)
    return bool(f) and f.get("output") == builders.SUGG and "&mut" in (f.get("inputs") or [""])[0]


def _guard_charset(prog, b, bb):
    """Characters of the key (ASCII) for which the guarded block is reached, from the guards that test the key's character."""
    from engine.analyses import PredEval
    kfn = common.key_char_fn(prog)
    sets = []
    for (d, pol, s) in guards_of(b, bb):
        t = b.blocks[s]["term"]
        if isinstance(pol, tuple) and t["discr_ty"] == "char":
            sets.append({chr(v) for v in pol})
            continue
        if pol is not True and pol is not False:
            continue
        if d.k == "call" and (d.a[0].endswith("[T]>::contains") or d.a[0].endswith("str>::contains")) and len(d.a[1]) == 2:
            c0 = peel_conv(d.a[1][0])
            while c0.k == "cast":
                c0 = peel_conv(c0.a[1])
            members = None
            if is_const(c0, "array"):
                members = {chr(x) for x in const_val(c0) if isinstance(x, int)}
            elif is_const(c0, "str"):
                members = set(const_val(c0))
            elif c0.k == "agg" and c0.a[0] == "array":
                members = {const_val(strip_refs(x)) for x in c0.a[1] if is_const(strip_refs(x), "char")}
            if members is not None and contains_call(d.a[1][1], lambda n: n == kfn) is not None:
                sets.append(members if pol else {chr(c) for c in range(0x20, 0x7f)} - members)
                continue
        if d.k == "call" and (d.a[0].endswith("Iterator>::any") or d.a[0].endswith("Iterator::any")) and len(d.a[1]) == 2:
            # TABLE.iter().any(|&m| m == character): the table's members, when the closure is a plain equality with the key's character
            src = d.a[1][0]
            arr = None
            for x in src.walk():
                xs = x
                if is_const(xs, "array"):
                    arr = {chr(v) for v in const_val(xs) if isinstance(v, int)}
                elif xs.k == "agg" and xs.a[0] == "array" and all(is_const(strip_refs(y), "char") for y in xs.a[1]):
                    arr = {const_val(strip_refs(y)) for y in xs.a[1]}
            clo = strip_refs(d.a[1][1])
            if arr is not None and clo.k == "agg" and str(clo.a[0]).startswith("closure:"):
                cb_ = prog.body(clo.a[0][8:])
                ret_ = strip_refs(cb_.expr_local(0))
                ups = [strip_refs(u) for u in clo.a[1]]
                key_up = any(contains_call(u, lambda n: n == kfn) is not None for u in ups)
                if ret_.k == "bin" and ret_.a[0] == "Eq" and key_up:
                    sets.append(arr if pol else {chr(c) for c in range(0x20, 0x7f)} - arr)
                    continue
        if d.k == "call" and d.a[0] in prog.fns and prog.fns[d.a[0]].get("inputs") == ["char"] and contains_call(d.a[1][0], lambda n: n == kfn) is not None:
            pe = PredEval(prog)
            cs = pe.char_set(d.a[0], [chr(c) for c in range(0x20, 0x7f)])
            if cs is not None:
                sets.append(cs if pol else {chr(c) for c in range(0x20, 0x7f)} - cs)
                continue
    cs = _charset_feeding(b, bb)
    if cs is not None:
        sets.append(set(cs))
    if not sets:
        return None
    out = set.intersection(*sets)
    return "".join(sorted(out))
