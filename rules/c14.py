"""C14 — old vowel-sign order typing yields the same text as Unicode-order typing.

Decided statically on the symbolic path summaries of the key-value processor (option-on fragment):
a pending sign is only ever set under the option; the capture / restore maps between signs and pending
states are mutually consistent; two-part fusion leaves; wherever none of the feature's documented
situations applies the option-on paths have exactly the option-off effects; the pending sign is never
rendered, counts as session, and is discarded by one back-space without a pop.
Not decided: equality of the final text with Unicode-order typing for all syllable shapes."""
from engine.mir import E, apath, strip_refs, is_const, const_val, callee_name, self_path
from engine.analyses import (peel_conv, contains_call, ModSets, PathLimit, PredEval, direct_writes)
from engine.report import site_of
from . import common, builders, classes, kvp, c06, c12

I_KAR, E_KAR, OI_KAR, AA_KAR, O_KAR, OU_KAR, LENGTH_MARK, HASANTA = "ি", "ে", "ৈ", "া", "ো", "ৌ", "ৗ", "্"
STATE_OF = {I_KAR: "I", E_KAR: "E", OI_KAR: "OI"}


SIGN_OF = {"I": I_KAR, "E": E_KAR, "OI": OI_KAR}
VOWEL_OF = {k: chr(ord(v) - 0x38) for k, v in SIGN_OF.items()}


class Infeasible(Exception):
    pass


def _pending_state(v, variants):
    """The pending state a path has matched on (from its pending_variant atom)."""
    for a, val in v.s.atoms:
        if a[0] == "pending_variant":
            if val == "otherwise":
                rest = [variants[i] for i in range(len(variants)) if i not in a[1]]
                if len(rest) == 1:
                    return rest[0]
                raise c12.Undecided("which pending sign is waiting")
            if len(val) == 1 and val[0] < len(variants):
                return variants[val[0]]
    raise c12.Undecided("which pending sign is waiting (no match on the pending state)")


def _switch_state(v, kind, what):
    """State captured by a match on a character (kind = char_switch / popped_switch): the arm taken decides the state."""
    for a, val in v.s.atoms:
        if a[0] == kind:
            if val == "otherwise":
                missing = [c for c in STATE_OF if ord(c) not in a[1]]
                if missing:
                    raise c12.Mismatch("the %s match has no arm for %s: that sign is dropped instead of kept waiting" % (what, " ".join("U+%04X" % ord(m) for m in missing)))
                raise Infeasible()          # the character is one of ি ে ৈ here, and all three have arms
            sts = {STATE_OF.get(chr(c)) for c in val}
            if len(sts) != 1 or None in sts:
                raise c12.Mismatch("the %s match maps %s to one arm" % (what, [hex(c) for c in val]))
            return sts.pop()
    raise c12.Undecided("which sign is captured (no match on the %s)" % what)


def expected_on(v, variants):
    """Independent transcription of the rule list with the old vowel-sign order option ON (typewriter order: ি ে ৈ are typed before
    their consonant).  Mirrors the priority order of the documentation; where no old-order rule applies it falls through to the rules of C12."""
    need, t_and, t_or, t_not = c12.need, c12.t_and, c12.t_or, c12.t_not
    lsk_rmc = lambda: v.T("rmc_pred", "is_left_standing_kar")
    if need(v.T("value_is", kvp.ZOFOLA), "whether the value is zo-fola"):
        c = need(t_and(v.rmc_is(c12.R_), t_not(v.T("second_last_eq", HASANTA))), "bare র before zo-fola")
        pre = [("push", c12.ZWJ)] if c else []
        if need(lsk_rmc(), "whether the text ends in a left-standing sign (zo-fola slips under it)"):
            if v.T("popped_some") is False:
                raise Infeasible()
            # the zo-fola joins the consonant *under* the sign: that consonant decides about the joiner (Unicode-order typing would have had it
            # as the last character when the zo-fola was typed)
            cu = need(t_and(v.T("second_last_eq", c12.R_), t_not(v.T("third_last_eq", HASANTA))), "bare র under the left-standing sign before zo-fola")
            return pre + [("pop",)] + ([("push", c12.ZWJ)] if cu else []) + [("push_str", "<value>"), ("push", "<popped>")]
        return pre + [("push_str", "<value>")]
    if need(t_and(v.T("value_is", kvp.REPH), v.cfg("get_fixed_old_reph")), "reph key ∧ old-reph option"):
        return [("call", "<reph>")]
    if need(v.T("char_some"), "whether the value has a first character"):
        if need(v.T("char_pred", "is_kar"), "whether the key is a vowel sign"):
            if need(t_and(t_not(v.rmc_is(HASANTA)), v.T("char_pred", "is_left_standing_kar")), "a left-standing sign typed (not after a hasanta): it waits"):
                return [("pending", _switch_state(v, "char_switch", "typed sign"))]
            if need(t_and(v.rmc_is(E_KAR), t_or(v.char_is(AA_KAR), v.char_is(OU_KAR))), "ে followed by া / ৌ (two-part sign)"):
                if v.char_is(AA_KAR) is True:
                    return [("pop",), ("push", O_KAR)]
                if v.char_is(OU_KAR) is True:
                    return [("pop",), ("push", OU_KAR)]
                raise Infeasible()
            if need(v.T("pending_some"), "whether a sign is waiting"):
                if need(v.rmc_is(HASANTA), "whether the text ends in a hasanta (the waiting sign joins the conjunct)"):
                    st = _pending_state(v, variants)
                    # the sign is put under the hasanta; the typed sign is then handled by the ordinary rules (the text ends in the hasanta again)
                    return [("pop",), ("push", SIGN_OF[st]), ("pending", None), ("push", HASANTA)] + c12.kar_rules(v)
                marks, lit = v.rmc_in_marks()
                av = need(t_and(v.cfg("get_fixed_automatic_vowel"), t_or(v.T("buf_empty"), v.T("rmc_pred", "is_vowel"), marks)),
                          "automatic vowel forming for the waiting sign")
                return ([("push", VOWEL_OF[_pending_state(v, variants)])] if av else []) + [("pending", None), ("recurse",)]
            return c12.kar_rules(v)
        if need(t_and(v.char_is(HASANTA), v.rmc_is(HASANTA)), "second hasanta"):
            return [("push", c12.ZWNJ)] + c12.REST
        if need(t_and(v.char_is(LENGTH_MARK), v.rmc_is(HASANTA)), "AU length mark after hasanta"):
            return [("pop",), ("push", c12.OU)] + c12.REST
        if need(t_and(v.char_is(HASANTA), lsk_rmc()), "a hasanta / fola value after a left-standing sign (it slips under the sign)"):
            single = need(v.T("value_count_eq", 1), "whether the value is a lone hasanta")
            if single:
                if v.T("popped_some") is False:
                    raise Infeasible()
                return [("pop",), ("pending", _switch_state(v, "popped_switch", "popped sign")), ("push", "<character>")]
            if v.T("popped_some") is False:
                raise Infeasible()
            return [("pop",), ("push_str", "<value>"), ("push", "<popped>")]
        if need(t_and(v.rmc_is(E_KAR), v.char_is(LENGTH_MARK)), "ে followed by the AU length mark"):
            return [("pop",), ("push", OU_KAR)]
    if need(v.T("pending_some"), "whether a sign is waiting (it is re-attached after the value)"):
        ends_h = None
        some = v.T("value_last_some")
        if some is False:
            ends_h = False
        for a, val in v.s.atoms:
            if a[0] == "value_last_switch":
                ends_h = (ord(HASANTA) in val) if val != "otherwise" else (False if ord(HASANTA) in a[1] else None)
        if need(ends_h, "whether the value ends in a hasanta (then the sign keeps waiting for the next consonant)"):
            return [("push_str", "<value>")]
        st = _pending_state(v, variants)
        return [("push_str", "<value>"), ("push", SIGN_OF[st]), ("pending", None)]
    return [("push_str", "<value>")]


def run(ctx):
    prog, chk = ctx.prog, ctx.check
    c12.set_required(prog)
    chk.explanation = (
        "The same symbolic path summaries as C12, restricted to feasible paths that take the old vowel-sign order option: provenance of every "
        "assignment to the pending sign, extraction of the capture and restore maps from the paths' (condition, effect) pairs, the fusion leaves, and "
        "a frame rule — outside the feature's documented situations the option-on effects must equal the option-off rule list.")
    chk.not_decided = ["equality of the final text with Unicode-order typing for every syllable shape (a for-all-words statement about the state machine's "
                       "composition over several keys)"]
    mods = ctx.memo("modsets", lambda: ModSets(prog))
    try:
        b, S, info = ctx.memo("kvp", lambda: kvp.summarise(prog))
    except PathLimit as e:
        chk.rule("C14.R1", "paths").undecidable("paths", str(e))
        return
    kv = info["kvp"]
    pend = info["pending"]
    pe = PredEval(prog)
    c12.MAP_EVAL["pe"] = pe
    cls = classes.class_fns(prog)
    c12.MAP_EVAL["cls"] = cls
    c12.mark_predicates(prog)
    feas = [s for s in S if kvp.feasible(s, pe, cls)]
    on = [s for s in feas if any(a == ("cfg", "get_fixed_old_kar_order") and v is True for a, v in s.atoms)]
    reph_fn = None
    for (bb, t) in b.calls():
        n = callee_name(t)
        if n in prog.fns and n != kv and (prog.fns[n].get("impl") or {}).get("self") == builders.fixed_ty(prog):
            reph_fn = n.split("::")[-1]

    # ---------------- R1
    r1 = chk.rule("C14.R1", "a pending sign is only ever set on a path that took the old vowel-sign order option",
                  "with the option off the feature is inert (plain typing is the reference of the stated equivalence)")
    n_set = 0
    for s in feas:
        sets = [e for e in s.effects if e[0] == "pending" and e[1] is not None]
        if not sets:
            continue
        n_set += 1
        if not any(a == ("cfg", "get_fixed_old_kar_order") and v is True for a, v in s.atoms):
            r1.violation("set:" + c12._signature(s)[:120], "pending sign set to %s on a path that never tested the option" % sets[0][1], site_of(b, s.path[-2][0]))
    if n_set >= 6 and not r1.instances:
        r1.ok("sets", "%d feasible paths set a pending sign, all under the option" % n_set)
    elif n_set < 6:
        r1.undecidable("sets", "only %d paths set a pending sign (expected ≥ 6: three signs × two capture sites)" % n_set)
    r1.floor(1, "sets")

    # ---------------- R2 maps
    r2 = chk.rule("C14.R2", "capture and restore maps between ি ে ৈ and the pending states are mutually consistent",
                  "the sign typed first is the sign that lands after the consonant")
    cap_key = {}
    cap_pop = {}
    restore = {}          # (variant index) -> set of pushed chars
    variants = None
    # the pending-sign enum: the payload type of the method struct's pending field (found by role, whatever it is called)
    _fx2 = builders.fixed_ty(prog)
    pend_ty = (builders.method_roles(prog)[_fx2]["fields"].get(pend) or "") if pend else ""
    pend_ty = pend_ty[len("std::option::Option<"):-1] if pend_ty.startswith("std::option::Option<") else pend_ty
    for a in prog.doc["adts"]:
        if a["path"] == pend_ty and a.get("kind") == "enum":
            variants = [v["name"] for v in a["variants"]]
    if not variants:
        r2.undecidable("enum", "pending-sign enum not found")
        return
    for s in on:
        v = c12.View(s)
        sets = [e for e in s.effects if e[0] == "pending" and e[1] is not None]
        for e in sets:
            cs = [(a, val) for a, val in s.atoms if a[0] == "char_switch"]
            ps = [(a, val) for a, val in s.atoms if a[0] == "popped_switch"]
            if ps and ps[-1][1] != "otherwise":
                for cp in ps[-1][1]:
                    cap_pop.setdefault(chr(cp), set()).add(e[1])
            elif cs and cs[-1][1] != "otherwise":
                for cp in cs[-1][1]:
                    cap_key.setdefault(chr(cp), set()).add(e[1])
        # `_ => None` arms: a pending:=None *as the result of a capture match* on a left-standing sign would lose it
        # the first push after each match on the pending state renders that state
        for i, ev in enumerate(s.events):
            if ev[0] == "atom" and ev[1][0] == "pending_variant" and ev[2] != "otherwise":
                idx = ev[2][0]
                for ev2 in s.events[i + 1:]:
                    if ev2[0] == "atom":
                        continue
                    e = ev2[1]
                    if e[0] == "push" and isinstance(e[1], str) and len(e[1]) == 1:
                        restore.setdefault(variants[idx] if idx < len(variants) else idx, set()).add(e[1])
                    break
    for nm, m in (("capture-from-key", cap_key), ("capture-from-popped", cap_pop)):
        want = {k: {v} for k, v in STATE_OF.items()}
        if m == want:
            r2.ok(nm, "ি→I ে→E ৈ→OI")
        else:
            r2.violation(nm, "the %s map is %s, expected ি→I, ে→E, ৈ→OI (a sign missing here is silently dropped)"
                         % (nm, {("U+%04X" % ord(k)): sorted(v) for k, v in m.items()}), common.fn_line(prog, kv))
    want_r = {"I": {I_KAR, chr(ord(I_KAR) - 0x38)}, "E": {E_KAR, chr(ord(E_KAR) - 0x38)}, "OI": {OI_KAR, chr(ord(OI_KAR) - 0x38)}}
    for st in ("I", "E", "OI"):
        got = restore.get(st, set())
        if got == want_r[st]:
            r2.ok("restore:%s" % st, "%s ⇒ sign U+%04X / vowel U+%04X" % (st, ord(sorted(want_r[st])[1]), ord(sorted(want_r[st])[0])))
        else:
            r2.violation("restore:%s" % st, "pending state %s is rendered as %s, expected its own sign (or, by automatic vowel forming, its independent vowel)"
                         % (st, sorted("U+%04X" % ord(c) for c in got)), common.fn_line(prog, kv))
    lsk = classes.class_sets(prog)[0].get("is_left_standing_kar")
    if lsk and lsk[1] == set(STATE_OF):
        r2.ok("left-standing", "is_left_standing = exactly ি ে ৈ")
    else:
        r2.violation("left-standing", "the left-standing class is %s, expected exactly ি ে ৈ" % (lsk and sorted(lsk[1] or [])), common.fn_line(prog, kv))
    r2.floor(6, "2 capture maps, 3 restores, class")

    # ---------------- R4 two-part fusion
    r4 = chk.rule("C14.R4", "two-part signs: ে + া → ো, ে + ৌ / ৗ → ৌ",
                  "ো / ৌ typed as ে before plus া / ৌ / ৗ after")
    fusion = {}
    for s in on:
        v = c12.View(s)
        if v.rmc_is(E_KAR) is True and s.val(("pending_some",)) is not True:
            for ch in (AA_KAR, OU_KAR, LENGTH_MARK):
                if v.char_is(ch) is True:
                    eff = [e for e in s.effects if e[0] in ("push", "pop", "push_str")]
                    fusion.setdefault(ch, set()).add(tuple(eff))
    want_f = {AA_KAR: (("pop",), ("push", O_KAR)), OU_KAR: (("pop",), ("push", OU_KAR)), LENGTH_MARK: (("pop",), ("push", OU_KAR))}
    for ch, w in want_f.items():
        got = fusion.get(ch, set())
        key = "fuse:U+%04X" % ord(ch)
        if got == {w}:
            r4.ok(key, "ে + U+%04X → U+%04X" % (ord(ch), ord(w[1][1])))
        else:
            r4.violation(key, "after ে the key U+%04X does %s, expected %s" % (ord(ch), [c12._fmt(list(g)) for g in got], c12._fmt(list(w))), common.fn_line(prog, kv))
    r4.floor(3, "three fusions")

    # ---------------- R5 frame: outside the feature's situations, option-on == option-off
    r5 = chk.rule("C14.R5", "outside the feature's own situations the option-on paths have exactly the option-off effects",
                  "everything that is not a left-standing sign in typewriter order is typed as with the option off")
    n_frame = 0
    seen = set()
    for s in on:
        if s.unknown:
            continue
        v = c12.View(s)
        if s.val(("pending_some",)) is True or any(a[0] in ("pending_variant",) for a, val in s.atoms):
            continue
        lsk_char = v.T("char_pred", "is_left_standing_kar")
        lsk_rmc = v.T("rmc_pred", "is_left_standing_kar")
        is_kar = v.T("char_pred", "is_kar")
        # (a) capture
        if is_kar is True and lsk_char is not False and v.rmc_is(HASANTA) is not True:
            continue
        # (b) fusion
        if v.rmc_is(E_KAR) is not False and (v.char_is(AA_KAR) is not False or v.char_is(OU_KAR) is not False or v.char_is(LENGTH_MARK) is not False):
            if v.rmc_is(E_KAR) is True:
                continue
        # (d) hasanta / fola after a left-standing sign
        if lsk_rmc is True:
            continue
        if any(e[0] in ("pending", "recurse") for e in s.effects):
            # something of the feature happened although none of its situations was recognised
            pass
        n_frame += 1
        effects = [("call", "<reph>") if (e[0] == "call" and e[1] == reph_fn) else e for e in s.effects]
        try:
            want = c12.expected_effects(v)
        except (c12.Undecided, c12.Mismatch) as e:
            want = None
            why = str(e)
        sig = c12._signature(s)
        if want is None:
            if sig not in seen:
                seen.add(sig)
                r5.violation("undecided:" + sig[:140], "an option-on path outside the feature's situations never tests %s" % why, site_of(b, s.path[-2][0]))
        elif not c12.same_effects(want, effects):
            if sig not in seen:
                seen.add(sig)
                r5.violation("frame:" + sig[:140], "with the option on (and no left-standing sign involved) the processor does %s; with it off the same key does %s"
                             % (c12._fmt(effects), c12._fmt(want)), site_of(b, c12._first_effect_bb(b, s) or s.path[-2][0]))
    r5.table("frame_paths", n_frame)
    if n_frame and not r5.instances:
        r5.ok("frame", "%d option-on paths outside the feature's situations equal the option-off rules" % n_frame)
    r5.floor(1, "frame")

    # ---------------- R6 re-dispatch terminates
    r6 = chk.rule("C14.R6", "the processor re-dispatches itself only after the pending sign has been cleared",
                  "typing never hangs: the re-dispatch cannot take the same branch again")
    n_rec = 0
    for s in feas:
        if not any(e[0] == "recurse" for e in s.effects):
            continue
        n_rec += 1
        idx = [i for i, e in enumerate(s.effects) if e[0] == "recurse"][0]
        before = s.effects[:idx]
        cleared = any(e == ("pending", None) for e in before) and not any(e[0] == "pending" and e[1] is not None for e in before[max(i for i, e in enumerate(before) if e == ("pending", None)):]) \
            if any(e == ("pending", None) for e in before) else False
        under_pending = s.val(("pending_some",)) is True
        sig = c12._signature(s)[:140]
        if not (cleared and under_pending):
            r6.violation("recurse:" + sig, "the processor calls itself with the pending sign %s — the callee takes the same branch again (unbounded recursion)"
                         % ("still set" if not cleared else "not known to be set"), site_of(b, s.path[-2][0]))
            break
    if n_rec and not r6.instances:
        r6.ok("recurse", "%d re-dispatching paths, each clears the pending sign first and is reached only with one present" % n_rec)
    elif n_rec == 0:
        r6.ok("recurse", "no re-dispatch")
    r6.floor(1, "recurse")

    # ---------------- R7 the whole old-order rule list, path by path
    r7 = chk.rule("C14.R7", "every path of the key-value processor that takes the old vowel-sign order option has exactly the effects of the old-order rule list",
                  "a left-standing sign typed before its consonant or conjunct lands after it; hasanta / fola values slip under a sign already placed; otherwise as plain typing")
    n7 = 0
    seen7 = set()
    for s in on:
        if s.unknown:
            d, vals, bb = s.unknown[0]
            key = "unknown-condition@bb%d" % bb
            if key not in seen7:
                seen7.add(key)
                r7.undecidable(key, "with the option on the processor branches on %r, which is not in the recognised predicate vocabulary" % (d,), site_of(b, bb))
            continue
        v = c12.View(s)
        effects = [("call", "<reph>") if (e[0] == "call" and e[1] == reph_fn) else e for e in s.effects]
        try:
            want = expected_on(v, variants)
            verdict = None if c12.same_effects(want, effects) else ("effects", want)
        except Infeasible:
            continue
        except c12.Undecided as e:
            verdict = ("undecided", str(e))
        except c12.Mismatch as e:
            verdict = ("table", str(e))
        n7 += 1
        if verdict is None:
            continue
        sig = c12._signature(s)
        key = "%s|%s" % (verdict[0], sig)
        if key in seen7:
            continue
        seen7.add(key)
        last_bb = [bb for (bb, vals) in s.path if b.blocks[bb]["term"]["k"] in ("call", "switch")][-1]
        if verdict[0] == "effects":
            r7.violation("path:" + sig[:160], "with the option on, under [%s] the processor does %s; the old-order rules prescribe %s" % (sig, c12._fmt(effects), c12._fmt(verdict[1])),
                         site_of(b, c12._first_effect_bb(b, s) or last_bb))
        elif verdict[0] == "table":
            r7.violation("table:" + sig[:160], verdict[1], site_of(b, last_bb))
        else:
            r7.violation("undecided:" + sig[:160], "an option-on path with effects %s never tests %s (conditions: %s)" % (c12._fmt(effects), verdict[1], sig), site_of(b, last_bb))
    r7.table("paths_checked", n7)
    if n7 and not r7.instances:
        r7.ok("all-paths", "%d option-on paths agree with the old-order rule list" % n7)
    r7.floor(1, "all-paths")

    # ---------------- R8 the option is the value the front end set
    r8 = chk.rule("C14.R8", "the old vowel-sign order option (and every option consulted with it on) is a plain stored value",
                  "with the old vowel-sign order option on … — 'the option' is the value the front end set, whatever the other options are")
    common.plain_options(r8, prog, sorted({a[1] for s in on for a, v in s.atoms if a[0] == "cfg"} | {"get_fixed_old_kar_order"}))
    r8.floor(1, "the option itself")

    # ---------------- R9 the session query and back-space reach the method object
    r9 = chk.rule("C14.R9", "the context's session query, key and back-space entry points delegate to the method object (C API included)",
                  "a sign waiting for its consonant counts as an ongoing session, and is discarded by one backspace — as observed through the context / C API")
    common.context_delegation(r9, prog, ["ongoing_input_session", "backspace_event", "get_suggestion"])
    r9.floor(3, "three entry points")
    common.value_reaches_processor(r9, prog)

    # ---------------- R3 not shown / session / one back-space
    r3 = chk.rule("C14.R3", "the pending sign is never rendered, counts as session, and is discarded by one back-space without a pop",
                  "a sign waiting for its consonant is not shown, counts as an ongoing session, and is discarded by one backspace")
    fx = builders.fixed_ty(prog)
    roles = builders.method_roles(prog)
    readers = set()
    for k, f in prog.fns.items():
        kb = prog.body(k)
        for (i, j, st) in kb.stmts():
            if st["k"] != "assign":
                continue
            for x in kb.expr_rvalue(st["rv"]).walk():
                sp_ = self_path(x)
                if sp_ and sp_[:1] == (pend,) and (f.get("impl") or {}).get("self") == fx:
                    readers.add(k)
        for (bb, t) in kb.calls():
            for a in kb.call_args(t):
                sp_ = self_path(a)
                if sp_ and sp_[:1] == (pend,) and (f.get("impl") or {}).get("self") == fx:
                    readers.add(k)
    allowed = {kv, prog.method_impl(fx, "ongoing_input_session"), prog.method_impl(fx, "backspace_event"),
               prog.method_impl(fx, "candidate_committed"), prog.method_impl(fx, "finish_input_session")}
    # private helpers reached only through the allowed functions are part of them (a split processor, a reset helper)
    rcg = {}
    for u, vs in prog.callgraph().items():
        for v_ in vs:
            rcg.setdefault(v_, set()).add(u)

    def only_via_allowed(k):
        seen, work = set(), [k]
        while work:
            u = work.pop()
            if u in seen or u in allowed:
                continue
            seen.add(u)
            callers = rcg.get(u, set()) - {u}
            if not callers or (prog.fns[u].get("impl") or {}).get("trait") or prog.fns[u].get("no_mangle"):
                return False
            work.extend(callers)
        return True
    extra = sorted(k for k in readers - allowed if not only_via_allowed(k))
    sites, names = builders.suggestion_ctor_sites(prog)
    ctor_fns = {fk for (fk, bb, t, kind) in sites}
    if extra:
        r3.violation("not-shown", "the pending sign is also read in %s" % extra, common.fn_line(prog, extra[0]))
    elif readers & ctor_fns - {prog.method_impl(fx, "backspace_event")}:
        r3.violation("not-shown", "a function that builds a Suggestion reads the pending sign", None)
    else:
        r3.ok("not-shown", "read only by the processor, the session flag, back-space and the resets (%d functions)" % len(readers))
    if pend in roles[fx]["session_fields"]:
        r3.ok("session", "the session flag tests the pending sign")
    else:
        r3.violation("session", "the session flag does not test the pending sign", common.fn_line(prog, prog.method_impl(fx, "ongoing_input_session")))
    bs = prog.method_impl(fx, "backspace_event")
    try:
        # (a back-space that asks the session flag first: the flag's false edge says every session field — the pending sign among them — is empty)
        bb_, paths = c06.analyse_paths(prog, bs, mods, sess=tuple(roles[fx]["session_fields"]), flag_fn=prog.method_impl(fx, "ongoing_input_session"))
        n = 0
        for p in paths:
            pol = None
            for c in [(x[0], x[1], x[2], x[3]) for x in __import__("engine.analyses", fromlist=["path_conditions"]).path_conditions(bb_, p["path"])]:
                et = c06._empty_test(c[0])
                from engine.analyses import bool_of
                bv = bool_of(c)
                if et and et[0] == pend and bv is not None:
                    pol = (bv != et[1])          # True when the field is non-empty
            if pol is not True:
                continue
            ctrl_clear = any(f == roles[fx]["buffer"] and op == "clear" for (f, op, _) in p["writes"])
            if ctrl_clear:
                continue
            n += 1
            cleared = any(f == pend and op in ("=None", "clear") for (f, op, _) in p["writes"])
            popped = any(f == roles[fx]["buffer"] and op == "shrink" for (f, op, _) in p["writes"])
            key = "backspace@%s" % "/".join(c06._cond_sig(bb_, p))
            if cleared and not popped:
                r3.ok(key, "pending sign discarded, composed text untouched")
            else:
                r3.violation(key, "back-space with a pending sign %s" % ("also pops the composed text" if popped else "does not discard it"), common.fn_line(prog, bs))
        # no pending sign survives any back-space
        for p in paths:
            st = p["state"].get(pend)
            key = "after-backspace@%s" % "/".join(c06._cond_sig(bb_, p))
            if st == "E":
                r3.ok(key, "pending sign is None at this exit")
            else:
                r3.violation(key, "this back-space exit can leave a pending sign behind (state %s) — it is not discarded by one back-space" % (st or "unknown"),
                             common.fn_line(prog, bs))
        if n == 0:
            r3.violation("backspace", "no back-space path handles a pending sign", common.fn_line(prog, bs))
    except PathLimit as e:
        r3.undecidable("backspace", str(e))
    # what is shown is rebuilt from the composed text after every key that changed it
    gs = roles[fx]["get_suggestion"]
    gb = prog.body(gs)
    kv_calls = [bb for (bb, t) in gb.calls() if callee_name(t) == kv]
    sug_calls = [bb for (bb, t) in gb.calls() if callee_name(t) in prog.fns and callee_name(t) != kv and prog.fns[callee_name(t)].get("output") == builders.SUGG
                 and "&mut" in (prog.fns[callee_name(t)].get("inputs") or [""])[0]]
    _, ctor_names_ = builders.suggestion_ctor_sites(prog)
    empty_ctors_ = {k for k, v in ctor_names_.items() if v == "empty"}
    buf_ = roles[fx]["buffer"]
    flag_ = prog.method_impl(fx, "ongoing_input_session") if buf_ in roles[fx].get("session_fields", ()) else None
    if kv_calls and all(common.passes_or_ends_empty(prog, gb, k, sug_calls, buf_, flag_, builders.SUGG, empty_ctors_)[0] for k in kv_calls):
        r3.ok("rebuilt", "the suggestion is rebuilt from the composed text after every processed key (or nothing is composed and the empty suggestion is returned)")
    else:
        r3.violation("rebuilt", "a processed key can return a suggestion that was not rebuilt from the new composed text (e.g. after a two-part sign fusion)",
                     common.fn_line(prog, gs))
    r3.floor(7, "not-shown, session, rebuilt, ≥2 back-space paths with a pending sign, exits")
