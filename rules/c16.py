"""C16 — ANSI mode yields pure Bijoy text and never offers what it cannot encode.

Decided statically: the English option is masked by ANSI (truth table), every emoji /
raw-typed-text candidate source is guarded, every Suggestion constructor gets the config's
ANSI flag, the read-out decision table converts on read-out only, and (table agreement with
the pinned encoder) the encoder's uncovered vowel signs are not emittable by riti's own data.
Not decided: that the third-party encoder's output is correct Bijoy for every word."""
import re
import os

from engine.mir import E, apath, strip_refs, is_const, const_val, callee_name, self_path
from engine.analyses import (truth_table, path_table, variant_of, bool_of, peel_conv, contains_call)
from engine.report import site_of
from engine import tables
from . import common, builders


def cfg_getter(prog, name):
    return prog.fn_named(name, self_ty="config::Config")


def _coded_mask_table(prog, b, atoms, coded):
    """Truth table of a bool getter over (plain bool field, enum-coded switch) read from its paths: every path's conditions are tests of the bool
    field or of the coded field's discriminant, every return is a constant or one more such test."""
    from engine.analyses import sym_paths
    import itertools
    F, kt = coded
    other = [a for a in atoms if a != F]
    if len(other) != 1:
        return None
    other = other[0]

    def atom_of(d, vals, allv):
        """(atom name, value it has on this edge) or None"""
        d = strip_refs(d)
        neg = False
        while d.k == "un" and d.a[0] == "Not":
            d = strip_refs(d.a[1])
            neg = not neg
        truth = None if vals is None else ((vals != (0,)) if vals != "otherwise" else (0 in allv))
        if self_path(d) == (other,) and d.k != "call":
            return other, (None if truth is None else (truth != neg)), neg
        if d.k == "discr" and self_path(d.a[0]) == (F,):
            if vals is None:
                return None
            ks = set(vals) if vals != "otherwise" else ({0, 1} - set(allv))
            if len(ks) != 1:
                return None
            return F, (next(iter(ks)) == kt), False
        if d.k == "bin" and d.a[0] in ("Eq", "Ne"):
            sides = [strip_refs(d.a[1]), strip_refs(d.a[2])]
            fl = [y for y in sides if y.k == "discr" and self_path(y.a[0]) == (F,)]
            ot = [y for y in sides if y not in fl]
            if len(fl) == 1 and len(ot) == 1:
                k = common._variant_index(prog, ot[0])
                if k is None:
                    return None
                is_kt = (k == kt)
                if truth is None:
                    return F, None, (neg != (d.a[0] == "Ne")) != (not is_kt)
                t2 = truth != neg
                if d.a[0] == "Ne":
                    t2 = not t2
                return F, (t2 if is_kt else (not t2)), False
        return None
    try:
        paths = sym_paths(b, 0, 256)
    except Exception:
        return None
    table = {}
    for assign in itertools.product([False, True], repeat=2):
        val = dict(zip(atoms, assign))
        res = None
        for path, env, conds in paths:
            feasible = True
            for (d, vals, allv, ty, sbb) in conds:
                a = atom_of(d, vals, allv)
                if a is None or a[1] is None:
                    return None
                if val[a[0]] != a[1]:
                    feasible = False
                    break
            if not feasible:
                continue
            ret = env.get(0)
            ret = strip_refs(ret) if ret is not None else None
            if ret is None:
                return None
            neg_r = False
            while ret.k == "un" and ret.a[0] == "Not":
                ret = strip_refs(ret.a[1])
                neg_r = not neg_r
            if is_const(ret, "bool"):
                r = bool(const_val(ret)) != neg_r
            else:
                a = atom_of(ret, None, None)
                if a is not None:
                    a = (a[0], a[1], a[2] != neg_r)
                if a is None:
                    return None
                r = val[a[0]] != a[2]
            if res is not None and res != r:
                return None
            res = r
        if res is None:
            return None
        table[assign] = res
    return table


def run(ctx):
    prog, chk = ctx.prog, ctx.check
    chk.explanation = (
        "Static decision of the structural clauses of C16 on MIR: truth table of the English-option getter over its two "
        "fields; dominance (with branch polarity) of every emoji / raw-text push by the ANSI / English guards, through "
        "closures; provenance of the ANSI argument of every Suggestion constructor; path-sensitive decision table of the "
        "pre-edit read-out; and table agreement between the pinned encoder's vowel-sign coverage and the characters riti's "
        "bundled layout and data can emit.")
    chk.not_decided = ["that poriborton's output is correct Bijoy-2000 and free of Bengali code points for every word (third-party, value-level)"]
    roles = builders.method_roles(prog)
    ctors = builders.rank_ctors(prog)

    # ---------------- R1
    r1 = chk.rule("C16.R1", "English option is masked by ANSI (truth table of the getter)",
                  "no raw-English candidate is offered with ANSI on, regardless of the English option")
    g = cfg_getter(prog, "get_suggestion_include_english")
    b = prog.body(g)

    def field_atom(name):
        def pred(x):
            r, f = apath(x)
            return x.k in ("field", "deref") and r.k == "arg" and r.a[0] == 1 and f == (name,)
        return pred
    cfg_fields = {f["name"]: f["ty"] for f in prog.struct_fields("config::Config")}
    bool_fields = [n for n, t in cfg_fields.items() if t == "bool"]
    # atoms = all bool fields read by the getter
    read = set()
    for (i, j, s) in b.stmts():
        if s["k"] == "assign":
            for x in b.expr_rvalue(s["rv"]).walk():
                r, f = apath(x)
                if x.k == "field" and r.k == "arg" and len(f) == 1 and f[0] in bool_fields:
                    read.add(f[0])
    ansi_getter = cfg_getter(prog, "get_ansi_encoding")
    ab = prog.body(ansi_getter)
    ansi_field = None
    r0 = ab.expr_local(0)
    rr, ff = apath(r0)
    if rr.k == "arg" and len(ff) == 1:
        ansi_field = ff[0]
    coded = None
    if ansi_field is None:
        try:
            coded = common.coded_bool_field(prog, ansi_getter)       # the switch kept as a private two-variant enum
        except Exception:
            coded = None
        if coded is not None:
            ansi_field = coded[0]
    if ansi_field is None:
        r1.undecidable("ansi-getter", "get_ansi_encoding does not return a plain field: %r" % (r0,), common.fn_line(prog, ansi_getter))
    elif coded is not None:
        r1.ok("ansi-getter", "get_ansi_encoding() = (self.%s is variant #%d), and the setter stores that variant exactly for `true` (getter ∘ setter = identity)" % coded)
    else:
        r1.ok("ansi-getter", "get_ansi_encoding() = self.%s" % ansi_field)
    rewrite = None
    coded_atom = None
    if coded is not None:
        F_, kt_ = coded

        def _cmp_k(x):
            x = strip_refs(x)
            if x.k == "bin" and x.a[0] == "Eq":
                sides = [strip_refs(x.a[1]), strip_refs(x.a[2])]
                fl = [y for y in sides if y.k == "discr" and self_path(y.a[0]) == (F_,)]
                ot = [y for y in sides if y not in fl]
                if len(fl) == 1 and len(ot) == 1:
                    return common._variant_index(prog, ot[0])
            return None

        def coded_atom(x):
            return _cmp_k(x) == kt_

        def rewrite(d):
            k_ = _cmp_k(d)
            if k_ is not None and k_ != kt_:
                from engine.mir import E as _E
                return _E("un", "Not", _E("bin", "Eq", _E("discr", _E("field", _E("arg", 1), F_)), _E("const", ("int", kt_))))
            return d
        for (i, j, s_) in b.stmts():
            if s_["k"] == "assign":
                for x in b.expr_rvalue(s_["rv"]).walk():
                    if x.k == "discr" and self_path(x.a[0]) == (F_,):
                        read.add(F_)
    atoms = sorted(read)
    tt = truth_table(b, [(n, (coded_atom if (coded is not None and n == coded[0]) else field_atom(n))) for n in atoms], rewrite=rewrite)
    if tt is None and coded is not None and len(atoms) == 2 and ansi_field in atoms:
        tt = _coded_mask_table(prog, b, atoms, coded)
    if tt is None or ansi_field not in atoms or len(atoms) != 2:
        r1.undecidable("mask", "cannot summarise the getter as a boolean function of two fields (reads %s)" % atoms, common.fn_line(prog, g))
    else:
        ai = atoms.index(ansi_field)
        oi = 1 - ai
        bad = [a for a, v in tt.items() if v != (a[oi] and not a[ai])]
        if bad:
            r1.violation("mask", "getter is not `%s ∧ ¬%s`: wrong for %s" % (atoms[oi], ansi_field, [dict(zip(atoms, a)) for a in bad]),
                         common.fn_line(prog, g), {"table": {str(k): v for k, v in tt.items()}})
        else:
            r1.ok("mask", "get_suggestion_include_english() = %s ∧ ¬%s (4 rows)" % (atoms[oi], ansi_field))
    r1.floor(2, "ansi getter + mask truth table")

    # ---------------- R2 guards on pushes
    r2 = chk.rule("C16.R2", "every emoji / emoticon / raw-typed-text push is guarded by the ANSI switch or the masked English getter",
                  "with ANSI on no emoji, emoticon-derived or raw-English candidate is ever offered")
    entry = [roles[t]["get_suggestion"] for t in roles] + [prog.method_impl(t, "backspace_event") for t in roles]
    reach = prog.reach(entry, foreign_trait_impls=False)
    ph, fx = builders.phonetic_ty(prog), builders.fixed_ty(prog)
    emoji_sources = ("get_emoji_by_emoticon", "get_emoji_by_name", "get_emoji_by_bengali", "emojicon::")
    n_emoji = n_typed = 0
    seen_sites = 0
    for fk in sorted(reach):
        f = prog.fns[fk]
        if f.get("kind") == "Closure":
            continue
        evs = builders.push_events(prog, fk, ctors)
        for p in evs:
            seen_sites += 1
            item = p.item
            cls = None
            desc = None
            if p.variant == "Emoji":
                cls = "emoji"
            if item is not None:
                if contains_call(item, lambda n: any(s in n for s in emoji_sources)):
                    cls = "emoji"
                # closure parameter fed by an emoji iterator
                if p.closure and cls is None:
                    cls = _closure_emoji(prog, p, emoji_sources)
                pe = peel_conv(item)
                if cls is None:
                    # raw typed text: phonetic term parameter / fixed raw-key field
                    if fk_is_phonetic_builder(prog, p.body.key) and pe.k == "arg" and _is_str_param(prog, p.body.key, pe.a[0]):
                        cls = "typed"
                    cv_ = builders.creator_value(prog, p)
                    if cls is None and cv_ is not None and cv_[0].k == "arg" and fk_is_phonetic_builder(prog, cv_[1].key) and _is_str_param(prog, cv_[1].key, cv_[0].a[0]):
                        cls = "typed"          # the same, built inside a closure from the captured parameter
                    sp = self_path(pe)
                    if sp and (prog.fns[p.body.key].get("impl") or {}).get("self") == fx and sp[0] in roles[fx]["raw"]:
                        cls = "typed"
            if cls is None:
                continue
            guards = builders.effective_guards(prog, p.outer_body, p.outer_bb, closure=getattr(p, 'closure', None))
            key = "%s:%s@%s#%d" % (cls, p.variant or "?", fk.split("::")[-1], sum(1 for q in evs[:evs.index(p)] if q.variant == p.variant))
            site = site_of(p.outer_body, p.outer_bb)
            not_ansi = builders.guarded(guards, "Config::get_ansi_encoding", False)
            eng = builders.guarded(guards, "Config::get_suggestion_include_english", True)
            if cls == "emoji":
                n_emoji += 1
                if not_ansi:
                    r2.ok(key, "emoji push under !get_ansi_encoding()")
                else:
                    r2.violation(key, "an emoji candidate is pushed without being dominated by the false edge of get_ansi_encoding()", site)
            else:
                n_typed += 1
                if not_ansi or eng:
                    r2.ok(key, "raw typed text pushed under %s" % ("!get_ansi_encoding()" if not_ansi else "get_suggestion_include_english()"))
                else:
                    r2.violation(key, "raw typed text is pushed as a candidate without the ANSI-masked English guard "
                                 "(must be dominated by get_suggestion_include_english() or !get_ansi_encoding())", site)
    r2.table("push_sites_examined", seen_sites)
    r2.floor(7, "4 emoji pushes (2 per method) + 3 raw-text pushes (emoticon literal, phonetic English, fixed English)")

    # ---------------- R3 ansi argument of constructors
    r3 = chk.rule("C16.R3", "every Suggestion constructor receives the event config's ANSI flag",
                  "pre-edit text is the Bijoy encoding iff ANSI is on — in both methods, list and single variants")
    sites, names = builders.suggestion_ctor_sites(prog)
    n = 0
    for (fk, bb, t, kind) in sites:
        if kind == "empty":
            continue
        if fk.startswith("ffi::"):
            continue
        b = prog.body(fk)
        args = b.call_args(t)
        a = strip_refs(args[-1])
        idx = sum(1 for (k2, bb2, t2, kind2) in sites if k2 == fk and kind2 != "empty" and bb2 < bb)
        key = "%s#%d" % (fk.split("::")[-1] if "<" not in fk else fk.split(">::")[-1] + "@" + fk.split(" as ")[0].split("::")[-1], idx)
        n += 1
        good = (a.k == "call" and a.a[0] == ansi_getter and strip_refs(a.a[1][0]).k == "arg"
                and "config::Config" in b.locals[strip_refs(a.a[1][0]).a[0]]["ty"])
        if good:
            r3.ok(key, "%s(…, config.get_ansi_encoding())" % kind)
        else:
            r3.violation(key, "ANSI argument of the %s constructor is %r, expected get_ansi_encoding() of the event's config" % (kind, a),
                         site_of(b, bb))
    r3.floor(6, "six Suggestion::new / new_lonely sites")

    # ---------------- R4 read-out table
    r4 = chk.rule("C16.R4", "read-out decision table: convert on read-out only, same element",
                  "ANSI on: pre-edit text = encoding of that candidate; ANSI off: pre-edit text = the candidate itself")
    ro = prog.fn_named("get_pre_edit_text", self_ty=builders.SUGG)
    b = prog.body(ro)
    adt = prog.adts[builders.SUGG]
    rows = {}
    try:
        pt = path_table(b)
    except Exception as e:
        pt = None
        r4.undecidable("table", "cannot enumerate the read-out's paths: %s" % e, common.fn_line(prog, ro))
    if pt is not None:
        for conds, ret, path in pt:
            variant = None
            ansi = None
            bad = None
            for c in conds:
                d = strip_refs(c[0])
                if d.k == "discr":
                    vs = variant_of(c, adt)
                    variant = vs[0] if len(vs) == 1 else None
                else:
                    r, f = apath(d)
                    if r.k == "arg" and r.a[0] == 1 and f and f[-1] == "ansi":
                        ansi = bool_of(c)
                        if variant and f[0] != "@" + variant:
                            bad = "tests the flag of another variant"
                    else:
                        bad = "branches on %r" % (d,)
            rows[(variant, ansi)] = (ret, bad, path)
        want_rows = [("Full", True), ("Full", False), ("Single", True), ("Single", False)]
        for (variant, ansi) in want_rows:
            key = "%s/%s" % (variant, "ansi" if ansi else "plain")
            if (variant, ansi) not in rows:
                r4.violation(key, "read-out has no path for variant %s with ansi=%s (paths: %s)" % (variant, ansi, sorted(map(str, rows))), common.fn_line(prog, ro))
                continue
            ret, bad, path = rows[(variant, ansi)]
            site = site_of(b, path[-2][0] if len(path) > 1 else path[-1][0])
            if bad:
                r4.violation(key, "path %s" % bad, site)
                continue
            e = strip_refs(ret)
            conv = False
            if e.k == "call" and e.a[0].endswith("unicode_to_bijoy"):
                conv = True
                e = e.a[1][0]
            e = peel_conv(e)
            if variant == "Full":
                okel = (e.k == "call" and "Index" in e.a[0] and self_path(e.a[1][0]) == ("@Full", "suggestions")
                        and strip_refs(e.a[1][1]).k == "arg" and strip_refs(e.a[1][1]).a[0] == 2)
            else:
                okel = self_path(e) == ("@Single", "suggestion")
            if conv != ansi:
                r4.violation(key, "%s the encoder on this path" % ("does not apply" if ansi else "applies"), site)
            elif not okel:
                r4.violation(key, "reads %r instead of the requested element of this suggestion" % (e,), site)
            else:
                r4.ok(key, "%s(%s)" % ("unicode_to_bijoy" if conv else "clone", "list[index]" if variant == "Full" else "single"))
    r4.floor(4, "2 variants × ansi on/off")

    # ---------------- R5 encoder domain (table agreement with the pinned dependency)
    r5 = chk.rule("C16.R5", "vowel signs the encoder has no replacement for are not emittable by riti's bundled layout/data",
                  "every candidate can be read as pre-edit text in ANSI mode (the encoder panics on an uncovered sign)")
    src, ver = tables.dep_src("poriborton")
    if not src:
        r5.undecidable("dep", "poriborton source pinned by Cargo.lock not found")
    else:
        chars = open(os.path.join(src, "src", "chars.rs"), encoding="utf-8").read()
        cmap = {m.group(1): int(m.group(2), 16) for m in re.finditer(r"const (\w+): char = '\\u\{([0-9A-Fa-f]+)\}'", chars)}
        util = open(os.path.join(src, "src", "utility.rs"), encoding="utf-8").read()
        m = re.search(r"fn is_kar\(c: char\) -> bool \{\s*matches!\(c, (\w+)\.\.=(\w+)\)", util)
        bj = open(os.path.join(src, "src", "bijoy2000.rs"), encoding="utf-8").read()
        m2 = re.search(r"fn replace_kar\(.*?\n\}\n", bj, flags=re.S)
        if not m or not m2 or m.group(1) not in cmap or m.group(2) not in cmap:
            r5.undecidable("dep-shape", "poriborton %s no longer has the is_kar range / replace_kar match this rule reads" % ver)
        else:
            lo, hi = cmap[m.group(1)], cmap[m.group(2)]
            handled = {ord(x) for x in re.findall(r"\('(.)', ", m2.group(0))}
            main = re.search(r"pub fn unicode_to_bijoy\(.*?\n\}\n", bj, flags=re.S).group(0)
            pre = {cmap[n] for n in re.findall(r"^\s+(B_\w+_KAR) =>", main, flags=re.M) if n in cmap}
            uncovered = sorted(c for c in range(lo, hi + 1) if c not in handled and c not in pre)
            r5.table("encoder_version", ver)
            r5.table("uncovered_signs", ["U+%04X" % c for c in uncovered])
            sources = {}
            lay = tables.load_json("Probhat.json")["layout"]
            for k, v in lay.items():
                for chx in v:
                    if ord(chx) in uncovered:
                        sources.setdefault(ord(chx), []).append("bundled layout %s" % k)
            for fname in ("dictionary.json", "suffix.json"):
                d = tables.load_json(fname)
                vals = (w for ws in d.values() for w in ws) if fname == "dictionary.json" else d.values()
                for w in vals:
                    for chx in w:
                        if ord(chx) in uncovered:
                            sources.setdefault(ord(chx), []).append("%s word %s" % (fname, w))
            ok_src, _ = tables.dep_src("okkhor")
            if ok_src:
                pat = open(os.path.join(ok_src, "src", "patterns.rs"), encoding="utf-8").read()
                for chx in set(pat):
                    if ord(chx) in uncovered:
                        sources.setdefault(ord(chx), []).append("okkhor phonetic pattern output")
            for c in uncovered:
                key = "U+%04X" % c
                if c in sources:
                    r5.violation(key, "the encoder panics on %s (no replacement), which riti can emit: %s" % (key, "; ".join(sources[c][:3])),
                                 {"file": "poriborton-%s/src/bijoy2000.rs" % ver, "line": None, "function": "replace_kar"})
                else:
                    r5.ok(key, "%s has no replacement in the encoder and is not emittable by bundled layout/data/patterns" % key)
            r5.floor(1, "at least the uncovered sign U+09C4")


def fk_is_phonetic_builder(prog, key):
    f = prog.fns[key]
    root = f.get("root") or key
    return "PhoneticSuggestion" in ((prog.fns[root].get("impl") or {}).get("self") or "")


def _is_str_param(prog, key, n):
    b = prog.body(key)
    return b.locals[n]["ty"] == "&str"


def _closure_emoji(prog, p, emoji_sources):
    """Is the closure's element parameter fed (through zip/map) by an emoji table iterator?"""
    from engine.analyses import closure_consumer
    cc = closure_consumer(prog, p.closure)
    if not cc:
        return None
    pb, bb, t, ai = cc
    recv = pb.expr_operand(t["args"][0])
    if contains_call(recv, lambda n: any(s in n for s in emoji_sources)):
        return "emoji"
    return None
