"""C01 — no in-contract sequence of API calls can crash the engine.

Decided statically: the key→character table is total on the key set published in riti.h (unknown keys
yield no character and every caller handles that); typed text is ASCII; every panic site reachable
from a context entry point (MIR Assert, call of a panicking std function, explicit panic, dependency
precondition, unknown dependency call) is an obligation that must be discharged by a named rule
re-verified on the current MIR; the only recursion is the guarded re-dispatch and every loop is driven
by an in-memory iterator.  Not decided: time blow-up inside regex / edit distance / dictionary scans;
panics inside dependencies on inputs that satisfy their contract."""
from engine.mir import E, apath, strip_refs, is_const, const_val, callee_name, self_path
from engine.analyses import (peel_conv, guards_of, contains_call, direct_writes, ModSets, closure_creation, closure_consumer)
from engine import report, tables
from engine.report import site_of
from . import common, builders, phonetic, c08, c13, c17

PANICKY_SUFFIX = ("Option::<T>::unwrap", "Option::<T>::expect", "Result::<T, E>::unwrap", "Result::<T, E>::expect", "Result::<T, E>::unwrap_err",
                  "Result::<T, E>::expect_err", "::unwrap_unchecked", "::index", "::index_mut", "::split_at", "::split_at_mut", "String::truncate",
                  "String::remove", "String::insert", "String::insert_str", "::drain", "::split_off", "::replace_range", "Vec::<T, A>::remove",
                  "Vec::<T, A>::insert", "::swap_remove", "]>::sort", "]>::sort_unstable", "::sort_by", "::sort_by_key", "::sort_unstable_by",
                  "::sort_unstable_by_key", "RefCell::<T>::borrow", "RefCell::<T>::borrow_mut", "RefCell::<T>::replace", "RefCell::<T>::swap",
                  "::step_by", "::chunks", "::windows", "::copy_from_slice", "::chunks_exact", "::swap", "::rotate_left", "::rotate_right",
                  "::select_nth_unstable", "char::from_digit", "::pow", "::abs", "::div_euclid", "::rem_euclid", "::next_power_of_two",
                  "process::abort", "process::exit", "::unreachable_unchecked", "Duration::from_secs_f64", "SystemTime::add", "SystemTime::sub",
                  "Instant::sub", "::duration_since_unchecked")
PANIC_FNS = ("core::panicking::", "std::rt::panic_fmt", "std::rt::begin_panic", "std::panicking::begin_panic", "core::option::expect_failed",
             "core::result::unwrap_failed", "core::slice::index::", "core::str::slice_error_fail")
# dependency contract table (DESIGN §8): crate function → 'total' | precondition key
DEPS = {
    "ahash::RandomState::new": "total", "edit_distance::edit_distance": "total",
    "emojicon::BengaliEmoji::get": "total", "emojicon::BengaliEmoji::new": "total", "emojicon::Emojicon::get_by_emoticon": "total",
    "emojicon::Emojicon::get_by_name": "total", "emojicon::Emojicon::new": "total",
    "okkhor::parser::Parser::convert": "ascii-input", "okkhor::parser::Parser::convert_into": "ascii-input",
    "okkhor::regex_patterns::<impl okkhor::parser::Parser>::convert_regex_into": "ascii-input",
    "okkhor::parser::Parser::new_phonetic": "total", "okkhor::regex_patterns::<impl okkhor::parser::Parser>::new_regex": "total",
    "regex::Regex::is_match": "total", "regex::Regex::new": "total (returns Err on a bad pattern)",
    "serde_json::from_slice": "total (returns Err)", "serde_json::from_str": "total (returns Err)", "serde_json::from_value": "total (returns Err)",
    "serde_json::to_string": "total (returns Err)",
    "serde_json::value::index::<impl std::ops::Index<I> for serde_json::Value>::index": "total (returns Null for a missing key)",
    "poriborton::bijoy2000::unicode_to_bijoy": "read-out only",
}


def subrun(ctx, modname):
    """Run another property's rules on the same program into a scratch Check; returns {rule id: [non-holding instances]}."""
    import importlib
    key = "sub:" + modname
    if key in ctx._cache:
        return ctx._cache[key]
    mod = importlib.import_module("rules." + modname)
    chk = report.Check(modname.upper() + "-sub", ctx.tier, 0)

    class Sub:
        pass
    sub = Sub()
    sub.prog, sub.check, sub.tier, sub.info, sub._cache = ctx.prog, chk, ctx.tier, ctx.info, ctx._cache
    sub.memo = ctx.memo
    try:
        mod.run(sub)
    except Exception as e:           # fail closed: a crashing sub-analysis discharges nothing
        ctx._cache[key] = {"*": [{"key": "crash", "status": "undecidable", "msg": repr(e)}]}
        return ctx._cache[key]
    out = {}
    for r in chk.rules:
        if r.floor_n is not None and r.count() < r.floor_n:
            out.setdefault(r.rid, []).append({"key": "floor", "status": "undecidable"})
        bad = [i for i in r.instances if i["status"] in ("violation", "undecidable")]
        out.setdefault(r.rid, []).extend(bad)
    ctx._cache[key] = out
    return out


def run(ctx):
    prog, chk = ctx.prog, ctx.check
    chk.explanation = (
        "Call-graph reachability from the seven context entry points (with dyn fan-out, closures and local impls of foreign traits), a census of "
        "every panic site in the reachable MIR, and a catalogue of discharge rules each re-verified on the current MIR (guards, affine slice "
        "bounds, loop counters, the suffix-bytes idiom, total pre-order for sorting, regex pattern shape, ASCII provenance for the parser, "
        "contract exemptions keyed by role). Anything not discharged is reported: undischarged means 'cannot show safe'.")
    chk.not_decided = ["unbounded blow-up in time inside regex compilation/matching, edit distance and dictionary scans (grow with runtime lengths)",
                       "panics inside dependencies on inputs that satisfy their contract (DESIGN §8)",
                       "stack/heap exhaustion"]
    mods = ctx.memo("modsets", lambda: ModSets(prog))
    defines, protos = common.header(ctx)
    roles = builders.method_roles(prog)
    ph, fx = builders.phonetic_ty(prog), builders.fixed_ty(prog)
    R = phonetic.roles(prog)

    # ---------------- R1 key table total on the published key set
    r1 = chk.rule("C01.R1", "every key code published in riti.h is handled: mapped to a character, or 'no character' that every caller tolerates",
                  "any key code published in riti.h returns normally in both methods")
    vc = common.vc_consts(prog)
    kfn, table, default = common.key_char_table(prog)
    hdr_keys = {n: v for n, v in defines.items() if n.startswith("VC_")}
    if set(hdr_keys) != set(vc) or any(hdr_keys[n] != vc[n] for n in hdr_keys):
        r1.violation("header", "VC_* constants of riti.h and of the crate differ", None)
    else:
        r1.ok("header", "%d VC_* codes, identical in riti.h and the crate" % len(vc))
    unmapped = sorted(n for n, v in vc.items() if v not in table)
    returns_option = prog.fns[kfn]["output"].startswith("std::option::Option<")
    if default[0] == "panic":
        for n in unmapped:
            r1.violation("unmapped:%s" % n, "published key %s has no arm and the default arm panics (%s)" % (n, default[1]), common.fn_line(prog, kfn))
    elif default[0] == "value" and returns_option and strip_refs(default[1]).k == "agg" and strip_refs(default[1]).a[0].endswith("Option::None"):
        r1.ok("default", "unlisted keys (%s and all codes outside riti.h) yield None" % ", ".join(unmapped))
        # callers must not unwrap
        for (caller, bb, t) in prog.call_sites.get(kfn, []):
            cb = prog.body(caller)
            dest = t["dest"]["l"]
            bad = None
            for (bb2, t2) in cb.calls():
                n = callee_name(t2)
                if any(n.endswith(s) for s in ("Option::<T>::unwrap", "Option::<T>::expect", "::unwrap_unchecked")):
                    if contains_call(cb.expr_operand(t2["args"][0]), lambda m: m == kfn) is not None:
                        bad = bb2
            key = "caller:%s" % (caller.split(" as ")[0].split("::")[-1] if "<" in caller else caller.split("::")[-1])
            if bad is not None:
                r1.violation(key, "the key table's 'no character' result is unwrapped", site_of(cb, bad))
            else:
                r1.ok(key, "None is matched, not unwrapped")
    else:
        r1.undecidable("default", "default arm of the key table is %r" % (default,), common.fn_line(prog, kfn))
    r1.floor(4, "header, default, two callers")

    # ---------------- R2 typed text is ASCII
    r2 = chk.rule("C01.R2", "the phonetic composition is ASCII: its only growing write is push(key character) and every table leaf is < U+0080",
                  "byte-index slicing of the typed text and the ASCII-only parser are safe")
    ascii_ok = True
    for v, leaf in table.items():
        l = strip_refs(leaf) if leaf is not None else None
        if l is not None and l.k == "agg" and l.a[1]:
            l = strip_refs(l.a[1][0])
        if l is None or not is_const(l, "char") or ord(const_val(l)) >= 0x80:
            ascii_ok = False
            r2.violation("leaf:%#x" % v, "key table leaf %r is not an ASCII character literal" % (leaf,), common.fn_line(prog, kfn))
    if ascii_ok:
        r2.ok("leaves", "%d leaves, all ASCII" % len(table))
    buf = roles[ph]["buffer"]
    grow = []
    for k, f in prog.fns.items():
        if (f.get("impl") or {}).get("self") != ph:
            continue
        kb = prog.body(k)
        for (fl, op, bb, w) in phonetic.field_writes(prog, k, mods):
            if fl[:1] == (buf,) and not any(op.endswith(s) for s in ("::pop", "::clear", "::truncate", "::with_capacity")):
                if op == "assign" and (f.get("output") in ("Self", ph)):
                    continue
                grow.append((k, bb, op, w))
    buf_ascii = ascii_ok
    for (k, bb, op, w) in grow:
        kb = prog.body(k)
        if op.endswith("String::push"):
            v = kb.expr_operand(w["term"]["args"][1])
            if contains_call(v, lambda m: m == kfn) is not None:
                r2.ok("writer:%s" % k.split("::")[-1], "push(payload of the key table)")
                continue
        buf_ascii = False
        r2.violation("writer:%s" % k.split("::")[-1], "the composition buffer is also grown by %s with a value that is not a key-table character" % op, site_of(kb, bb))
    if not grow:
        buf_ascii = False
        r2.undecidable("writer", "no growing write to the composition buffer found")
    r2.floor(2, "leaves + writer")

    # ---------------- R3 panic-site obligations
    r3 = chk.rule("C01.R3", "every panic site reachable from a context entry point is discharged by a rule re-verified on the current MIR",
                  "every sequence of in-contract context calls returns normally (no panic, no abort)")
    entries = prog.context_entry_points()
    reach = prog.reach(entries)
    reach = {k for k in reach if not k.startswith("ffi::")}
    chk.analysed["reachable_functions"] = len(reach)
    sub13 = subrun(ctx, "c13")
    sub15 = subrun(ctx, "c15")
    sub07 = subrun(ctx, "c07")
    sub10 = subrun(ctx, "c10")
    reph_fns = set()
    kvp_fn = c13.key_value_processor(prog)
    if kvp_fn:
        for (bb, t) in prog.body(kvp_fn).calls():
            n = callee_name(t)
            if n in prog.fns and n != kvp_fn and (prog.fns[n].get("impl") or {}).get("self") == fx:
                reph_fns |= {x for x in prog.reach([n], foreign_trait_impls=False)}
    acc = c17.accessors(prog)
    counts = {}
    n_total = 0

    def ob_key(fk, kind):
        short = fk.replace("phonetic::suggestion::", "").replace("phonetic::method::", "").replace("fixed::method::", "").replace("fixed::", "")
        i = counts.get((fk, kind), 0)
        counts[(fk, kind)] = i + 1
        return "%s@%s#%d" % (kind, short, i)

    def word_param_pred(fk, b):
        def is_word(e):
            e = peel_conv(e)
            if e.k == "arg" and b.locals[e.a[0]]["ty"] == "&str":
                return True
            if e.k == "call" and acc.get(e.a[0]) == "word" and strip_refs(e.a[1][0]).k == "arg":
                return True
            return False
        return is_word

    def loop_bounds_ok(b, fk):
        """The function's single split loop runs i over [1, len)."""
        is_word = word_param_pred(fk, b)
        for (ra, bb_) in c08.driven_ranges(b):
            lo, hi = c08.affine(ra.a[1][0], is_word), c08.affine(ra.a[1][1], is_word)
            return c08.norm(lo) == {1: 1} and c08.norm(hi) == {"LEN": 1}
        return False

    def nonneg(form):
        """form ≥ 0 for all 1 ≤ I ≤ LEN−1 (substitute u = I−1, v = LEN−I−1)."""
        if form is None:
            return False
        a, bq, c = form.get("LEN", 0), form.get("I", 0), form.get(1, 0)
        if set(form) - {"LEN", "I", 1}:
            return False
        return (a + bq) >= 0 and a >= 0 and (2 * a + bq + c) >= 0

    def sub_forms(x, y):
        out = dict(x or {})
        for k_, v_ in (y or {}).items():
            out[k_] = out.get(k_, 0) - v_
        return out

    def word_is_ascii(fk, b):
        """All &str word parameters of fk are (slices of) word() of a split of the phonetic buffer."""
        from . import c05
        ins = prog.fns[fk].get("inputs") or []
        ok = True
        seen = False
        for i, ty in enumerate(ins, start=1):
            if ty == "&str":
                seen = True
                ok = ok and c05._param_is_word_slice(prog, fk, i, acc)
            if ty.startswith("&utility::SplittedString"):
                seen = True
        # the split value comes from `suggest`, whose text parameter is the buffer at every call site
        return ok and seen and buf_ascii and _builder_text_is_buffer(prog, R, roles, ph)

    from engine.inline import inlined_body
    _pbodies = {}

    def closure_in_parent(ck):
        """A closure handed to an Option / Result combinator is analysed where it runs: in its creator's body with the closure spliced in
        (its captures are then ordinary values of the creator).  Returns (creator key, body, blocks of the closure) or None."""
        cc_ = closure_creation(prog, ck)
        if not cc_:
            return None
        pk_ = cc_[0].key
        for _ in range(4):
            # a closure created inside another closure runs where the outermost creator's combinators run
            if prog.fns.get(pk_, {}).get("kind") != "Closure":
                break
            up_ = closure_creation(prog, pk_)
            if not up_:
                return None
            pk_ = up_[0].key
        if prog.fns.get(pk_, {}).get("kind") == "Closure":
            return None
        if pk_ not in _pbodies:
            _pbodies[pk_] = inlined_body(prog, pk_, stop=lambda g: True)
        pb_ = _pbodies[pk_]
        blks = [i_ for i_ in pb_.rblocks if pb_.blocks[i_].get("inl") == ck]
        return (pk_, pb_, blks) if blks else None

    _hic = {}

    def helper_in_caller(hk):
        """A private helper with a single call site is judged where it runs: in its caller's body with the helper spliced in (its parameters are
        then the caller's own values — the loop variable, the word).  Returns (caller key, body, offset of the helper's blocks) or None."""
        if hk in _hic:
            return _hic[hk]
        res = None
        hf = prog.fns[hk]
        sites_ = prog.call_sites.get(hk, [])
        if hf.get("kind") != "Closure" and not (hf.get("impl") or {}).get("trait") and len(sites_) == 1:
            ck_ = sites_[0][0]
            if prog.fns.get(ck_, {}).get("kind") != "Closure" and ck_ != hk:
                try:
                    pb_ = inlined_body(prog, ck_, stop=lambda g, hk=hk: g != hk)
                    blks_ = [i_ for i_ in range(len(pb_.blocks)) if pb_.blocks[i_].get("inl") == hk]
                    if blks_:
                        res = (ck_, pb_, min(blks_))
                except Exception:
                    res = None
        _hic[hk] = res
        return res

    def retry_in_caller(fk0_, i_, fn_):
        """Second opinion for a site of a single-call-site helper that could not be discharged on the helper alone."""
        hic = helper_in_caller(fk0_)
        if not hic or i_ >= len(prog.fns[fk0_]["mir"]["blocks"]):
            return None
        ck_, pb_, off_ = hic
        i2_ = off_ + i_
        if i2_ >= len(pb_.blocks) or pb_.blocks[i2_]["term"]["k"] != prog.fns[fk0_]["mir"]["blocks"][i_]["term"]["k"]:
            return None
        try:
            ok_, why_ = fn_(ck_, pb_, i2_, pb_.blocks[i2_]["term"])
        except Exception:
            return None
        return (ok_, why_ + " (judged in its only caller %s)" % ck_.split("::")[-1]) if ok_ else None

    for fk0 in sorted(reach):
        fk = fk0
        b = prog.raw_body(fk)
        f = prog.fns[fk]
        block_ids = list(b.rblocks)        # the sites of the function itself (spliced-in blocks are numbered after them)
        if f.get("kind") != "Closure":
            # sites are those of the function itself; values are resolved with its private helpers spliced in (same block numbering)
            try:
                from . import roles as _roles
                b = _roles.ib(prog, fk)
            except Exception:
                b = prog.raw_body(fk)
        if f.get("kind") == "Closure":
            cip = closure_in_parent(fk0)
            if cip:
                fk, b, block_ids = cip
                f = prog.fns[fk]
        for i in block_ids:
            t = b.blocks[i]["term"]
            if t["k"] == "assert":
                kind = t["kind"]
                if kind in ("MisalignedPointerDereference", "NullPointerDereference"):
                    continue
                n_total += 1
                key = ob_key(fk0, kind)
                ok, why = discharge_assert(prog, ctx, fk, b, i, kind, reph_fns, sub13, loop_bounds_ok, nonneg, sub_forms, word_param_pred, word_is_ascii)
                if not ok and fk == fk0 and f.get("kind") != "Closure":
                    alt = retry_in_caller(fk0, i, lambda ck_, pb_, i2_, t2_, kind=kind: discharge_assert(prog, ctx, ck_, pb_, i2_, kind, reph_fns, sub13, loop_bounds_ok, nonneg,
                                                                                                sub_forms, word_param_pred, word_is_ascii))
                    if alt:
                        ok, why = alt
                if ok:
                    r3.ok(key, why)
                else:
                    r3.violation(key, "undischarged %s: %s" % (kind, why), site_of(b, i))
            elif t["k"] == "call":
                n = callee_name(t)
                c = t.get("callee") or {}
                is_panic_fn = any(n.startswith(p) for p in PANIC_FNS)
                is_panicky = any(n.endswith(s) for s in PANICKY_SUFFIX) and n not in DEPS
                if is_panic_fn or is_panicky:
                    n_total += 1
                    kind = "panic" if is_panic_fn else n.split("::")[-1]
                    key = ob_key(fk0, kind)
                    ok, why = discharge_call(prog, ctx, fk, b, i, t, n, R, roles, reph_fns, sub13, sub15, sub07, sub10, loop_bounds_ok, nonneg, sub_forms,
                                             word_param_pred, word_is_ascii, chk, r3)
                    if not ok and fk == fk0 and f.get("kind") != "Closure":
                        alt = retry_in_caller(fk0, i, lambda ck_, pb_, i2_, t2_, n=n: discharge_call(prog, ctx, ck_, pb_, i2_, t2_, n, R, roles, reph_fns, sub13, sub15, sub07, sub10,
                                                                                                 loop_bounds_ok, nonneg, sub_forms, word_param_pred, word_is_ascii, chk, r3))
                        if alt:
                            ok, why = alt
                    if ok:
                        r3.ok(key, why)
                    else:
                        r3.violation(key, "undischarged %s: %s" % (n.split("::")[-1] if not is_panic_fn else "explicit panic", why), site_of(b, i))
                elif not c.get("local") and not (n.startswith("std::") or n.startswith("core::") or n.startswith("alloc::") or n.startswith("<")) \
                        and c.get("rkind") != "virtual" and n not in prog.fns:
                    n_total += 1
                    key = ob_key(fk0, "dep:" + n.split("::")[-1])
                    contract = DEPS.get(n)
                    if contract is None:
                        r3.violation(key, "call of %s, which is not in the dependency contract table (cannot show that it does not panic)" % n, site_of(b, i))
                    elif contract == "ascii-input":
                        ok, why = ascii_input(prog, ctx, fk, b, t, R, roles, ph, buf_ascii, acc)
                        if ok:
                            r3.ok(key, "okkhor needs ASCII input: " + why)
                        else:
                            r3.violation(key, "okkhor's parser slices its input by byte and panics on non-ASCII text; the argument %s" % why, site_of(b, i))
                    elif contract == "read-out only":
                        r3.violation(key, "%s is reachable from an event (it is partial: see C16.R5)" % n, site_of(b, i))
                    else:
                        r3.ok(key, "dependency contract: %s" % contract)
            # RangeFrom<u8> zipped as ranks
        for (i2, j2, s2) in (b.stmts() if fk == fk0 else []):
            if s2["k"] == "assign" and s2["rv"]["k"] == "aggregate" and s2["rv"].get("adt", "").endswith("ops::RangeFrom") and s2["place"]["ty"].endswith("RangeFrom<u8>"):
                n_total += 1
                key = ob_key(fk, "RangeFrom<u8>")
                emo = tables.emojicon_tables()
                longest = max(max(len(v) for v in emo["names"].values()), max(len(v) for v in emo["bengali"].values())) if emo else None
                if longest is not None and longest < 250:
                    r3.ok(key, "u8 rank counter zipped with an emoji list: longest list %d < 255 (emojicon %s)" % (longest, emo["version"]))
                else:
                    r3.violation(key, "u8 counter may overflow", site_of(b, i2))
    r3.table("obligations", n_total)
    r3.floor(55, "55 panic-site obligations counted on the pinned tree after the fixes")

    # ---------------- R4 bounded control flow
    r4 = chk.rule("C01.R4", "no unbounded control flow of riti's own making: only the guarded re-dispatch recurses; loops are driven by in-memory iterators",
                  "no unbounded blow-up in time (of riti's own making)")
    cg = prog.callgraph()
    # cycles in the local call graph restricted to reach
    cyc = []
    for k in reach:
        if k in cg[k]:
            cyc.append((k,))
    # longer cycles: DFS
    color = {}
    stack = []

    def dfs(u):
        color[u] = 1
        stack.append(u)
        for v in cg[u]:
            if v not in reach or v == u:
                continue
            if color.get(v) == 1:
                cyc.append(tuple(stack[stack.index(v):]))
            elif v not in color:
                dfs(v)
        stack.pop()
        color[u] = 2
    import sys
    sys.setrecursionlimit(10000)
    for k in sorted(reach):
        if k not in color:
            dfs(k)
    sub14 = subrun(ctx, "c14")
    for c_ in cyc:
        key = "cycle:%s" % "→".join(x.split("::")[-1] for x in c_)
        kvp_helpers = set()
        try:
            from . import roles as _roles
            kvp_helpers = set(_roles.ib_paths(prog, kvp_fn, transitive=True).fn.get("inlined") or [])     # the same view the C12/C14 path summaries use
        except Exception:
            pass
        if kvp_fn in c_ and all(x == kvp_fn or x in kvp_helpers for x in c_) and not sub14.get("C14.R6") and not sub14.get("*"):
            r4.ok(key, "the key-value processor's self re-dispatch clears the pending sign first (C14.R6)")
        else:
            r4.violation(key, "recursion %s without a termination witness" % " → ".join(c_), common.fn_line(prog, c_[0]))
    if not cyc:
        r4.ok("cycles", "no recursion")
    n_loops = 0
    for fk in sorted(reach):
        b = prog.body(fk)
        for h, tails in b.loops().items():
            n_loops += 1
            t = b.blocks[h]["term"]

            def finite_next(tt):
                if tt["k"] != "call" or not (callee_name(tt).endswith("::next") or callee_name(tt).endswith("::next_back")) or not tt["args"] or tt["args"][0]["k"] == "const":
                    return False
                return iter_finite(tt["args"][0]["place"]["ty"])
            driven = finite_next(t)
            if not driven:
                # the iterator call may sit in the first block of the body
                body = b.loop_body(h, tails)
                driven = any(finite_next(b.blocks[x]["term"]) and all(b.dominates(x, tl) for tl in tails) for x in body)
            if not driven:
                r4.violation("loop@%s#bb%d" % (fk.split("::")[-1], h), "a loop in %s is not driven by an in-memory iterator's next() (while/loop on a mutable condition)" % fk, site_of(b, h))
    r4.ok("loops", "%d loops in the reachable code, all driven by Iterator::next of in-memory iterators" % n_loops)
    r4.floor(2, "cycle witness + loops")


UNBOUNDED_ITERS = ("Cycle", "Repeat", "RepeatWith", "RangeFrom", "Successors", "FromFn", "Lines", "Bytes", "Incoming", "Iter@mpsc", "TryIter", "Split@io")
ADAPTORS_1 = ("Map", "Filter", "FilterMap", "Rev", "Skip", "SkipWhile", "TakeWhile", "Enumerate", "Peekable", "Cloned", "Copied", "Inspect", "StepBy",
              "Fuse", "MapWhile", "Scan", "Flatten")


def _split_generics(ty):
    """('std::iter::Zip', [arg, arg]) for 'std::iter::Zip<A, B>' (nesting-aware)."""
    i = ty.find("<")
    if i < 0 or not ty.endswith(">") or ty.startswith("{") or ty.startswith("<"):
        return ty, []
    head, inner = ty[:i], ty[i + 1:-1]
    args, depth, cur = [], 0, ""
    for j, ch in enumerate(inner):
        if ch in "<({[":
            depth += 1
        elif ch in ")}]":
            depth -= 1
        elif ch == ">" and not (j > 0 and inner[j - 1] == "-"):
            depth -= 1
        if ch == "," and depth == 0:
            args.append(cur.strip())
            cur = ""
        else:
            cur += ch
    if cur.strip():
        args.append(cur.strip())
    return head, args


def iter_finite(ty):
    """Structural finiteness of a std iterator type: in-memory sources are finite, Zip is finite when either side is,
    Chain / FlatMap when both are, Take always; unbounded generators, I/O and channel iterators and unknown (non-std, dyn) types are not."""
    while ty.startswith("&mut ") or ty.startswith("&"):
        ty = ty[5:] if ty.startswith("&mut ") else ty[1:]
    head, args = _split_generics(ty)
    if not (head.startswith("std::") or head.startswith("core::") or head.startswith("alloc::")):
        return False
    name = head.split("::")[-1]
    if name in ("Lines", "Bytes", "Split") and "::io::" in head:
        return False
    if name in ("Iter", "IntoIter", "TryIter", "Incoming") and ("mpsc" in head or "::net::" in head):
        return False
    if name in ("Cycle", "Repeat", "RepeatWith", "RangeFrom", "Successors", "FromFn", "Incoming", "TryIter", "ReadDir"):
        return False
    if name == "Zip" and len(args) == 2:
        return iter_finite(args[0]) or iter_finite(args[1])
    if name == "Take":
        return True
    if name == "Chain" and len(args) == 2:
        return iter_finite(args[0]) and iter_finite(args[1])
    if name == "FlatMap" and len(args) >= 2:
        return iter_finite(args[0]) and iter_finite(args[1])
    if name in ADAPTORS_1 and args:
        return iter_finite(args[0])
    if name == "Box" or "dyn " in ty:
        return False
    return True


def _builder_text_is_buffer(prog, R, roles, ph):
    buf = roles[ph]["buffer"]
    sp = c17.split_fn(prog)
    ok = True
    n = 0
    for k, f in prog.fns.items():
        if (f.get("impl") or {}).get("self") != R["sug_ty"] or f.get("kind") == "Closure":
            continue
        b = prog.body(k)
        if not any(callee_name(t) == sp for (bb, t) in b.calls()):
            continue
        # k splits a &str parameter: every call site must pass the buffer
        for (bb, t) in b.calls():
            if callee_name(t) == sp:
                a = peel_conv(b.expr_operand(t["args"][0]))
                if a.k != "arg":
                    ok = False
                    continue
                for (caller, cbb, ct) in prog.call_sites.get(k, []):
                    n += 1
                    cb = prog.body(caller)
                    v = peel_conv(cb.expr_operand(ct["args"][a.a[0] - 1]))
                    if self_path(v) != (buf,):
                        ok = False
    return ok and n >= 2


def ascii_input(prog, ctx, fk, b, t, R, roles, ph, buf_ascii, acc):
    """okkhor input is a part of the split of the (ASCII) typed text, or an auto-correct value shown ASCII."""
    a = peel_conv(b.expr_operand(t["args"][1]))
    # closure parameter of the conversion closure handed to SplittedString::map: parts of the split
    f = prog.fns[fk]
    if f.get("kind") == "Closure" and a.k == "arg":
        cons = closure_consumer(prog, fk)
        if cons and callee_name(cons[2]).startswith("utility::SplittedString") and callee_name(cons[2]).endswith("::map"):
            mp = prog.body(callee_name(cons[2]))
            # map applies the function to its own preceding / trailing
            return (buf_ascii and _builder_text_is_buffer(prog, R, roles, ph)), "preceding/trailing parts of the split typed text (ASCII by C01.R2)"
    if a.k == "call" and a.a[0] in acc:
        return (buf_ascii and _builder_text_is_buffer(prog, R, roles, ph)), "%s() of the split typed text (ASCII by C01.R2)" % acc[a.a[0]]
    if a.k == "arg" and b.locals[a.a[0]]["ty"] == "&str":
        from . import c05
        if c05._param_is_word_slice(prog, fk, a.a[0], acc):
            return (buf_ascii and _builder_text_is_buffer(prog, R, roles, ph)), "the word parameter (ASCII by C01.R2)"
    from . import phonetic as _ph
    sc = True if _ph.is_autocorrect_value(prog, a) else None
    if sc is not None:
        # user branch filtered by is_ascii (C10.R2), bundled branch: table check
        from . import c01 as _self
        sub10 = subrun(ctx, "c10")
        user_ok = not any(i["key"] == "ascii-filter" for i in sub10.get("C10.R2", [])) and not sub10.get("*")
        ac = tables.load_json("autocorrect.json")
        # only entries whose key can be typed (ASCII, C01.R2) are ever looked up
        bundled_ok = all(all(ord(ch) < 0x80 for ch in v) for k_, v in ac.items() if all(ord(ch) < 0x80 for ch in k_))
        if user_ok and bundled_ok:
            return True, "auto-correct value: user entries pass .filter(is_ascii), all bundled values with a typeable (ASCII) key are ASCII (%d entries)" % len(ac)
        return False, "is an auto-correct value that is not shown ASCII (user filter %s, bundled table %s)" % (user_ok, bundled_ok)
    return False, "is %r, which is not shown to be ASCII" % (a,)


def discharge_assert(prog, ctx, fk, b, i, kind, reph_fns, sub13, loop_bounds_ok, nonneg, sub_forms, word_param_pred, word_is_ascii):
    st = None
    for s in b.blocks[i]["stmts"]:
        if s["k"] == "assign" and s["rv"]["k"] == "binop" and s["rv"]["op"].endswith("WithOverflow"):
            st = s
    kfn, _tbl, kdefault = common.key_char_table(prog)
    if (fk == kfn or _only_called_from(prog, fk, kfn)) and kdefault[0] == "value":
        return True, ("D-finite-domain: the key table function was evaluated on its complete domain (all 65 536 key codes) and no input "
                      "reaches a failing edge; this site is only reachable through it")
    if fk in reph_fns:
        bad = [x for x in sub13.get("C13.R1", [])] + [x for x in sub13.get("*", [])]
        if not bad:
            return True, "reph functions: loop-counter / counted-sub / suffix-bytes rules (C13.R1)"
        return False, "C13.R1 does not hold (%s)" % bad[0]["key"]
    if kind.startswith("Overflow") and st is not None:
        l, r = strip_refs(b.expr_operand(st["rv"]["l"])), strip_refs(b.expr_operand(st["rv"]["r"]))
        if is_const(l, "int") and is_const(r, "int"):
            lv, rv = const_val(l), const_val(r)
            res = {"Add": lv + rv, "Sub": lv - rv, "Mul": lv * rv}.get(st["rv"]["op"].replace("WithOverflow", ""))
            if res is not None and 0 <= res < 2 ** 32:
                return True, "D-const: %d %s %d" % (lv, st["rv"]["op"][:3], rv)
        op = st["rv"]["op"].replace("WithOverflow", "")
        if op == "Add":
            def _len_leaves(e, depth=0):
                e = strip_refs(e)
                if e.k == "call" and any(e.a[0].endswith(s_) for s_ in ("::len", "::capacity", "::count")):
                    return 1
                if e.k == "field" and str(e.a[1]) == "0":
                    e = strip_refs(e.a[0])
                if e.k == "bin" and e.a[0] in ("Add", "AddWithOverflow") and depth < 4:
                    a_, b_ = _len_leaves(e.a[1], depth + 1), _len_leaves(e.a[2], depth + 1)
                    return None if a_ is None or b_ is None else a_ + b_
                if e.k == "bin" and e.a[0] in ("Mul", "MulWithOverflow") and depth < 4:
                    x_, y_ = strip_refs(e.a[1]), strip_refs(e.a[2])
                    for u_, c_ in ((x_, y_), (y_, x_)):
                        if is_const(c_, "int") and 1 <= const_val(c_) <= 4:
                            w_ = _len_leaves(u_, depth + 1)
                            return None if w_ is None else w_ * const_val(c_)
                    return None
                if is_const(e, "int") and 0 <= const_val(e) <= 16:
                    return 0
                return None
            nl_, nr_ = _len_leaves(l), _len_leaves(r)
            if nl_ is not None and nr_ is not None and 2 <= nl_ + nr_ <= 8:
                return True, "A-mem: a sum of %d lengths of in-memory objects cannot overflow (each < 2^60)" % (nl_ + nr_)
        if op in ("Add", "Mul"):
            small = [x for x in (l, r) if is_const(x, "int") and 0 <= const_val(x) <= 16]
            other = [x for x in (l, r) if not is_const(x, "int")]
            if len(small) == 1 and len(other) == 1:
                o = other[0]
                if o.k == "call" and any(o.a[0].endswith(s) for s in ("::len", "::capacity", "::count", "edit_distance", "Metadata::len")):
                    return True, "A-mem: %s(in-memory object) %s %d cannot overflow (no string/list/file longer than 2^60)" % (o.a[0].split("::")[-1], op, const_val(small[0]))
                if o.k == "arg" and prog.fns[fk].get("kind") != "Closure":
                    # a length handed in as a parameter of a private helper: every call site passes a length of an in-memory object
                    prog.callgraph()
                    cs_ = prog.call_sites.get(fk, [])
                    acts = [strip_refs(peel_conv(prog.body(c_).expr_operand(ct_["args"][o.a[0] - 1]))) for (c_, cbb_, ct_) in cs_ if len(ct_["args"]) >= o.a[0]]
                    if cs_ and len(acts) == len(cs_) and all(a_.k == "call" and any(a_.a[0].endswith(s_) for s_ in ("::len", "::capacity", "::count")) for a_ in acts):
                        return True, "A-mem: parameter %d is a length of an in-memory object at every call site; × / + %d cannot overflow" % (o.a[0], const_val(small[0]))
                if o.k == "arg" and prog.fns[fk].get("kind") == "Closure":
                    cons = closure_consumer(prog, fk)
                    if cons and callee_name(cons[2]).endswith("::map") and contains_call(cons[0].expr_operand(cons[2]["args"][0]), lambda n: n.endswith("metadata")) is not None:
                        return True, "A-mem: file length + %d" % const_val(small[0])
        if op == "Sub":
            is_word = word_param_pred(fk, b)
            fl, fr = c08.affine(st["rv"]["l"] and b.expr_operand(st["rv"]["l"]), is_word), c08.affine(b.expr_operand(st["rv"]["r"]), is_word)
            if fl is not None and fr is not None and loop_bounds_ok(b, fk):
                if nonneg(sub_forms(fl, fr)):
                    return True, "affine: (%s) − (%s) ≥ 0 for every i ∈ [1, len−1]" % (c08._fmt(c08.norm(fl)), c08._fmt(c08.norm(fr)))
                return False, "(%s) − (%s) can be negative for some i ∈ [1, len−1]" % (c08._fmt(c08.norm(fl)), c08._fmt(c08.norm(fr)))
            return False, "operands are not affine in the word length / loop variable with i ∈ [1, len−1]"
    return False, "no discharge rule applies"


def discharge_call(prog, ctx, fk, b, i, t, n, R, roles, reph_fns, sub13, sub15, sub07, sub10, loop_bounds_ok, nonneg, sub_forms, word_param_pred, word_is_ascii, chk, r3):
    f = prog.fns[fk]
    owner = (f.get("impl") or {}).get("self")
    if fk in reph_fns:
        bad = list(sub13.get("C13.R1", [])) + list(sub13.get("C13.R2", [])) + list(sub13.get("*", []))
        if not bad:
            return True, "reph functions: suffix-bytes idiom (C13.R1/R2)"
        return False, "C13 does not hold (%s)" % bad[0]["key"]
    # RefCell
    if "RefCell::<T>::" in n:
        if owner == "context::RitiContext":
            refcell_ops = [x for (x, t2) in b.calls() if "RefCell::<T>::" in callee_name(t2)]
            # no function reachable from the trait object's methods mentions RitiContext
            inner = prog.reach(prog.trait_impl_methods("context::Method"), foreign_trait_impls=False)
            mentions = [k for k in inner if any("context::RitiContext" in l["ty"] for l in prog.fns[k]["mir"]["locals"])]
            # a call of another function that itself borrows the cell counts as a borrow at the call site
            cell_fns = {k for k in prog.fns if any("RefCell::<T>::" in callee_name(t2) and "try_borrow" not in callee_name(t2) for (_, t2) in prog.raw_body(k).calls())}
            indirect = [x for (x, t2) in b.calls() if callee_name(t2) in prog.fns and "RefCell::<T>::" not in callee_name(t2)
                        and (set(prog.reach([callee_name(t2)], foreign_trait_impls=False)) & cell_fns)]
            clash = None
            for x in refcell_ops:
                tx = b.blocks[x]["term"]
                if not (callee_name(tx).endswith("::borrow") or callee_name(tx).endswith("::borrow_mut")):
                    continue                      # replace / swap hold no guard
                region = _guard_region(b, x)
                hit = [y for y in refcell_ops + indirect if y != x and y in region]
                if hit:
                    clash = (x, hit[0])
                    break
            if not mentions and clash is None:
                return True, "D-refcell-leaf: no second borrow of the cell (direct or through a called method) while a borrow guard is alive; the borrowed method object cannot reach a RitiContext (no re-entrancy)"
            if clash is not None:
                ct = b.blocks[clash[1]]["term"]
                return False, "the cell is borrowed again (%s, line %s) while the guard taken here is still alive — RefCell panics with 'already borrowed'" % (
                    callee_name(ct).split("::")[-1], (ct.get("loc") or {}).get("line"))
            return False, "re-entrancy not excluded (%s)" % (mentions[:1],)
        return False, "RefCell operation outside RitiContext"
    # sorting needs a total order
    if "]>::sort" in n or "::sort_" in n:
        bad = list(sub07.get("C07.R1", [])) + list(sub07.get("C07.R2", [])) + list(sub07.get("*", []))
        if bad:
            return False, "the comparator is not shown to be a total pre-order (C07.R1/R2: %s)" % bad[0]["key"]
        if owner == builders.fixed_ty(prog):
            r3.assume("A-sort: std's sorts do not panic on the comparator's one inconsistency (an emoji rank of 10, only for the ten-emoji Bengali name; "
                      "std documents 'may panic' for non-total orders, none observed)")
            return True, "D-total-order on the phonetic rank set; fixed mode additionally under assumption A-sort (emoji rank 10)"
        return True, "D-total-order: extracted comparator is a total pre-order on the reachable rank set (C07.R2)"
    # split_at with an index from find / char_indices / len of the same string
    if n.endswith("::split_at"):
        s_e = peel_conv(b.expr_operand(t["args"][0]))
        idx = strip_refs(b.expr_operand(t["args"][1]))
        ok = _find_split(b, s_e, idx)
        if ok:
            return True, "D-find-split: index is the payload of find()/char_indices() or len() of the same string (a char boundary ≤ len)"
        # the ASCII word split at the loop variable i ∈ [1, len−1] (the two halves are the slices [..i] and [i..])
        is_word = word_param_pred(fk, b)
        if is_word(s_e):
            at = c08.affine(idx, is_word)
            if at is not None and loop_bounds_ok(b, fk) and nonneg(at) and nonneg(sub_forms({"LEN": 1}, at)) and word_is_ascii(fk, b):
                return True, "D-ascii-slice: split_at(%s) with 0 ≤ %s ≤ len for i ∈ [1, len−1] on ASCII text" % (c08._fmt(c08.norm(at)), c08._fmt(c08.norm(at)))
        return False, "split index %r is not shown to be a char boundary of %r" % (idx, s_e)
    # str slices of the ASCII word with affine bounds
    if n.endswith("for str>::index") or (n.endswith("::index") and "str" in n):
        is_word = word_param_pred(fk, b)
        call_e = E("call", n, tuple(b.expr_operand(a) for a in t["args"]), i)
        sb = c08.slice_bounds(call_e, is_word)
        if sb is None:
            return False, "not a slice of the word with affine bounds"
        lo, hi = sb
        if not loop_bounds_ok(b, fk):
            return False, "split loop is not i ∈ [1, len−1]"
        ok = nonneg(lo) and nonneg(sub_forms(hi, lo)) and nonneg(sub_forms({"LEN": 1}, hi))
        if not ok:
            return False, "bounds [%s, %s) can leave [0, len]" % (c08._fmt(c08.norm(lo)), c08._fmt(c08.norm(hi)))
        if not word_is_ascii(fk, b):
            return False, "the sliced word is not shown to be ASCII (byte offsets may split a character)"
        return True, "D-ascii-slice: 0 ≤ %s ≤ %s ≤ len for i ∈ [1, len−1] on ASCII text" % (c08._fmt(c08.norm(lo)), c08._fmt(c08.norm(hi)))
    # Vec index by the committed index
    if n.endswith("::index") and "Vec" in n:
        idx = strip_refs(b.expr_operand(t["args"][1]))
        lst = self_path(b.expr_operand(t["args"][0]))
        g = guards_of(b, i)
        if fk == R["commit"] and idx.k == "arg" and idx.a[0] == 2 and lst == (R["sug_field"], R["rank_list"]) and \
                any(d.k == "call" and d.a[0].endswith("get_phonetic_suggestion") and pol is True for (d, pol, s) in g):
            return True, "D-contract: commit index is inside the most recently returned list, which is a copy of this vector (C02.R1 / C09.R3), suggestions on"
        # the site may sit in a private helper of commit: judge it on commit's inlined body
        from . import roles as _roles
        if _only_called_from(prog, fk, R["commit"]):
            cb = _roles.ib(prog, R["commit"])
            sites = [(bb, t2) for (bb, t2) in cb.calls() if callee_name(t2).endswith("::index") and "Vec" in callee_name(t2)]
            good = bool(sites)
            for (bb, t2) in sites:
                i2 = strip_refs(cb.expr_operand(t2["args"][1]))
                l2 = self_path(cb.expr_operand(t2["args"][0]))
                g2 = guards_of(cb, bb)
                if not (i2.k == "arg" and i2.a[0] == 2 and l2 == (R["sug_field"], R["rank_list"]) and
                        any(d.k == "call" and d.a[0].endswith("get_phonetic_suggestion") and pol is True for (d, pol, s) in g2)):
                    good = False
            if good:
                return True, "D-contract (in a private helper of commit): commit index inside the most recently returned list, suggestions on"
        return False, "Vec index %r of %s is not covered by the commit contract" % (idx, lst)
    if n.endswith("::index"):
        return False, "indexing %s" % n
    # unwrap / expect
    if n.endswith("::unwrap") or n.endswith("::expect"):
        recv = b.expr_operand(t["args"][0])
        if contains_call(recv, lambda m: m == "regex::Regex::new") is not None:
            fp_src = contains_call(recv, lambda m: m.endswith("fmt::format"))
            if fp_src is not None:
                # well-formed (C15.R5: ^cleaned[class]{0,n}$ with the cleaning set ⊇ regex meta-characters) is not enough: the compiled size grows
                # with the typed word and the regex engine refuses programs above its size limit (10 MiB ≈ a word of 400 000 characters)
                return False, ("the pattern embeds the typed word: it is well-formed, but its compiled size is not bounded — a long enough word exceeds the regex "
                               "engine's size limit and this unwrap panics (CompiledTooBig)")
            if contains_call(recv, lambda m: True) is not None and any(self_path(x) and self_path(x)[-1:] == ("regex",) or False for x in recv.walk()):
                pass
            # okkhor-built pattern
            src = None
            for (bb2, t2) in b.calls():
                if callee_name(t2).endswith("convert_regex_into"):
                    src = t2
            if src is not None:
                # valid syntax is not enough: every typed letter contributes an alternation group and the compiled program grows faster than the
                # word; regex's default size limit (10 MiB) is exceeded by a word of about 1 500 keys and Regex::new returns CompiledTooBig
                return False, ("the pattern okkhor builds for the typed word is syntactically valid in any concatenation, but its compiled size is not bounded: a long "
                               "enough word (≈ 1 500 keys, e.g. `nggh` × 364) exceeds the regex engine's size limit and this unwrap panics (CompiledTooBig)")
            return False, "Regex::new on a pattern of unknown shape"
        # the bundled-data loader: Data's constructor and its private stages (associated functions of Data taking only the configuration)
        fdat = prog.fns.get(fk) or {}
        if fk == "data::Data::new" or (((fdat.get("impl") or {}).get("self") or "") == "data::Data" and not (fdat.get("impl") or {}).get("trait")
                                        and fdat.get("inputs") in (["&config::Config"], [])):
            if contains_call(recv, lambda m: m.startswith("config::Config::get_") and ("database" in m or "suffix" in m or "autocorrect_data" in m)) is not None:
                return True, "D-contract: bundled data directory (C10 scopes the *user* files; a configured data directory must hold the three data files)"
            return False, "unwrap in Data::new on a value that is not bundled-data I/O"
        if fdat.get("kind") == "Closure" and (fdat.get("root") or fdat.get("parent")) == "data::Data::new":
            # a local reader closure of the loader (`|path| read(path).unwrap()`): every call of it in the loader is handed a bundled-data path
            pb = prog.body(fdat.get("parent") or fdat.get("root"))
            sites = []
            for (bb2, t2) in pb.calls():
                n2 = callee_name(t2)
                if not (n2 == fk or n2.endswith(("Fn>::call", "FnMut>::call_mut", "FnOnce>::call_once"))):
                    continue
                a0 = strip_refs(pb.expr_operand(t2["args"][0]))
                if a0.k == "agg" and str(a0.a[0]) == "closure:" + fk:
                    sites.append(pb.expr_operand(t2["args"][1]) if len(t2["args"]) > 1 else None)
            is_path = lambda m: m.startswith("config::Config::get_") and ("database" in m or "suffix" in m or "autocorrect_data" in m)
            reads_param = all(strip_refs(x).k != "call" or not is_path(strip_refs(x).a[0]) for x in [recv]) and \
                any(x.k == "arg" and x.a[0] >= 2 for x in recv.walk())
            if sites and reads_param and all(sx is not None and contains_call(sx, is_path) is not None for sx in sites):
                return True, "D-contract: bundled data directory (a reader closure of the loader, called %d× with the configured data paths)" % len(sites)
            return False, "unwrap in a closure of Data::new on a value that is not bundled-data I/O at every call of the closure"
        if f.get("output") in ("Self", builders.fixed_ty(prog)) and owner == builders.fixed_ty(prog):
            if contains_call(recv, lambda m: m.endswith("Config::get_layout")) is not None:
                return True, "D-contract: a fixed-layout context is created with a layout file that parses (set_layout_file validated the path)"
        bad10 = [x for x in sub10.get("C10.R1", []) if x["key"].startswith("unwrap") or x["key"].startswith("expect")] + list(sub10.get("*", []))
        return False, "receiver %s is not covered by a discharge rule" % (repr(peel_conv(recv))[:160])
    if any(n.startswith(p) for p in PANIC_FNS):
        return False, "explicit panic reachable from an event"
    # inserting at the very start (byte index 0 is always a character boundary and never beyond the end)
    if n.endswith("String::insert_str") or n.endswith("String::insert"):
        idx = strip_refs(b.expr_operand(t["args"][1]))
        if is_const(idx, "int") and const_val(idx) == 0:
            return True, "D-insert-0: insertion at byte index 0 (always a boundary, never out of range)"
        return False, "insertion index %r is not the constant 0" % (idx,)
    return False, "no discharge rule for %s" % n


def _guard_region(b, x):
    """Blocks executed while the Ref/RefMut returned by the borrow at block x is alive: from the call's return to the drop of the guard
    (followed through whole-local moves); a guard that is handed to a callee or never dropped lives to the end of the function."""
    t = b.blocks[x]["term"]
    guards = {t["dest"]["l"]}
    changed = True
    while changed:
        changed = False
        for (i, j, st) in b.stmts():
            if st["k"] == "assign" and not st["place"]["p"] and st["rv"]["k"] == "use" and st["rv"]["op"].get("k") == "move" \
                    and not st["rv"]["op"]["place"]["p"] and st["rv"]["op"]["place"]["l"] in guards and st["place"]["l"] not in guards:
                guards.add(st["place"]["l"])
                changed = True
    region = set()
    work = [t["target"]] if t.get("target") is not None else []
    while work:
        n = work.pop()
        if n in region:
            continue
        region.add(n)
        tt = b.blocks[n]["term"]
        if tt["k"] == "drop" and not tt["place"]["p"] and tt["place"]["l"] in guards:
            continue
        for s_ in b.bsucc[n]:
            work.append(s_)
    return region


def _refcell_exclusive(b, x, y):
    return not (y in b.reachable_from(x) or x in b.reachable_from(y))


def _find_split(b, s_e, idx):
    """idx ∈ {payload of find(s), payload .0 of char_indices(s) items, len(s)} possibly joined by phi."""
    alts = list(idx.a[0]) if idx.k == "phi" else [idx]
    if not alts:
        return False
    for a in alts:
        a = strip_refs(a)
        ok = False
        if a.k == "call" and a.a[0].endswith("::len") and peel_conv(a.a[1][0]) == s_e:
            ok = True
        fnd = contains_call(a, lambda m: m.endswith("str>::find"))
        if fnd is not None and peel_conv(fnd.a[1][0]) == s_e and a.k == "field":
            ok = True
        ci = contains_call(a, lambda m: m.endswith("char_indices"))
        if ci is not None and peel_conv(ci.a[1][0]) == s_e and a.k == "field":
            ok = True
        if a.k == "local" or a.k == "cycle":
            ok = False
        if not ok:
            return False
    return True


def _only_called_from(prog, fk, top, depth=0):
    sites = prog.call_sites.get(fk, [])
    if not sites or depth > 4:
        return False
    for (caller, bb, t) in sites:
        if caller == top:
            continue
        if not _only_called_from(prog, caller, top, depth + 1):
            return False
    return True
