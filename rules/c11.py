"""C11 — re-configuring a live context is equivalent to creating a new one.

Decided statically: update_engine replaces the method object (same constructor as creation) on a layout
change and refreshes it otherwise, always stores the new configuration; the layout comparison is on the
whole layout value; objects that outlive update_engine never read an *option* while being built and no
option is cached in a method; every post-construction reassignment of a field the memo was computed
from is accompanied by a full clear of the memo; every event call passes the context's own config.
Not decided: full behavioural equivalence (e.g. learned selections are not re-read on update)."""
from engine.mir import E, apath, strip_refs, is_const, const_val, callee_name, self_path
from engine.analyses import (peel_conv, guards_of, contains_call, direct_writes, ModSets)
from engine.report import site_of
from . import common, builders, phonetic


def _const_is_none(prog, e):
    """e is a named constant of an Option type whose initialiser is `None` (the extractor keeps such constants opaque; the initialiser is read
    from the constant's own item in the source)."""
    import os
    import re as _re
    from engine import tables as _tables
    if e.k != "const" or not isinstance(e.a[0], tuple) or e.a[0][0] != "opaque" or len(e.a[0]) < 3:
        return False
    if not str(e.a[0][1]).startswith("std::option::Option<"):
        return False
    hits = [c for c in prog.consts if c["name"] == e.a[0][2] and c["ty"] == e.a[0][1]]
    if len(hits) != 1 or not hits[0].get("loc"):
        return False
    try:
        lines = open(os.path.join(_tables.REPO, hits[0]["loc"]["file"]), encoding="utf-8").read().splitlines()
        item = " ".join(lines[hits[0]["loc"]["line"] - 1:hits[0]["loc"].get("line_hi", hits[0]["loc"]["line"])])
    except Exception:
        return False
    return bool(_re.search(r"=\s*(?:Option::)?None\s*;", item))


def run(ctx):
    prog, chk = ctx.prog, ctx.check
    chk.explanation = (
        "Must-pass-through and dominance on RitiContext::update_engine, structural summary of the layout comparison, call-graph reachability "
        "from the long-lived objects' constructors to Config's option getters, provenance of stores into method-struct fields, and a "
        "derived-data invalidation rule: the fields read while a memo entry is computed are discovered from the code, and every later "
        "assignment to one of them must be post-dominated (or dominated) by HashMap::clear on the memo.")
    chk.not_decided = ["full behavioural equivalence of an updated and a fresh context (e.g. learned selections are not re-read; a deleted — rather than edited — "
                       "auto-correct file is not noticed)"]
    mods = ctx.memo("modsets", lambda: ModSets(prog))
    R = phonetic.roles(prog)
    roles = builders.method_roles(prog)
    ctx_ty = "context::RitiContext"
    cfields = {f["name"]: f["ty"] for f in prog.struct_fields(ctx_ty)}
    cfg_field = [n for n, t in cfields.items() if t == "config::Config"]
    meth_field = [n for n, t in cfields.items() if "dyn context::Method" in t]
    other_fields = [n for n in cfields if n not in cfg_field + meth_field]

    # ---------------- R1
    r1 = chk.rule("C11.R1", "update-engine: layout change ⇒ method replaced by the creation constructor; otherwise refreshed; config always stored",
                  "a changed layout switches method and layout; option changes take effect at once")
    ue = prog.fn_named("update_engine", self_ty=ctx_ty)
    nw = prog.fn_named("new_with_config", self_ty=ctx_ty)
    # both functions with the private method factory spliced in (it may also be written out in place)
    from . import roles as _roles
    dyn_inherent = {k for k, f in prog.fns.items() if (((f.get("impl") or {}).get("self") or "").startswith("(dyn ")
                                                        or "dyn context::Method" in ((f.get("impl") or {}).get("self") or ""))
                    and not (f.get("impl") or {}).get("trait")}
    b = _roles.ib(prog, ue, allow=dyn_inherent)
    nb = _roles.ib(prog, nw, allow=dyn_inherent)
    struct_ctors = {}
    for ty_ in prog.method_structs():
        k_ = prog.fn_named("new", self_ty=ty_, required=False)
        if k_:
            struct_ctors[k_] = ty_

    def factory_summary(body, skip_switch=None):
        """{(method struct, polarity of is_phonetic())} + the config each is built from + other guards."""
        summ, cfg_roots, sel_roots, extras, sites_ = set(), set(), set(), [], []
        for (bb_, t_) in body.calls():
            n_ = callee_name(t_)
            if n_ not in struct_ctors:
                continue
            sites_.append(bb_)
            pol_ = None
            for (d_, p_, s_) in guards_of(body, bb_):
                if s_ == skip_switch:
                    continue
                if d_.k == "call" and d_.a[0].endswith("Config::is_phonetic"):
                    pol_ = p_
                    sel_roots.add(repr(apath(peel_conv(d_.a[1][0]))[0]))
                elif d_.k == "discr" and strip_refs(d_.a[0]).k == "call" and strip_refs(d_.a[0]).a[0].startswith("config::Config::") \
                        and _two_variant_enum(prog, (prog.fns.get(strip_refs(d_.a[0]).a[0]) or {}).get("output")):
                    # the kind of layout as a private two-variant enum (`match config.layout_kind() { Phonetic => .., Fixed => .. }`): the variant
                    # taken names the side, whatever the enum is called — creation and replacement must take the same side to the same method
                    if p_ == "otherwise":
                        listed_ = [v_ for v_, _ in body.blocks[s_]["term"]["targets"]]
                        p_ = tuple(v_ for v_ in (0, 1) if v_ not in listed_)
                    pol_ = ("variant",) + tuple(p_) if isinstance(p_, tuple) else p_
                    sel_roots.add(repr(apath(peel_conv(strip_refs(d_.a[0]).a[1][0]))[0]))
                else:
                    extras.append((d_, p_))
            summ.add((struct_ctors[n_], pol_))
            cfg_roots.add(repr(apath(peel_conv(body.expr_operand(t_["args"][0])))[0]))
        return summ, cfg_roots, sel_roots, extras, sites_
    mctor = "the method factory"
    lc = [(bb, t) for (bb, t) in b.calls() if callee_name(t).startswith("config::Config::") and prog.fns.get(callee_name(t), {}).get("output") == "bool"
          and not callee_name(t).endswith("Config::is_phonetic")]
    created, c_cfg, c_sel, c_extra, _ = factory_summary(nb)
    if len(created) < 2 or len(lc) != 1:
        r1.undecidable("shape", "method construction at creation / layout comparison not found (%s, %d comparisons)" % (sorted(created), len(lc)), common.fn_line(prog, ue))
    else:
        lbb, lt = lc[0]
        la = [peel_conv(x) for x in b.call_args(lt)]
        if self_path(la[0]) == (cfg_field[0],) and la[1].k == "arg" and la[1].a[0] == 2:
            r1.ok("compare-args", "layout_changed(self.config, new config)")
        else:
            r1.violation("compare-args", "the layout comparison is between %r and %r, expected the stored and the new configuration" % (la[0], la[1]), site_of(b, lbb))
        refresh = [(bb, t) for (bb, t) in b.calls() if (t.get("callee") or {}).get("rkind") == "virtual" and (t.get("callee") or {}).get("name") == "update_engine"]
        sw = [s for s in b.rblocks if b.blocks[s]["term"]["k"] == "switch" and contains_call(strip_refs(b.expr_operand(b.blocks[s]["term"]["discr"])), lambda n: n == callee_name(lt))]
        if len(refresh) == 1 and len(sw) == 1:
            updated, u_cfg, u_sel, u_extra, u_sites = factory_summary(b, sw[0])
            g1 = sorted({pol for bb_ in u_sites for (d, pol, s) in guards_of(b, bb_) if s == sw[0]}, key=str)
            g2 = [(pol) for (d, pol, s) in guards_of(b, refresh[0][0]) if s == sw[0]]
            extra2 = [(d, pol) for (d, pol, s) in guards_of(b, refresh[0][0]) if s != sw[0]]
            new_cfg = repr(E("arg", 2))
            arg_ok = u_cfg == {new_cfg} and u_sel <= {new_cfg} and strip_refs(b.expr_operand(refresh[0][1]["args"][1])).k == "arg"
            # the new object must be stored into the method field (RefCell::replace / assignment)
            stored = any(self_path(b.expr_operand(t["args"][0])) == (meth_field[0],) and contains_call(b.expr_operand(t["args"][1]), lambda n: n in struct_ctors)
                         for (bb, t) in b.calls() if callee_name(t).endswith("RefCell::<T>::replace") or callee_name(t).endswith("mem::replace")) or \
                any(w["op"] == "assign" and w["fields"][:1] == (meth_field[0],) for w in direct_writes(b))
            if updated != created:
                r1.violation("branches", "a changed layout builds the method as %s, creation builds it as %s — the replaced method is not the one a new context would get"
                             % (sorted(updated, key=str), sorted(created, key=str)), site_of(b, sw[0]))
            elif g1 == [True] and g2 == [False] and not u_extra and not extra2 and arg_ok and stored:
                r1.ok("branches", "changed ⇒ method := the creation-time choice (is_phonetic ? phonetic : fixed) on the new config; unchanged ⇒ method.update_engine(new config)")
            else:
                r1.violation("branches", "replacement / refresh are not exactly the two sides of the layout test (guards %s / %s, extra %s %s, built from %s, stored %s)"
                             % (g1, g2, u_extra, extra2, sorted(u_cfg | u_sel), stored), site_of(b, sw[0]))
        else:
            r1.violation("branches", "expected one refresh call and one layout test, found %d / %d" % (len(refresh), len(sw)), common.fn_line(prog, ue))
        # config stored on every path
        cw = [w for w in direct_writes(b) if w["op"] == "assign" and w["root"].k == "arg" and w["root"].a[0] == 1 and w["fields"] == (cfg_field[0],)]
        good = [w for w in cw if b.postdominates(w["bb"], 0) and peel_conv(b.expr_rvalue(w["rv"])).k == "arg" and peel_conv(b.expr_rvalue(w["rv"])).a[0] == 2]
        if good:
            r1.ok("config-stored", "self.config := new config on every path")
        else:
            r1.violation("config-stored", "some path of update-engine does not store the new configuration (later events would keep using the old options)", common.fn_line(prog, ue))
        # layout comparison is on the whole layout value
        lcf = callee_name(lt)
        lb = prog.body(lcf)
        ret = strip_refs(lb.expr_local(0))
        lay_getter = prog.body(prog.fn_named("get_layout_file_path", self_ty="config::Config"))
        lay_field = self_path(peel_conv(lay_getter.expr_local(0)))
        okc = False
        if ret.k == "call" and (ret.a[0].endswith("::ne") or ret.a[0].endswith("::eq")) and len(ret.a[1]) == 2:
            x, y = strip_refs(ret.a[1][0]), strip_refs(ret.a[1][1])
            rx, fx = apath(x)
            ry, fy = apath(y)
            okc = x.k == "field" and y.k == "field" and fx == fy == lay_field and {rx.a[0], ry.a[0]} == {1, 2} and ret.a[0].endswith("::ne")
        elif ret.k == "un" and ret.a[0] == "Not":
            inner = strip_refs(ret.a[1])
            if inner.k == "call" and inner.a[0].endswith("::eq"):
                x, y = strip_refs(inner.a[1][0]), strip_refs(inner.a[1][1])
                okc = x.k == "field" and y.k == "field" and apath(x)[1] == apath(y)[1] == lay_field
        if okc:
            r1.ok("compare-whole", "layout_changed = (self.%s != new.%s) on the stored value itself" % (lay_field[0], lay_field[0]))
        else:
            r1.violation("compare-whole", "the layout comparison is %r — it must compare the complete layout value the method is built from (self.%s)"
                         % (ret, ".".join(lay_field or ("?",))), common.fn_line(prog, lcf))
    # every event passes the context's own config / data
    n_ev = 0
    for k in prog.context_entry_points():
        eb = prog.body(k)
        for (bb, t) in eb.calls():
            c = t.get("callee") or {}
            if c.get("rkind") == "virtual" and c.get("trait") == "context::Method" and k != ue:
                for a in eb.call_args(t)[1:]:
                    a = peel_conv(a)
                    ty = None
                    sp_ = self_path(a)
                    if sp_ and sp_[0] in cfields and cfields[sp_[0]] in ("config::Config", "data::Data"):
                        continue
                    if a.k == "arg":
                        continue
                    r1.violation("event-config@%s" % k.split("::")[-1], "event passes %r instead of the context's own configuration/data" % (a,), site_of(eb, bb))
                n_ev += 1
                has_cfg = any(self_path(peel_conv(a)) == (cfg_field[0],) for a in eb.call_args(t)[1:])
                wants_cfg = any("config::Config" in (a["place"]["ty"] if a["k"] != "const" else "") for a in t["args"])
                if wants_cfg and not has_cfg:
                    r1.violation("event-config@%s" % k.split("::")[-1], "the event does not pass self.config", site_of(eb, bb))
                elif wants_cfg:
                    r1.ok("event-config@%s" % k.split("::")[-1], "passes &self.config")
    r1.floor(7, "compare-args, branches, config-stored, compare-whole, ≥3 events passing the config")

    # ---------------- R2 options are never cached / latched
    r2 = chk.rule("C11.R2", "no option is read while building an object that outlives update-engine, and none is stored in a method",
                  "option changes take effect at once (nothing decided at creation time survives a re-configuration)")
    opt_getters = {k for k, f in prog.fns.items() if (f.get("impl") or {}).get("self") == "config::Config" and f.get("output") == "bool"
                   and len(f.get("inputs") or []) == 1 and not k.endswith("is_phonetic")}
    # long-lived constructors: everything built in new_with_config
    built = []
    for (bb, t) in nb.calls():
        n = callee_name(t)
        if n in prog.fns and n != "config::Config::clone":
            built.append(n)
    for n in sorted(set(built)):
        rch = prog.reach([n], foreign_trait_impls=False)
        used = sorted(g for g in opt_getters if g in rch)
        key = "ctor:%s" % n.split("::")[-2:][0] + "::" + n.split("::")[-1]
        if used:
            # where
            site = None
            for fk in rch:
                fb = prog.body(fk)
                for (bb, t) in fb.calls():
                    if callee_name(t) in used and site is None:
                        site = site_of(fb, bb)
            r2.violation(key, "%s reads the option %s while constructing an object that update-engine does not rebuild when only options change"
                         % (n, ", ".join(u.split("::")[-1] for u in used)), site)
        else:
            r2.ok(key, "reads no option getter (only paths / layout)")
    # stores of option values into method struct fields outside constructors
    n_store = 0
    for ty in roles:
        for k, f in prog.fns.items():
            if (f.get("impl") or {}).get("self") != ty or f.get("output") in ("Self", ty):
                continue
            fb = prog.body(k)
            for w in direct_writes(fb):
                if w["op"] != "assign" or w["root"].k != "arg" or w["root"].a[0] != 1:
                    continue
                n_store += 1
                rv = fb.expr_rvalue(w["rv"])
                c = contains_call(rv, lambda n: n in opt_getters or n.endswith("Config::get_layout") or n.endswith("get_layout_file_path"))
                if c is not None:
                    r2.violation("cached:%s.%s" % (ty.split("::")[-1], ".".join(w["fields"])), "the value of %s is stored in self.%s — it would survive a re-configuration"
                                 % (c.a[0].split("::")[-1], ".".join(w["fields"])), site_of(fb, w["bb"], w["idx"]))
    r2.ok("stores", "%d field stores in the method structs examined, none holds an option value" % n_store)
    r2.floor(3, "≥2 constructors + store scan")

    # ---------------- R3 derived-data invalidation
    r3 = chk.rule("C11.R3", "every reassignment of a field the memo is computed from fully clears the memo on the same path",
                  "an edited user auto-correct file is honoured for every word, including words already typed before the edit")
    sug_ty = R["sug_ty"]
    memo = R["memo"]
    # discover the inputs of the memo fill: fields of the suggestion struct read between !contains_key and insert
    fill_fns = [k for k, f in prog.fns.items() if (f.get("impl") or {}).get("self") == sug_ty and f.get("kind") != "Closure"
                and any(callee_name(t).endswith("HashMap::<K, V, S, A>::insert") and self_path(prog.body(k).expr_operand(t["args"][0])) == (memo,)
                        for (bb, t) in prog.body(k).calls())]
    if len(fill_fns) != 1:
        r3.undecidable("fill", "memo fill function matched %s" % fill_fns)
        return
    fb = prog.body(fill_fns[0])
    ins_bb = [bb for (bb, t) in fb.calls() if callee_name(t).endswith("::insert") and self_path(fb.expr_operand(t["args"][0])) == (memo,)][0]
    ck_sw = None
    for s in fb.rblocks:
        tt = fb.blocks[s]["term"]
        if tt["k"] == "switch":
            d = strip_refs(fb.expr_operand(tt["discr"]))
            if d.k == "call" and d.a[0].endswith("::contains_key") and self_path(d.a[1][0]) == (memo,):
                ck_sw = s
    region = set()
    if ck_sw is not None:
        for (node, vals, tgt) in fb.switch_edges(ck_sw):
            if vals == (0,):
                region = {x for x in fb.reachable_from(tgt) if fb.dominates(tgt, x) and (x == ins_bb or ins_bb in fb.reachable_from(x))}
    read_fields = set()
    callees_in_region = set()
    for x in region:
        t = fb.blocks[x]["term"]
        if t["k"] == "call":
            if callee_name(t) in prog.fns:
                callees_in_region.add(callee_name(t))
            for a in fb.call_args(t):
                sp_ = self_path(a)
                if sp_:
                    read_fields.add(sp_[0])
    for c in list(callees_in_region):
        for k in prog.reach([c], foreign_trait_impls=False):
            kb = prog.body(k)
            if (prog.fns[k].get("impl") or {}).get("self") != sug_ty and prog.fns[k].get("kind") != "Closure":
                continue
            for (bb, t) in kb.calls():
                for a in kb.call_args(t):
                    sp_ = self_path(a)
                    if sp_ and (prog.fns[k].get("impl") or {}).get("self") == sug_ty:
                        read_fields.add(sp_[0])
    read_fields.discard(memo)
    r3.table("memo_inputs", sorted(read_fields))
    if R["user_autocorrect"] not in read_fields:
        r3.undecidable("inputs", "the memo fill region does not read the user auto-correct map (found %s) — discovery failed" % sorted(read_fields))
    # every non-constructor assignment to a read field
    n_assign = 0
    for k, f in prog.fns.items():
        kb = prog.body(k)
        for w in direct_writes(kb):
            if w["op"] != "assign":
                continue
            # path ends with a read field of the suggestion struct
            fl = w["fields"]
            if not fl or fl[-1] not in read_fields:
                continue
            # type check: the object written is the suggestion struct (self in sug_ty methods, or self.<sug_field> in the method struct)
            owner = (f.get("impl") or {}).get("self")
            root_ok = (owner == sug_ty and len(fl) == 1 and w["root"].k == "arg" and w["root"].a[0] == 1) or \
                      (owner == R["method_ty"] and len(fl) == 2 and fl[0] == R["sug_field"])
            if not root_ok:
                continue
            n_assign += 1
            prefix = fl[:-1]
            # immutable parsers etc. are never reassigned; for each assignment require the clear
            clears = [(bb, t) for (bb, t) in kb.calls() if callee_name(t).endswith("HashMap::<K, V, S, A>::clear")
                      and self_path(kb.expr_operand(t["args"][0])) == prefix + (memo,)]
            # or via a local callee that always clears
            good = any(kb.postdominates(cbb, w["bb"]) or kb.dominates(cbb, w["bb"]) for cbb, _ in clears)
            key = "assign:%s@%s" % (fl[-1], k.split("::")[-1])
            if good:
                r3.ok(key, "self.%s reassigned together with %s.clear()" % (".".join(fl), memo))
            else:
                partial = [callee_name(t).split("::")[-1] for (bb, t) in kb.calls() if self_path(kb.expr_operand(t["args"][0])) == prefix + (memo,)
                           and t["args"][0]["place"]["ty"].startswith("&mut")] if True else []
                r3.violation(key, "self.%s is reassigned after construction without a full clear of the memo on the same path%s — entries computed from the old "
                             "value survive" % (".".join(fl), (" (only %s)" % ", ".join(partial)) if partial else ""), site_of(kb, w["bb"], w["idx"]))
    if n_assign == 0:
        r3.violation("no-reload", "the user auto-correct map is never reassigned after construction — an edited file cannot be honoured", common.fn_line(prog, R["update"]))
    # the reload must actually be reached from the method's update_engine and use the setter/assignment
    upd = prog.reach([R["update"]], foreign_trait_impls=False)
    reaches = any(any(w["op"] == "assign" and w["fields"] and w["fields"][-1] == R["user_autocorrect"] for w in direct_writes(prog.body(k))) for k in upd)
    if reaches:
        r3.ok("reload-reached", "the method's update_engine can reach the reassignment")
    else:
        r3.violation("reload-reached", "the phonetic method's update_engine never reloads the user auto-correct map", common.fn_line(prog, R["update"]))
    r3.floor(2, "one reassignment + reload reached")

    # ---------------- R4 the reload gate (modification time) advances only together with a reload
    r4 = chk.rule("C11.R4", "update-engine advances the stored modification time only on paths that also replace the user auto-correct map",
                  "a user auto-correct file edited in the meantime is honoured (a file that is not loaded must not be remembered as seen)")
    from engine.analyses import enumerate_paths, PathLimit
    from . import roles as _roles
    # the remembered modification time: a SystemTime, or an Option of one (None = no file loaded)
    def _is_file_state(t):
        """SystemTime, Option<SystemTime>, or a private enum with one variant carrying the time and field-less variants for 'no file'."""
        if t == "std::time::SystemTime" or t.replace(" ", "") == "std::option::Option<std::time::SystemTime>":
            return True
        a = prog.adts.get(t)
        if a and a.get("kind") == "enum":
            with_t = [v for v in a["variants"] if any(f["ty"] == "std::time::SystemTime" for f in v["fields"])]
            rest = [v for v in a["variants"] if v not in with_t]
            return len(with_t) == 1 and rest and all(not v["fields"] for v in rest)
        return False
    ts_fields = [n for n, t in R["fields"].items() if _is_file_state(t)]
    # discriminant values that mean 'nothing loaded': None of an Option (0), the field-less variants of a private state enum
    _ts_ty = R["fields"].get(ts_fields[0]) if len(ts_fields) == 1 else None
    _ts_adt = prog.adts.get(_ts_ty or "")
    nothing_idx = {i for i, v in enumerate(_ts_adt["variants"]) if not v["fields"]} if _ts_adt else {0}
    if len(ts_fields) != 1:
        r4.undecidable("gate", "modification-time field (SystemTime) of the phonetic method matched %s" % ts_fields)
    else:
        ts = ts_fields[0]
        ub = _roles.ib_paths(prog, R["update"])
        ws = phonetic.field_writes(prog, R["update"], mods, body=ub)
        # (`state.take()` only ever resets the remembered state to 'nothing loaded': it cannot mark an unloaded edit as seen)
        ts_bbs = {bb for (fl, op, bb, w) in ws if fl[:1] == (ts,) and not (op.endswith("Option::<T>::take") or op.endswith("mem::take"))}
        ac_bbs = {bb for (fl, op, bb, w) in ws if fl[:2] == (R["sug_field"], R["user_autocorrect"]) and op == "assign"}
        if not ts_bbs:
            r4.violation("gate", "update-engine never advances self.%s: the file would be re-read on every call (or never, if the gate is gone)" % ts, common.fn_line(prog, R["update"]))
        else:
            try:
                n_p = 0
                bad = None
                for path in enumerate_paths(ub):
                    on = {bb for (bb, vals) in path}
                    if on & ts_bbs:
                        n_p += 1
                        if not (on & ac_bbs):
                            if _stores_same_value(ub, path, on & ts_bbs, ts):
                                continue        # `if self.state.replace(new) != Some(new)` on its equal side: what was stored is what was there
                            bad = path
                            break
                if bad is not None:
                    r4.violation("gate", "a path of update-engine stores the file's modification time in self.%s without replacing the auto-correct map — the edit is "
                                 "remembered as seen but never loaded (a newly created context would load it)" % ts, site_of(ub, sorted(set(bb for bb, _ in bad) & ts_bbs)[0]))
                elif n_p == 0:
                    r4.undecidable("gate", "no path writes the modification time")
                else:
                    r4.ok("gate", "%d path(s) advance self.%s, each also assigns self.%s.%s" % (n_p, ts, R["sug_field"], R["user_autocorrect"]))
            except PathLimit as e:
                r4.undecidable("gate", "cannot enumerate the paths of update-engine: %s" % e)
    r4.floor(1, "gate")

    # ---------------- R5 the gate notices every change of the file, and its removal
    r5 = chk.rule("C11.R5", "the reload is gated by `modification time differs` (not `is newer`), and a file that has disappeared empties the map like at creation",
                  "behaves as a context newly created over the same user files: an older restored file or a deleted file is honoured too")
    if len(ts_fields) == 1:
        ts = ts_fields[0]
        ub = _roles.ib_paths(prog, R["update"])
        ws5 = phonetic.field_writes(prog, R["update"], mods, body=ub)
        ac5 = sorted({bb for (fl, op, bb, w) in ws5 if fl[:2] == (R["sug_field"], R["user_autocorrect"]) and op == "assign"})
        # path-sensitive: every path that replaces the map does so because the stored time differs from the file's (eq / ne comparison) or because
        # the file cannot be opened any more; helpers returning Option<…> are followed with their known variants
        from engine.analyses import sym_paths
        try:
            paths5 = sym_paths(ub, 0, 20000)
        except PathLimit as e:
            paths5 = None
            r5.undecidable("gate-compare", "cannot enumerate the paths of update-engine: %s" % e, common.fn_line(prog, R["update"]))
        if paths5 is not None:
            kinds = set()
            ordering = None
            ungated = None
            removed_ok = False
            n_assign = 0
            for path, env, conds in paths5:
                on = [bb for (bb, vals) in path]
                if not (set(on) & set(ac5)):
                    continue
                n_assign += 1
                first_assign = min(on.index(bb) for bb in ac5 if bb in on)
                gate = None
                for (d, vals, allv, ty, sbb) in conds:
                    if sbb not in on or on.index(sbb) > first_assign:
                        continue
                    d0 = strip_refs(d)
                    neg = False
                    while d0.k == "un" and d0.a[0] == "Not":
                        d0 = strip_refs(d0.a[1])
                        neg = not neg
                    if d0.k == "call" and any((self_path(x) or ())[:1] == (ts,) for a_ in d0.a[1] for x in a_.walk()):
                        nm = d0.a[0].split("::")[-1]
                        if nm in ("ne", "eq"):
                            gate = gate or "differs"
                        elif nm in ("gt", "lt", "ge", "le"):
                            ordering = (nm, sbb)
                            gate = gate or "ordering"
                    if d0.k == "bin" and d0.a[0] in ("Eq", "Ne") and any(strip_refs(x_).k == "discr" and (self_path(strip_refs(x_).a[0]) or ())[:1] == (ts,)
                                                                          for x_ in (d0.a[1], d0.a[2])):
                        gate = gate or "differs"       # the remembered state compared as a whole (a derived `!=` on a state enum tests the variants first)
                    if d0.k == "discr" and strip_refs(d0.a[0]).k == "call" and strip_refs(d0.a[0]).a[0].endswith("File::open"):      # the open's own result, not a value derived from the file
                        is_err = vals == (1,) or (vals == "otherwise" and 1 not in allv and 0 in allv)
                        if is_err:
                            gate = "removed"
                            removed_ok = True
                if gate is None:
                    ungated = ungated or path
                kinds.add(gate)
            if ordering is not None:
                r5.violation("gate-compare", "the reload is gated by an ordering comparison (%s) of modification times: a file replaced by an older one (restored backup, cp -p) is never "
                             "loaded, a newly created context would load it" % ordering[0], site_of(ub, ordering[1]))
            elif n_assign == 0 or (ungated is not None and "differs" not in kinds):
                r5.undecidable("gate-compare", "no comparison of the stored modification time guards the reload", common.fn_line(prog, R["update"]))
            elif ungated is not None:
                r5.violation("gate-compare", "a path of update-engine replaces the map without comparing the stored modification time (the file is re-read on every call)",
                             site_of(ub, [bb for bb, _ in ungated if bb in ac5][0]))
            else:
                r5.ok("gate-compare", "reload ⇐ the file's modification time differs from the stored one (%d replacing paths)" % n_assign)
            # removed-state: on a path where the file cannot be opened and the map is kept, the reason must be that nothing was loaded —
            # a test of the remembered state's own discriminant (Option is None) or of the map being empty; a comparison of the remembered
            # time with a time value is a sentinel that a loaded file can have too (its entries would then survive the file's removal)
            kept = []
            for path, env, conds in paths5:
                on = [bb for (bb, vals) in path]
                if set(on) & set(ac5):
                    continue
                outcomes = []            # the open's result may be tested again at the end of the scope (drop flag): all tests on a feasible path agree
                why = []
                for (d, vals, allv, ty, sbb) in conds:
                    if sbb not in on:
                        continue
                    d0 = strip_refs(d)
                    neg_ = False
                    while d0.k == "un" and d0.a[0] == "Not":
                        d0 = strip_refs(d0.a[1])
                        neg_ = not neg_
                    if d0.k == "discr" and strip_refs(d0.a[0]).k == "call" and strip_refs(d0.a[0]).a[0].endswith("File::open"):
                        outcomes.append(vals == (1,) or (vals == "otherwise" and 1 not in allv and 0 in allv))
                        continue
                    mentions_ts = any((self_path(x) or ())[:1] == (ts,) for x in d0.walk())
                    mentions_map = any(self_path(x)[:2] == (R["sug_field"], R["user_autocorrect"]) for x in d0.walk() if self_path(x))
                    truth = (vals != (0,)) if vals != "otherwise" else (0 in allv)          # the branch taken: discriminant / bool ≠ 0 ?
                    if neg_:
                        truth = not truth
                    if d0.k == "discr" and mentions_ts:
                        via_try = contains_call(d0, lambda n: n.endswith("Try>::branch")) is not None       # `state?`: Break (1) is None
                        if via_try:
                            nothing_ = truth
                        else:
                            taken_ = set(vals) if vals != "otherwise" else (set(range(len(_ts_adt["variants"]) if _ts_adt else 2)) - set(allv))
                            nothing_ = bool(taken_) and taken_ <= nothing_idx                              # the variant(s) taken mean 'nothing loaded'
                        why.append(("state" if nothing_ else "loaded", sbb))
                    elif d0.k == "bin" and d0.a[0] in ("Eq", "Ne") and mentions_ts and \
                            any(strip_refs(x_).k == "discr" and common._variant_index(prog, strip_refs(x_)) is not None for x_ in (d0.a[1], d0.a[2])):
                        # a derived `==` / `!=` of the remembered state with one of its field-less variants (`state != FileState::Missing`), written out
                        # as the comparison of the two discriminants
                        k_ = [common._variant_index(prog, strip_refs(x_)) for x_ in (d0.a[1], d0.a[2]) if strip_refs(x_).k == "discr"
                              and common._variant_index(prog, strip_refs(x_)) is not None][0]
                        same_ = truth if d0.a[0] == "Eq" else (not truth)
                        if same_:
                            why.append(("state" if k_ in nothing_idx else "loaded", sbb))
                        elif nothing_idx == {k_}:
                            why.append(("loaded", sbb))
                        else:
                            why.append(("other", sbb))
                    elif d0.k == "call" and mentions_ts and d0.a[0].split("::")[-1] in ("is_some", "is_none"):
                        nothing = (not truth) if d0.a[0].split("::")[-1] == "is_some" else truth
                        why.append(("state" if nothing else "loaded", sbb))
                    elif d0.k == "call" and mentions_ts and d0.a[0].split("::")[-1] in ("eq", "ne") and \
                            any((strip_refs(a_).k == "agg" and str(strip_refs(a_).a[0]).endswith("Option::None")) or _const_is_none(prog, strip_refs(a_)) for a_ in d0.a[1]):
                        # compared with `None` itself (possibly through a named constant): the state test spelled as an equality
                        is_none_ = truth if d0.a[0].split("::")[-1] == "eq" else (not truth)
                        why.append(("state" if is_none_ else "loaded", sbb))
                    elif d0.k == "call" and mentions_ts and d0.a[0].split("::")[-1] in ("eq", "ne", "gt", "lt", "ge", "le"):
                        why.append(("sentinel", sbb))
                    elif mentions_map and d0.k == "call" and d0.a[0].split("::")[-1] in ("is_empty", "len"):
                        why.append(("state", sbb))
                    elif mentions_ts or mentions_map:
                        why.append(("other", sbb))
                if outcomes and all(outcomes):
                    kept.append((path, why))
            # changed-file: a file that opened and whose time differs from the remembered one is loaded on every path — also when it does not
            # parse (a new context takes an unreadable file for an empty one; keeping the old entries instead makes the two differ)
            unloaded = None
            for path, env, conds in paths5:
                on = [bb for (bb, vals) in path]
                if set(on) & set(ac5):
                    continue
                outcomes, differs = [], None
                for (d, vals, allv, ty, sbb) in conds:
                    if sbb not in on:
                        continue
                    d0 = strip_refs(d)
                    neg_ = False
                    while d0.k == "un" and d0.a[0] == "Not":
                        d0 = strip_refs(d0.a[1])
                        neg_ = not neg_
                    if d0.k == "discr" and strip_refs(d0.a[0]).k == "call" and strip_refs(d0.a[0]).a[0].endswith("File::open"):
                        outcomes.append(vals == (1,) or (vals == "otherwise" and 1 not in allv and 0 in allv))
                        continue
                    if d0.k == "call" and d0.a[0].split("::")[-1] in ("ne", "eq") and any((self_path(x) or ())[:1] == (ts,) for a_ in d0.a[1] for x in a_.walk()):
                        truth = (vals != (0,)) if vals != "otherwise" else (0 in allv)
                        if neg_:
                            truth = not truth
                        differs = truth if d0.a[0].split("::")[-1] == "ne" else (not truth)
                        differs_bb = sbb
                if outcomes and not any(outcomes) and differs is True:
                    unloaded = unloaded or (path, differs_bb)
            if unloaded is not None:
                r5.violation("changed-file", "a path of update-engine finds the file changed (it opens, its modification time differs) and yet keeps the old entries — "
                             "e.g. when the new content does not parse; a newly created context would have none of them", site_of(ub, unloaded[1]))
            elif paths5:
                r5.ok("changed-file", "a file that opens with a different modification time replaces the map on every path")
            if kept:
                sent = [w for (_, why) in kept for w in why if w[0] == "sentinel" and not any(x[0] == "state" for x in why)]
                unexplained = [pth for (pth, why) in kept if not [w for w in why if w[0] != "loaded"]]
                other = [w for (_, why) in kept for w in why if w[0] == "other" and not any(x[0] in ("state", "sentinel") for x in why)]
                if sent:
                    r5.violation("removed-state", "when the file cannot be opened the old entries are kept if the remembered modification time equals a fixed time value: "
                                 "a file that really has that modification time (or none the platform can report) stays in effect after it is deleted — 'no file loaded' "
                                 "must be a state of its own (an Option), not a time", site_of(ub, sent[0][1]))
                elif unexplained:
                    r5.violation("removed-state", "a path of update-engine on which the file cannot be opened keeps the map without testing whether anything was loaded",
                                 site_of(ub, [bb for bb, _ in unexplained[0]][-1]))
                elif other:
                    r5.undecidable("removed-state", "cannot read the condition under which the entries are kept when the file is gone", site_of(ub, other[0][1]))
                else:
                    r5.ok("removed-state", "entries are kept on a failed open only when the remembered state says nothing was loaded (%d path(s))" % len(kept))
            else:
                r5.ok("removed-state", "every path on which the file cannot be opened replaces the map")
            opens = [s_ for s_ in ub.rblocks if ub.blocks[s_]["term"]["k"] == "switch"
                     and contains_call(strip_refs(ub.expr_operand(ub.blocks[s_]["term"]["discr"])), lambda n: n.endswith("File::open")) is not None]
            if not opens:
                r5.undecidable("removed-file", "no File::open result is branched on in update-engine", common.fn_line(prog, R["update"]))
            elif removed_ok:
                r5.ok("removed-file", "when the file cannot be opened any more the map is replaced (as the constructor starts with an empty one)")
            else:
                r5.violation("removed-file", "when the user auto-correct file cannot be opened update-engine keeps the old entries; a newly created context has none",
                             site_of(ub, opens[0]))
    r5.floor(4, "gate-compare, changed-file, removed-state, removed-file")


def _two_variant_enum(prog, ty):
    a = prog.adts.get(ty or "")
    return bool(a) and a.get("kind") == "enum" and len(a["variants"]) == 2 and not any(v["fields"] for v in a["variants"])


def _stores_same_value(ub, path, store_bbs, ts):
    """Every store of the remembered state on this path is an `Option::replace(&mut self.<ts>, x)` whose returned old value the path then found
    equal to `Some(x)` — the stored value is the value that was there, so nothing was advanced."""
    from engine.analyses import bool_switch_polarity
    for sb in store_bbs:
        t = ub.blocks[sb]["term"]
        if t["k"] != "call" or not callee_name(t).endswith("Option::<T>::replace") or self_path(ub.expr_operand(t["args"][0])) != (ts,):
            return False
        new_v = strip_refs(peel_conv(ub.expr_operand(t["args"][1])))
        ok = False
        for (bb, vals) in path:
            tt = ub.blocks[bb]["term"]
            if tt["k"] != "switch" or tt["discr_ty"] != "bool" or vals is None:
                continue
            d = strip_refs(ub.expr_operand(tt["discr"]))
            neg = False
            while d.k == "un" and d.a[0] == "Not":
                d = strip_refs(d.a[1])
                neg = not neg
            if not (d.k == "call" and d.a[0].endswith(("::ne", "::eq")) and len(d.a[1]) == 2):
                continue
            sides = [strip_refs(peel_conv(x)) for x in d.a[1]]
            old_side = [x for x in sides if x.k == "call" and x.a[0].endswith("Option::<T>::replace") and x.a[2] == sb] if all(len(x.a) > 2 for x in sides if x.k == "call") else []
            if not old_side:
                old_side = [x for x in sides if x.k == "call" and x.a[0].endswith("Option::<T>::replace")]
            some_side = [x for x in sides if x.k == "agg" and str(x.a[0]).endswith("Option::Some") and len(x.a[1]) == 1 and strip_refs(peel_conv(x.a[1][0])) == new_v]
            if len(old_side) != 1 or len(some_side) != 1:
                continue
            truth = (vals != (0,)) if vals != "otherwise" else (0 in tuple(v for v, _ in tt["targets"]))
            if neg:
                truth = not truth
            equal = truth if d.a[0].endswith("::eq") else (not truth)
            if equal:
                ok = True
        if not ok:
            return False
    return True
